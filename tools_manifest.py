#!/venv/bin/python
"""Regenerates MANIFEST.json from checks/registry.py (single source of truth)."""
import json, os, sys
sys.path.insert(0, os.path.dirname(os.path.abspath(__file__)))
from checks import registry

def main():
    props = [json.loads(l) for l in open(os.path.join(os.path.dirname(__file__), "properties.jsonl"))]
    ids = [p["id"] for p in props]
    checks = []
    na = []
    for pid in ids:
        r = registry.REG.get(pid)
        if r is None or r.get("na"):
            na.append({"property_id": pid, "reason": (r or {}).get("na", "check not built yet (work in progress)")})
            continue
        checks.append({
            "property_id": pid,
            "quick_cmd": "./check %s --tier quick" % pid,
            "thorough_cmd": "./check %s --tier thorough" % pid,
            "evidence_file": "/verif/evidence/%s.json" % pid,
            "replay_cmd_template": "./check %s --replay {path}" % pid,
            "engine": r.get("engine", "tlc+replay"),
            "level_claimed": {"category": "model_checking", "text": r["level_text"],
                              "design_ref": r.get("design_ref", "DESIGN.md section 2, " + pid)},
            "level_note": r["level_note"],
            "technique": r["technique"],
        })
    man = {
        "version": 1,
        "setup_cmd": "./setup.sh",
        "hooks": {"guard": "AMR_KITCHEN_VERIF",
                  "enable": "checks set AMR_KITCHEN_VERIF=1 and import amr_kitchen from /repo's working tree; all instrumentation is done from outside the repository by harness/shims.py (no in-repo hooks)",
                  "baseline_off_cmd": "cd /repo && env -u AMR_KITCHEN_VERIF /venv/bin/python -m pytest -ra -q -p no:cacheprovider --timeout=900 --continue-on-collection-errors",
                  "source_commits": registry.HOOK_COMMITS,
                  "add_only": True},
        "engines": registry.ENGINES,
        "checks": checks,
        "notes": registry.NOTES,
        "not_applicable": na,
    }
    with open(os.path.join(os.path.dirname(__file__), "MANIFEST.json"), "w") as f:
        json.dump(man, f, indent=1)
    print("MANIFEST.json: %d checks, %d not_applicable" % (len(checks), len(na)))

if __name__ == "__main__":
    main()
