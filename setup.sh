#!/bin/sh
# Offline setup: nothing to build; verify the tools the checks rely on are present.
set -e
cd "$(dirname "$0")"
command -v tlc >/dev/null
/venv/bin/python -c "import numpy, scipy, sys; sys.path.insert(0,'/repo'); import amr_kitchen"
mkdir -p evidence replays
echo setup ok
