-------------------------------- MODULE Taste --------------------------------
(***************************************************************************)
(* taste: the plotfile validator, and what "damaged" means.                *)
(*                                                                         *)
(* State: a mutable on-disk plotfile `plt` (per level: the lines of the    *)
(* level header and the binary files as flat sequences of UNITS), the      *)
(* corruptions applied so far, the options, and the validator's progress.  *)
(*                                                                         *)
(* A unit is  [k |-> "H", idx, nc, canon, sh]  -- one whole FAB header     *)
(*   line (canon = byte-identical to the canonical header text; sh = -1 /  *)
(*   +1: a few bytes were cut from / put in front of the line, so that     *)
(*   everything behind it in the file is displaced by less than a unit     *)
(*   against the recorded byte positions; mv = 1: the line sits a few      *)
(*   bytes BEFORE its recorded position because that many payload bytes    *)
(*   were taken from the FAB in front of it and put into its own payload:  *)
(*   nothing behind this FAB is displaced and the file length is kept), or *)
(*            [k |-> "D"]                  -- one unit of payload bytes.   *)
(* A FAB of a box with `c` cells and `n` components is H followed by c*n D.*)
(* Byte offsets are 0-based unit positions.                                *)
(*                                                                         *)
(* Requirement layer:  Damaged(plt, L)  (layout only, evaluated on the     *)
(* resulting state, so corruptions that cancel are not damage),            *)
(* ReadConsistent(plt, L).                                                 *)
(* Implementation layer: the validator's steps as taste.py performs them.  *)
(***************************************************************************)
EXTENDS Naturals, Integers, Sequences, FiniteSets, TLC, SequencesExt, FiniteSetsExt, Functions

CONSTANTS
  NF,            \* number of fields in the global header
  MaxBox,        \* boxes at the corrupted level: 1..MaxBox
  MaxFile,
  MaxCorrupt,    \* 0, 1 or 2 corruptions
  Kinds,         \* set of corruption kinds enabled
  CheckFirstHeader,   \* TRUE: the shape walk also compares the first header of a file (repaired code)
  SortOffsets,        \* TRUE (the code) | FALSE (mutant: header-order walk)
  EOFRule,            \* TRUE (the code) | FALSE (mutant: no end-of-file check)
  ExactNext           \* TRUE (the code: the bytes found where a FAB ends are compared with the next header) |
                      \* FALSE (mutant: only positions are compared -- the end of a FAB against the next recorded offset)

Rng(s) == {s[i] : i \in DOMAIN s}
PermsOf(S) == {s \in [1..Cardinality(S) -> S] : Rng(s) = S}

\* index-range ids: 1..MaxBox are the level's boxes; 91, 92 are foreign ranges (2 resp. 3 cells)
ClassPattern == <<1, 2, 1, 2>>
CellsOfIdx(i) == IF i = 91 THEN 2 ELSE IF i = 92 THEN 3 ELSE ClassPattern[i] + 1
ForeignIdx == {91, 92}

H(idx, nc) == [k |-> "H", idx |-> idx, nc |-> nc, canon |-> TRUE, sh |-> 0, mv |-> 0]
D == [k |-> "D"]
RECURSIVE Rep(_, _)
Rep(x, n) == IF n = 0 THEN <<>> ELSE <<x>> \o Rep(x, n - 1)
FabUnits(idx, nc) == <<H(idx, nc)>> \o Rep(D, CellsOfIdx(idx) * nc)
RECURSIVE Concat(_)
Concat(ss) == IF ss = <<>> THEN <<>> ELSE Head(ss) \o Concat(Tail(ss))

-----------------------------------------------------------------------------
(* Well-formed base plotfiles                                              *)
FileFns(nb) == {fn \in [1..nb -> 1..MaxFile] : \E k \in 1..MaxFile : Rng(fn) = 1..k}
Layouts(nb) == {[file |-> fn, disk |-> [f \in Rng(fn) |-> SelectSeq(p, LAMBDA b : fn[b] = f)]] :
                   fn \in FileFns(nb), p \in PermsOf(1..nb)}

RECURSIVE SumTo(_, _)
SumTo(sizes, j) == IF j = 0 THEN 0 ELSE sizes[j] + SumTo(sizes, j - 1)

BaseLevel(lay) ==
  LET nb == Len(lay.file)
      units(f) == Concat([j \in DOMAIN lay.disk[f] |-> FabUnits(lay.disk[f][j], NF)])
      posIn(f, b) == CHOOSE j \in DOMAIN lay.disk[f] : lay.disk[f][j] = b
      off(b) == LET f == lay.file[b]
                IN SumTo([j \in DOMAIN lay.disk[f] |-> 1 + CellsOfIdx(lay.disk[f][j]) * NF], posIn(f, b) - 1)
  IN [nfline |-> NF, cnt1 |-> nb, cnt2 |-> nb, hdrcnt |-> nb,
      boxlines |-> [b \in 1..nb |-> [k |-> "box", idx |-> b]],
      \* early: the recorded position lies a few bytes BEFORE the FAB header, in bytes of the preceding payload that read as
      \* text without a line end (zero-valued cells): the header line read from there still ends with the header
      fodlines |-> [b \in 1..nb |-> [k |-> "fod", file |-> lay.file[b], off |-> off(b), early |-> FALSE]],
      bounds_ok |-> [b \in 1..nb |-> TRUE],
      files |-> [f \in Rng(lay.file) |-> units(f)], gone |-> {}]

-----------------------------------------------------------------------------
(* Requirement layer                                                       *)

CellHParses(L) ==
  /\ L.nfline = NF
  /\ Len(L.boxlines) = L.cnt1 /\ Len(L.fodlines) = L.cnt2 /\ L.cnt1 = L.cnt2
  /\ \A i \in DOMAIN L.boxlines : L.boxlines[i].k = "box"
  /\ \A i \in DOMAIN L.fodlines : L.fodlines[i].k = "fod"

RefFiles(L) == {L.fodlines[b].file : b \in DOMAIN L.fodlines}
BoxesIn(L, f) == {b \in DOMAIN L.fodlines : L.fodlines[b].file = f}
\* what counts for the layout: index range, component count and LENGTH of every header (blanks re-recorded in the
\* level header are not damage; bytes cut from or put in front of a header line displace the rest of the file)
Norm(units) == [i \in DOMAIN units |-> IF units[i].k = "H" THEN [k |-> "H", idx |-> units[i].idx, nc |-> units[i].nc, sh |-> units[i].sh, mv |-> units[i].mv]
                                                         ELSE units[i]]

\* the file is exactly the FABs of the boxes that reference it, in some order, each at its recorded offset
FileSound(L, f) ==
  /\ f \in DOMAIN L.files /\ f \notin L.gone
  /\ \E ord \in PermsOf(BoxesIn(L, f)) :
        LET sizes == [k \in DOMAIN ord |-> 1 + CellsOfIdx(L.boxlines[ord[k]].idx) * NF]
        IN /\ Norm(L.files[f]) = Norm(Concat([k \in DOMAIN ord |-> FabUnits(L.boxlines[ord[k]].idx, NF)]))
           /\ \A k \in DOMAIN ord : L.fodlines[ord[k]].off = SumTo(sizes, k - 1)

LevelDamaged(L) == ~CellHParses(L) \/ \E f \in RefFiles(L) : ~FileSound(L, f)
Damaged(P, lim) == \E l \in 1..(lim + 1) : LevelDamaged(P[l])
BoundsDamaged(P, lim) == \E l \in 1..(lim + 1) : \E b \in DOMAIN P[l].bounds_ok : ~P[l].bounds_ok[b]

\* what a reader gets for box b: the header found at the recorded position and whether the
\* payload that follows is complete
UnitAt(units, off) == IF off >= 0 /\ off < Len(units) THEN units[off + 1] ELSE [k |-> "none"]
\* displacement (in header-edit lengths) of unit position `off` against its recorded byte position
RECURSIVE DispTo(_, _)
DispTo(units, n) == IF n = 0 THEN 0 ELSE (IF units[n].k = "H" THEN units[n].sh ELSE 0) + DispTo(units, n - 1)
Disp(units, off) == DispTo(units, IF off < Len(units) THEN off ELSE Len(units))
ReadBoxOK(L, b) ==
  LET fl == L.fodlines[b] IN
  /\ fl.file \in DOMAIN L.files /\ fl.file \notin L.gone
  /\ LET u == L.files[fl.file]
         h == UnitAt(u, fl.off)
     IN /\ h.k = "H" /\ h.idx = L.boxlines[b].idx /\ h.nc = NF
        /\ (fl.early => fl.off > 0 /\ UnitAt(u, fl.off - 1).k = "D")
        /\ fl.off + 1 + CellsOfIdx(h.idx) * NF <= Len(u)
        /\ \A i \in (fl.off + 1)..(fl.off + CellsOfIdx(h.idx) * NF) : u[i + 1].k = "D"
ReadConsistent(P, lim) ==
  \A l \in 1..(lim + 1) : CellHParses(P[l]) /\ \A b \in DOMAIN P[l].boxlines : ReadBoxOK(P[l], b)

-----------------------------------------------------------------------------
(* Implementation layer: one operator per validator step.  Each returns    *)
(* "ok", "error" (raise_error: a finding) or "exception" (something blew   *)
(* up and is caught by the constructor).                                   *)

ImplParseCellH(L) ==
  \* read_cell_headers: nfields assertion, cnt1 box lines (3 tokens each), the ")" line is skipped,
  \* assert cnt1 = cnt2, cnt1 FabOnDisk lines (3 tokens, int offset)
  IF L.nfline # NF THEN "exception"
  ELSE IF Len(L.boxlines) < L.cnt1 THEN "exception"            \* runs into ")" : wrong token count
  ELSE IF \E i \in 1..L.cnt1 : L.boxlines[i].k # "box" THEN "exception"
  ELSE IF Len(L.boxlines) > L.cnt1 THEN "exception"            \* next line is a box line, not ")" -> int() fails later
  ELSE IF L.cnt1 # L.cnt2 THEN "exception"
  ELSE IF Len(L.fodlines) < L.cnt1 THEN "exception"
  ELSE IF \E i \in 1..L.cnt1 : L.fodlines[i].k # "fod" THEN "exception"
  ELSE "ok"

ImplStructure(L) ==
  IF \E f \in RefFiles(L) : f \notin DOMAIN L.files \/ f \in L.gone THEN "error" ELSE "ok"

ImplCoords(L) ==
  IF L.hdrcnt > Len(L.boxlines) THEN "exception"
  ELSE IF \E b \in 1..L.hdrcnt : ~L.bounds_ok[b] THEN "error" ELSE "ok"

SortedBoxesP(L, f, sortOffsets) ==
  IF sortOffsets
  THEN CHOOSE s \in PermsOf(BoxesIn(L, f)) :
         \A i, j \in DOMAIN s : i < j =>
            \/ L.fodlines[s[i]].off < L.fodlines[s[j]].off
            \/ (L.fodlines[s[i]].off = L.fodlines[s[j]].off /\ s[i] < s[j])
  ELSE CHOOSE s \in PermsOf(BoxesIn(L, f)) : \A i, j \in DOMAIN s : i < j => s[i] < s[j]

SortedBoxes(L, f) == SortedBoxesP(L, f, SortOffsets)

\* mp_fun_headers for one file
ImplHeadersFileP(L, f, sortOffsets) ==
  IF f \notin DOMAIN L.files \/ f \in L.gone THEN "exception"
  ELSE LET u == L.files[f]
           bs == SortedBoxesP(L, f, sortOffsets)
           \* seek(recorded offset); readline; parse the LAST four tokens of the line.  When the file is displaced towards its
           \* start (bytes cut from an earlier header) the seek lands a few bytes inside the header line, whose tail still
           \* parses; displaced the other way it lands in the payload in front of the header: garbage
           r(b) == LET h == UnitAt(u, L.fodlines[b].off)
                       fl == L.fodlines[b]
                       okEarly == ~fl.early \/ (fl.off > 0 /\ UnitAt(u, fl.off - 1).k = "D")
                   IN IF h.k # "H" \/ ~okEarly \/ Disp(u, L.fodlines[b].off) > 0 THEN "exception"
                      ELSE IF h.idx # L.boxlines[b].idx \/ h.nc # NF THEN "error" ELSE "ok"
           \* the first non-ok box in visiting order decides
           bad == {i \in DOMAIN bs : r(bs[i]) # "ok"}
       IN IF bad = {} THEN "ok" ELSE r(bs[Min(bad)])

\* mp_fun_shape for one file: sequential walk from byte 0
ImplHeadersFile(L, f) == ImplHeadersFileP(L, f, SortOffsets)

RECURSIVE Walk(_, _, _, _, _, _)
Walk(L, u, bs, i, pos, eofRule) ==
  \* positioned on the header of the i-th box of the walk, at unit `pos`
  LET h == UnitAt(u, pos) IN
  IF h.k # "H" THEN "exception"                      \* shape_from_header fails
  ELSE LET nxt == pos + 1 + CellsOfIdx(h.idx) * h.nc IN
       IF i = Len(bs)
       THEN IF eofRule /\ nxt # Len(u) THEN "error" ELSE "ok"
       ELSE LET hn == UnitAt(u, nxt)
                ok == IF ExactNext THEN hn.k = "H" /\ hn.canon /\ hn.idx = L.boxlines[bs[i + 1]].idx /\ hn.nc = NF
                      ELSE L.fodlines[bs[i + 1]].off = nxt
            IN IF ~ok THEN "error" ELSE Walk(L, u, bs, i + 1, nxt, eofRule)

ImplShapeFileP(L, f, checkFirst, sortOffsets, eofRule) ==
  IF f \notin DOMAIN L.files \/ f \in L.gone THEN "exception"
  ELSE LET u == L.files[f]
           bs == SortedBoxesP(L, f, sortOffsets)
           h0 == UnitAt(u, 0)
       IN IF checkFirst /\ h0.k = "H"
             /\ ~(h0.canon /\ h0.idx = L.boxlines[bs[1]].idx /\ h0.nc = NF)
          THEN "error"
          ELSE Walk(L, u, bs, 1, 0, eofRule)
ImplShapeFile(L, f) == ImplShapeFileP(L, f, CheckFirstHeader, SortOffsets, EOFRule)

Worst(S) == IF "exception" \in S THEN "exception" ELSE IF "error" \in S THEN "error" ELSE "ok"
ImplHeaders(L) == Worst({ImplHeadersFile(L, f) : f \in RefFiles(L)})
ImplShape(L) == Worst({ImplShapeFile(L, f) : f \in RefFiles(L)})

\* Would a validator built with other design choices accept this level?  Used to single out the
\* FRAGILE damaged states: those that only one of the validator's rules stands against.
LevelGoodWith(L, checkFirst, sortOffsets, eofRule) ==
  /\ ImplParseCellH(L) = "ok" /\ ImplStructure(L) = "ok"
  /\ \A f \in RefFiles(L) : ImplHeadersFileP(L, f, sortOffsets) = "ok"
  /\ \A f \in RefFiles(L) : ImplShapeFileP(L, f, checkFirst, sortOffsets, eofRule) = "ok"
Fragile(P, lim) == \E cf, so, eo \in BOOLEAN :
   /\ ~(cf /\ so /\ eo)
   /\ \A l \in 1..(lim + 1) : LevelGoodWith(P[l], cf, so, eo)

=============================================================================
