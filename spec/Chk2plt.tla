------------------------------ MODULE Chk2plt ------------------------------
(***************************************************************************)
(* chk2plt: PeleLMeX checkpoint -> plotfile.                               *)
(*                                                                         *)
(* A checkpoint level keeps three data subsets that matter here (state     *)
(* with ghost cells, gradp, I_R), EACH WITH ITS OWN LAYOUT over binary     *)
(* files.  Requirement layer: ConvertSpec.  Implementation layer (mirrors  *)
(* chk2plt.py): one imap task per unique STATE file; the task scans the    *)
(* state file sequentially, strips ghosts, optionally floors the mass      *)
(* fractions, fetches gradp / I_R of the same box by (file, offset) and    *)
(* writes one FAB; the parent maps results through the state boxes sorted  *)
(* by state offset; level headers, then the global header.                 *)
(***************************************************************************)
EXTENDS Plotfile, Pool

CONSTANTS NS,            \* number of species
          MaxLev, MaxBox, MaxFile, W, SchedMode,
          MapOrder       \* "disk" (the code) | "header" (mutant)

VARIABLES chk, cells, flags, pc, lv, tasks, call, res, out, sched
vvars == <<chk, cells, flags, pc, lv, tasks, call, res, out, sched>>

ClassPattern == <<1, 2, 1, 2, 2, 1>>
CellsOf(nb) == [b \in 1..nb |-> ClassPattern[b] + 1]
NState == 4 + NS + 3
NoOut == [fields |-> <<>>, hdr |-> FALSE, lev |-> <<>>]

\* names as strings only (TLC cannot compare strings with tuples)
YName(s) == IF s = 1 THEN "Y1" ELSE IF s = 2 THEN "Y2" ELSE "Y3"
IRName(s) == IF s = 1 THEN "IR1" ELSE IF s = 2 THEN "IR2" ELSE "IR3"
FieldsSpec(g) ==
  <<"x_velocity", "y_velocity", "z_velocity", "density">> \o [s \in 1..NS |-> YName(s)] \o <<"rhoh", "temp", "RhoRT">>
  \o (IF g.gradp THEN <<"gradpx", "gradpy", "gradpz">> ELSE <<>>)
  \o (IF g.reactions THEN [s \in 1..NS |-> IRName(s)] ELSE <<>>)

\* interior of a state component; floored for species components when requested
IsY(f) == f \in 5..(4 + NS)
Conv(tok, g) == IF g.floor /\ IsY(tok[4]) THEN <<"floor", tok[2], tok[3], tok[4]>> ELSE <<"int", tok[2], tok[3], tok[4]>>

(* Requirement *)
ConvertSpec(K, g) ==
  [fields |-> FieldsSpec(g),
   lev |-> [l \in DOMAIN K |->
              [b \in DOMAIN K[l].state.idx |->
                 LET comps == [f \in 1..NState |-> Conv(<<"S", l - 1, b, f>>, g)]
                              \o (IF g.gradp THEN [c \in 1..3 |-> <<"G", l - 1, b, c>>] ELSE <<>>)
                              \o (IF g.reactions THEN [s \in 1..NS |-> <<"R", l - 1, b, s>>] ELSE <<>>)
                 IN [idx |-> b, comps |-> comps, mm |-> [i \in DOMAIN comps |-> <<"ext", comps[i]>>]]]]]

(* Implementation *)
Init ==
  /\ \E nl \in 1..MaxLev : \E nbs \in [1..nl -> 1..MaxBox] :
       /\ cells = [l \in 1..nl |-> CellsOf(nbs[l])]
       /\ \E ls, lg, lr \in [1..nl -> UNION {Layouts(n, MaxFile) : n \in 1..MaxBox}] :
            /\ \A l \in 1..nl : Len(ls[l].file) = nbs[l] /\ Len(lg[l].file) = nbs[l] /\ Len(lr[l].file) = nbs[l]
            /\ chk = [l \in 1..nl |-> [state |-> SrcLevel("S", l - 1, NState, cells[l], ls[l]),
                                       gradp |-> SrcLevel("G", l - 1, 3, cells[l], lg[l]),
                                       ir    |-> SrcLevel("R", l - 1, NS, cells[l], lr[l])]]
  /\ flags \in [gradp : BOOLEAN, reactions : BOOLEAN, floor : BOOLEAN]
  /\ pc = "start" /\ lv = 0 /\ tasks = <<>> /\ call = NoCall /\ res = <<>> /\ out = NoOut /\ sched = <<>>

MkTree ==
  /\ pc = "start"
  /\ out' = [out EXCEPT !.lev = [l \in DOMAIN chk |-> [files |-> <<>>, cellh |-> FALSE]]]
  /\ pc' = "submit" /\ lv' = 0
  /\ UNCHANGED <<chk, cells, flags, tasks, call, res, sched>>

SubmitLevel ==
  /\ pc = "submit"
  /\ LET S == chk[lv + 1].state
         fs == UniqueFiles(S)
     IN /\ tasks' = [k \in DOMAIN fs |->
                       [file |-> fs[k],
                        boxes |-> IF MapOrder = "disk" THEN SortedByOffset(S, BoxesOfFile(S, fs[k]))
                                  ELSE BoxesOfFile(S, fs[k])]]
        /\ call' = NewCall("imap", Len(fs))
        /\ res' = [k \in DOMAIN fs |-> <<>>]
  /\ pc' = "pool"
  /\ UNCHANGED <<chk, cells, flags, lv, out, sched>>

Start(k) ==
  /\ pc = "pool" /\ CanStart(call, k, W)
  /\ (SchedMode = "fifo" => \A j \in 1..(k - 1) : call.st[j] # "pend")
  /\ call' = DoStart(call, k)
  /\ UNCHANGED <<chk, cells, flags, pc, lv, tasks, res, out, sched>>

\* write_plt_bin_from_chk: the j-th FAB met in the state file is taken to be box tasks[k].boxes[j]
Finish(k) ==
  /\ pc = "pool" /\ CanFinish(call, k)
  /\ (SchedMode = "fifo" => \A j \in 1..(k - 1) : call.st[j] = "done")
  /\ LET K == chk[lv + 1]
         sf == K.state.files[tasks[k].file]
         w == [j \in DOMAIN sf |->
                 LET b == tasks[k].boxes[j]
                     g == FabAt(K.gradp.files[K.gradp.fod[b].file], K.gradp.fod[b].off)
                     r == FabAt(K.ir.files[K.ir.fod[b].file], K.ir.fod[b].off)
                 IN Fab(K.state.idx[b], sf[j].cells,
                        [f \in DOMAIN sf[j].comps |-> Conv(sf[j].comps[f], flags)]
                        \o (IF flags.gradp THEN g.comps ELSE <<>>)
                        \o (IF flags.reactions THEN r.comps ELSE <<>>))]
     IN /\ out' = [out EXCEPT !.lev[lv + 1].files = @ @@ (tasks[k].file :> w)]
        /\ res' = [res EXCEPT ![k] = [j \in DOMAIN w |-> [off |-> StartOf(w, j),
                                                          mm |-> [c \in DOMAIN w[j].comps |-> <<"ext", w[j].comps[c]>>]]]]
  /\ call' = DoFinish(call, k)
  /\ sched' = Append(sched, k)
  /\ UNCHANGED <<chk, cells, flags, pc, lv, tasks>>

GatherAndWriteLevelHeader ==
  /\ pc = "pool" /\ AllDone(call)
  /\ LET S == chk[lv + 1].state
         r(b) == LET k == CHOOSE k \in DOMAIN tasks : b \in Rng(tasks[k].boxes)
                 IN res[k][PosIn(tasks[k].boxes, b)]
     IN out' = [out EXCEPT !.lev[lv + 1] =
                  [files |-> @.files, cellh |-> TRUE, idx |-> S.idx,
                   fod |-> [b \in DOMAIN S.idx |-> [file |-> S.fod[b].file, off |-> r(b).off]],
                   mm  |-> [b \in DOMAIN S.idx |-> r(b).mm]]]
  /\ call' = NoCall /\ tasks' = <<>> /\ res' = <<>>
  /\ IF lv + 1 < Len(chk) THEN lv' = lv + 1 /\ pc' = "submit" ELSE lv' = lv /\ pc' = "header"
  /\ UNCHANGED <<chk, cells, flags, sched>>

WriteHeader ==
  /\ pc = "header"
  /\ out' = [out EXCEPT !.hdr = TRUE, !.fields = FieldsSpec(flags)]
  /\ pc' = "done"
  /\ UNCHANGED <<chk, cells, flags, lv, tasks, call, res, sched>>

Next == MkTree \/ SubmitLevel \/ GatherAndWriteLevelHeader \/ WriteHeader
        \/ (\E k \in 1..MaxFile : Start(k) \/ Finish(k))
Spec == Init /\ [][Next]_vvars /\ WF_vvars(Next)

OutPlt == [fields |-> out.fields,
           lev |-> [l \in DOMAIN out.lev |-> [idx |-> out.lev[l].idx, fod |-> out.lev[l].fod,
                                              mm |-> out.lev[l].mm, files |-> out.lev[l].files]]]
ConvertRefines == pc = "done" =>
  /\ PltWF(OutPlt)
  /\ Content(OutPlt) = ConvertSpec(chk, flags)
CheckpointUnchanged == [][chk' = chk]_vvars
NoSharedWrites == pc = "pool" => \A j, k \in DOMAIN tasks : j # k => tasks[j].file # tasks[k].file
PoolOK == CallOK(call, W)
Terminates == <>(pc = "done")
=============================================================================
