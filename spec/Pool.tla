-------------------------------- MODULE Pool --------------------------------
(***************************************************************************)
(* A process pool call (multiprocessing.Pool / pathos ProcessingPool) as a *)
(* value plus step operators.  Tool modules keep one `call` variable and   *)
(* use these operators in their Start / Finish / Deliver actions, so that  *)
(* TLC explores every start and completion order for up to W workers.      *)
(*                                                                         *)
(*   kind = "map"            results handed over all at once, in           *)
(*                           submission order, once every task is done     *)
(*   kind = "apply"          apply / apply_async / map_async: like "map",  *)
(*                           but only when the caller asks (get()); an     *)
(*                           exception of a task stays in the result       *)
(*                           object until then (wait() never raises)       *)
(*   kind = "imap"           result k handed over when k is done and k-1   *)
(*                           has been handed over                          *)
(*   kind = "imap_unordered" results handed over in completion order       *)
(* CPython hands tasks to workers in submission order; the model allows    *)
(* any start order (a superset).                                           *)
(***************************************************************************)
EXTENDS Naturals, Sequences, FiniteSets

NoCall == [kind |-> "none", n |-> 0, st |-> <<>>, fin |-> <<>>, del |-> <<>>]
NewCall(kind, n) == [kind |-> kind, n |-> n, st |-> [k \in 1..n |-> "pend"],
                     fin |-> <<>>, del |-> <<>>]

Running(c) == {k \in 1..c.n : c.st[k] = "run"}
CanStart(c, k, W) == k \in 1..c.n /\ c.st[k] = "pend" /\ Cardinality(Running(c)) < W
DoStart(c, k) == [c EXCEPT !.st[k] = "run"]
CanFinish(c, k) == k \in 1..c.n /\ c.st[k] = "run"
DoFinish(c, k) == [c EXCEPT !.st[k] = "done", !.fin = Append(@, k)]
AllDone(c) == \A k \in 1..c.n : c.st[k] = "done"
AllDelivered(c) == Len(c.del) = c.n

\* the set of task numbers whose result may be handed to the parent next
Deliverable(c) ==
  \* "apply": apply / apply_async / map_async / starmap -- one job whose results are handed over together, by get()
  CASE c.kind \in {"map", "apply"} -> IF AllDone(c) /\ Len(c.del) < c.n THEN {Len(c.del) + 1} ELSE {}
    [] c.kind = "imap" -> IF Len(c.del) < c.n /\ c.st[Len(c.del) + 1] = "done"
                          THEN {Len(c.del) + 1} ELSE {}
    [] c.kind = "imap_unordered" -> IF Len(c.del) < Len(c.fin) THEN {c.fin[Len(c.del) + 1]} ELSE {}
    [] OTHER -> {}
DoDeliver(c, k) == [c EXCEPT !.del = Append(@, k)]

\* Type invariant and sanity properties of a call value
CallOK(c, W) ==
  /\ Cardinality(Running(c)) <= W
  /\ \A i \in DOMAIN c.fin : c.st[c.fin[i]] = "done"
  /\ \A i \in DOMAIN c.del : c.st[c.del[i]] = "done"
  /\ \A i, j \in DOMAIN c.del : i # j => c.del[i] # c.del[j]
  /\ (c.kind \in {"map", "imap", "apply"} => \A i \in DOMAIN c.del : c.del[i] = i)
=============================================================================
