----------------------------- MODULE StartMethod -----------------------------
(***************************************************************************)
(* How what a worker needs reaches it.  The parent imports the module      *)
(* (every module global gets its import-time value), parses its request,   *)
(* may store it in a module global, creates a pool and sends tasks.         *)
(*   StartMethod = "fork":  a worker is a copy of the parent at the moment  *)
(*                          the pool is created (globals included);         *)
(*               = "spawn": a worker imports the module afresh -- every     *)
(*                          global has its import-time value.               *)
(*   Transport   = "by-task"   (the code: the request travels in each task) *)
(*               = "by-global" (mutant: the task names the file only, the   *)
(*                          worker reads a global the parent set)           *)
(* Requirement: every task is executed with the request of THIS run.        *)
(***************************************************************************)
EXTENDS Naturals, Integers, Sequences, TLC

CONSTANTS StartMethod, Transport, Requests     \* Requests: set of possible request values, 0 = the import-time default
VARIABLES pc, request, parentGlobal, workerGlobal, used
vars == <<pc, request, parentGlobal, workerGlobal, used>>

Init == pc = "parse" /\ request \in Requests /\ parentGlobal = 0 /\ workerGlobal = 0 /\ used = -1
Parse == /\ pc = "parse"
         /\ parentGlobal' = IF Transport = "by-global" THEN request ELSE parentGlobal
         /\ pc' = "pool" /\ UNCHANGED <<request, workerGlobal, used>>
MakePool == /\ pc = "pool"
            /\ workerGlobal' = IF StartMethod = "fork" THEN parentGlobal ELSE 0
            /\ pc' = "task" /\ UNCHANGED <<request, parentGlobal, used>>
RunTask == /\ pc = "task"
           /\ used' = IF Transport = "by-task" THEN request ELSE workerGlobal
           /\ pc' = "done" /\ UNCHANGED <<request, parentGlobal, workerGlobal>>
Next == Parse \/ MakePool \/ RunTask
Spec == Init /\ [][Next]_vars /\ WF_vars(Next)

WorkerSeesRequest == pc = "done" => used = request
Terminates == <>(pc = "done")
=============================================================================
