------------------------------ MODULE ChefSel ------------------------------
(***************************************************************************)
(* chef's per-species / per-reaction recipes (SRi, SDi, RRi): which        *)
(* component ends under which name (C11: "every component is stored under  *)
(* its own name").                                                         *)
(*                                                                         *)
(* The mechanism lists NS species (or reactions) in a fixed order; the     *)
(* user gives a SELECTION: a duplicate-free list in ANY order.             *)
(* Requirement: component j of the new data is named after sel[j] and      *)
(* holds the property of sel[j].                                           *)
(* Implementation (chef.py): the names are built from the list as given;   *)
(* the values are taken from the solution array by the list of mechanism   *)
(* indexes of the selection (fancy indexing: in the order given).          *)
(* IndexMode = "list" is the code; the other values are plausible          *)
(* "optimisations" for which TLC must find a selection that breaks.        *)
(***************************************************************************)
EXTENDS Naturals, Sequences, FiniteSets, TLC, Json

CONSTANTS NS,           \* species (reactions) of the mechanism: 1..NS in mechanism order
          MaxSel,       \* longest selection
          IndexMode     \* "list" (the code) | "slice_if_block" (a consecutive block is read as a slice) | "sorted"

VARIABLES sel, pc, names, vals
vvars == <<sel, pc, names, vals>>

Rng(s) == {s[i] : i \in DOMAIN s}
Selections == {s \in UNION {[1..n -> 1..NS] : n \in 1..MaxSel} : \A i, j \in DOMAIN s : i # j => s[i] # s[j]}
SetMin(S) == CHOOSE x \in S : \A y \in S : x <= y
SetMax(S) == CHOOSE x \in S : \A y \in S : x >= y
SortedSeq(S) == CHOOSE s \in [1..Cardinality(S) -> S] : Rng(s) = S /\ \A i, j \in DOMAIN s : i < j => s[i] < s[j]

Init == sel \in Selections /\ pc = "resolve" /\ names = <<>> /\ vals = <<>>

\* output names in the order given; values by index list / slice / sorted list
Resolve ==
  /\ pc = "resolve"
  /\ names' = [j \in DOMAIN sel |-> <<"name", sel[j]>>]
  /\ LET S == Rng(sel)
         block == SetMax(S) - SetMin(S) + 1 = Len(sel)
         idx == IF IndexMode = "sorted" \/ (IndexMode = "slice_if_block" /\ block) THEN SortedSeq(S) ELSE sel
     IN vals' = [j \in DOMAIN idx |-> <<"prop", idx[j]>>]
  /\ pc' = "done" /\ UNCHANGED sel
Next == Resolve
Spec == Init /\ [][Next]_vvars /\ WF_vvars(Next)

\* requirement
SelSpec(s) == [j \in DOMAIN s |-> [name |-> <<"name", s[j]>>, val |-> <<"prop", s[j]>>]]
OwnName == pc = "done" => [j \in DOMAIN sel |-> [name |-> names[j], val |-> vals[j]]] = SelSpec(sel)
Terminates == <>(pc = "done")

\* classes: how the selection sits in the mechanism order
Block == SetMax(Rng(sel)) - SetMin(Rng(sel)) + 1 = Len(sel)
InOrder == \A i, j \in DOMAIN sel : i < j => sel[i] < sel[j]
Sig == <<Len(sel), IF Block THEN "consecutive" ELSE "scattered", IF InOrder THEN "mechanism-order" ELSE "other-order">>
Emit == pc = "done" => PrintT(ToJson([prop |-> "ChefSel", sel |-> sel, sig |-> Sig]))
=============================================================================
