-------------------------------- MODULE Ghost --------------------------------
(***************************************************************************)
(* Growth beyond the listed properties: the box adjacency ("ghost") map    *)
(* that PlotfileCooker(ghost=True) builds and marinate pickles.            *)
(*                                                                         *)
(* Block lattice as in Pestle.tla (boxes of 2 or 3 blocks at any block     *)
(* offset; lattice cell = half a block).  compute_box_array paints every   *)
(* box on an occupancy map at resolution Rez; compute_ghost_map reads, for *)
(* each box and each face, the box numbers found in the one-map-cell-thick *)
(* layer outside that face.                                                *)
(* Requirement: Neighbours(b, d, side) = the boxes of the level that share *)
(* a piece of that face with b -- in particular the relation is symmetric: *)
(* a is a high-side neighbour of b along d iff b is a low-side neighbour   *)
(* of a.                                                                   *)
(* Implementation (mirrors compute_ghost_map): the low-side layer is       *)
(* sliced with the box's inclusive high index used as an EXCLUSIVE bound   *)
(* (LoSlice = "exclusive": the last row of map cells in the other          *)
(* direction is never looked at) -- the original code; "inclusive" is what *)
(* the high side does.                                                     *)
(***************************************************************************)
EXTENDS Pestle

CONSTANTS LoSlice    \* "exclusive" (the code) | "inclusive" (what symmetry needs)

\* map-cell extent of box b of level l (inclusive)
MLo(l, b, d) == M[l + 1][b].lo[d] \div Rez
MHi(l, b, d) == M[l + 1][b].hi[d] \div Rez
MapShape(l, d) == ((IF d = 1 THEN n1 ELSE N2) * Pow2(l)) \div Rez

\* requirement: boxes sharing a piece of the face
Touch(l, a, b, d, side) ==
  LET o == 3 - d IN
  /\ a # b
  /\ IF side = "hi" THEN M[l + 1][a].lo[d] = M[l + 1][b].hi[d] + 1 ELSE M[l + 1][a].hi[d] + 1 = M[l + 1][b].lo[d]
  /\ ~(M[l + 1][a].hi[o] < M[l + 1][b].lo[o] \/ M[l + 1][b].hi[o] < M[l + 1][a].lo[o])
Neighbours(l, b, d, side) == {a \in DOMAIN M[l + 1] : Touch(l, a, b, d, side)}

\* implementation: box numbers in the sliced region of the occupancy map (python slice bounds, hi exclusive)
Region(l, lo1, hi1, lo2, hi2) ==
  {MapCell(l, <<i, j>>) : i \in lo1..(hi1 - 1), j \in lo2..(hi2 - 1)} \ {0}
ImplLo(l, b, d) ==
  LET o == 3 - d
      lod == IF MLo(l, b, d) - 1 < 0 THEN 0 ELSE MLo(l, b, d) - 1
      hid == IF LoSlice = "exclusive" THEN MHi(l, b, d) ELSE MHi(l, b, d) + 1
      hio == IF LoSlice = "exclusive" THEN MHi(l, b, o) ELSE MHi(l, b, o) + 1
  IN (IF d = 1 THEN Region(l, lod, hid, MLo(l, b, o), hio) ELSE Region(l, MLo(l, b, o), hio, lod, hid)) \ {b}
ImplHi(l, b, d) ==
  LET o == 3 - d
      \* idx_hi[1] += 1 ; idx_hi[1][coo] = min(idx_hi[1][coo] + 1, shape[coo] - 1)
      hid == IF MHi(l, b, d) + 2 > MapShape(l, d) - 1 THEN MapShape(l, d) - 1 ELSE MHi(l, b, d) + 2
  IN (IF d = 1 THEN Region(l, MLo(l, b, d), hid, MLo(l, b, o), MHi(l, b, o) + 1)
                ELSE Region(l, MLo(l, b, o), MHi(l, b, o) + 1, MLo(l, b, d), hid)) \ {b}

GhostRefines == \A l \in 0..(Len(M) - 1) : \A b \in DOMAIN M[l + 1] : \A d \in {1, 2} :
   /\ ImplLo(l, b, d) = Neighbours(l, b, d, "lo")
   /\ ImplHi(l, b, d) = Neighbours(l, b, d, "hi")
GhostSymmetric == \A l \in 0..(Len(M) - 1) : \A a, b \in DOMAIN M[l + 1] : \A d \in {1, 2} :
   (a \in ImplHi(l, b, d)) <=> (b \in ImplLo(l, a, d))
=============================================================================
