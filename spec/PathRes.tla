------------------------------- MODULE PathRes -------------------------------
(***************************************************************************)
(* Which directory a path NAMES, and which one a tool OPENS.               *)
(*                                                                         *)
(* A file system is a tree of directories in which some entries are        *)
(* symbolic links to other directories.  The operating system resolves a   *)
(* path component by component: a link is followed when it is met, so the  *)
(* ".." behind a link is the parent of the link's TARGET.  A textual       *)
(* normalisation (os.path.normpath, os.path.abspath) cancels "x/.." pairs  *)
(* without looking at x.  The two agree unless a link is followed by "..". *)
(*                                                                         *)
(* Requirement: a tool opens the directory its argument names (OsResolve). *)
(* Implementation: the tool may canonicalise the text first (Canon).       *)
(*   Canon = "none"     the argument is handed to open() as typed (code)   *)
(*         = "abspath"  os.path.abspath first (a tempting "robustness"     *)
(*                      change; fine for deriving an OUTPUT name, which is *)
(*                      what the repaired default-output rules do)         *)
(* The spellings are those of harness/spell.py (one per element of Forms). *)
(***************************************************************************)
EXTENDS Naturals, Sequences, FiniteSets, TLC

CONSTANT Canon

Last(s) == s[Len(s)]
Front(s) == SubSeq(s, 1, Len(s) - 1)

\* absolute locations are sequences of names; the tree:  /store/sub   /store/plt   /work/latest -> /store/sub   /store/lnk -> /store/plt
Plt == <<"store", "plt">>
Links == [l \in {<<"work", "latest">>, <<"store", "lnk">>} |-> IF l = <<"work", "latest">> THEN <<"store", "sub">> ELSE Plt]
Dirs == {<<>>, <<"store">>, <<"store", "sub">>, Plt, <<"work">>}

\* operating system: walk the components from the root (all paths here are absolute; a relative one is the same walk
\* started at the working directory)
RECURSIVE Walk(_, _)
Walk(at, cs) ==
  IF cs = <<>> THEN at
  ELSE LET c == Head(cs) IN
       IF c = "." THEN Walk(at, Tail(cs))
       ELSE IF c = ".." THEN Walk(IF at = <<>> THEN at ELSE Front(at), Tail(cs))
       ELSE LET nxt == Append(at, c) IN
            IF nxt \in DOMAIN Links THEN Walk(Links[nxt], Tail(cs)) ELSE Walk(nxt, Tail(cs))
OsResolve(p) == Walk(<<>>, p)

\* os.path.normpath on the text
RECURSIVE Norm(_, _)
Norm(cs, acc) ==
  IF cs = <<>> THEN acc
  ELSE LET c == Head(cs) IN
       IF c = "." THEN Norm(Tail(cs), acc)
       ELSE IF c = ".." THEN Norm(Tail(cs), IF acc = <<>> THEN acc ELSE Front(acc))
       ELSE Norm(Tail(cs), Append(acc, c))

Forms == [plain |-> Plt,
          dot |-> <<"store", ".", "plt">>,
          downup |-> <<"store", "sub", "..", "plt">>,
          linkthenup |-> <<"work", "latest", "..", "plt">>,
          linktoit |-> <<"store", "lnk">>]

Opened(p) == OsResolve(IF Canon = "abspath" THEN Norm(p, <<>>) ELSE p)
\* every spelling names the plotfile ...
SpellingsAreEquivalent == \A f \in DOMAIN Forms : OsResolve(Forms[f]) = Plt
\* ... and the tool opens it (an element outside Dirs does not exist: the open fails)
OpensWhatWasNamed == \A f \in DOMAIN Forms : Opened(Forms[f]) = OsResolve(Forms[f])

VARIABLE dummy
Init == dummy = 0
Next == UNCHANGED dummy
=============================================================================
