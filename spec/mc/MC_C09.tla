------------------------------ MODULE MC_C09 ------------------------------
EXTENDS Pestle, Json
Misaligned == \E l \in DOMAIN M : \E b \in DOMAIN M[l] : M[l][b].lo[1] % SetMin(Extents) # 0
\* where the refined part of a partly refined box touches it: the sides of the box along which a whole line of cells is refined
\* (a reader that skips "the planes that are refined anyway" is right or wrong depending on the side and on the axis that is z)
Cov(l, c) == CoveredByFiner(M, l - 1, c, lim)
SlabSides(l, bx) ==
  IF (\A c \in CellsOf(bx) : Cov(l, c)) \/ (\A c \in CellsOf(bx) : ~Cov(l, c)) THEN {}
  ELSE (IF \A j \in bx.lo[2]..bx.hi[2] : Cov(l, <<bx.lo[1], j>>) THEN {"lo1"} ELSE {}) \cup
       (IF \A j \in bx.lo[2]..bx.hi[2] : Cov(l, <<bx.hi[1], j>>) THEN {"hi1"} ELSE {}) \cup
       (IF \A i \in bx.lo[1]..bx.hi[1] : Cov(l, <<i, bx.lo[2]>>) THEN {"lo2"} ELSE {}) \cup
       (IF \A i \in bx.lo[1]..bx.hi[1] : Cov(l, <<i, bx.hi[2]>>) THEN {"hi2"} ELSE {})
SlabClass == UNION {UNION {SlabSides(l, M[l][b]) : b \in DOMAIN M[l]} : l \in 1..lim}
Sig == <<Len(M), lim, volfrac, Extents, IF Misaligned THEN "misaligned" ELSE "aligned",
         IF \E l \in 1..(Len(M) - 1) : \E c \in LevelCells(M, l - 1) : ~CoveredByFiner(M, l - 1, c, Len(M) - 1) THEN "partial" ELSE "full",
         SlabClass>>
SetToSeq2(S) == LET n == Cardinality(S) IN CHOOSE s \in [1..n -> S] : {s[i] : i \in 1..n} = S
Scenario == [prop |-> "C09", sig |-> Sig, n1 |-> n1, n2 |-> N2, mesh |-> M, lim |-> lim, volfrac |-> volfrac,
             expect |-> IntegralCells(M, lim)]
Emit == pc = "done" => PrintT(ToJson(Scenario))
==========================================================================
