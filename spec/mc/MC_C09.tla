------------------------------ MODULE MC_C09 ------------------------------
EXTENDS Pestle, Json
Misaligned == \E l \in DOMAIN M : \E b \in DOMAIN M[l] : M[l][b].lo[1] % SetMin(Extents) # 0
Sig == <<Len(M), lim, volfrac, Extents, IF Misaligned THEN "misaligned" ELSE "aligned",
         IF \E l \in 1..(Len(M) - 1) : \E c \in LevelCells(M, l - 1) : ~CoveredByFiner(M, l - 1, c, Len(M) - 1) THEN "partial" ELSE "full">>
SetToSeq2(S) == LET n == Cardinality(S) IN CHOOSE s \in [1..n -> S] : {s[i] : i \in 1..n} = S
Scenario == [prop |-> "C09", sig |-> Sig, n1 |-> n1, n2 |-> N2, mesh |-> M, lim |-> lim, volfrac |-> volfrac,
             expect |-> IntegralCells(M, lim)]
Emit == pc = "done" => PrintT(ToJson(Scenario))
==========================================================================
