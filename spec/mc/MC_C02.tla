------------------------------ MODULE MC_C02 ------------------------------
(***************************************************************************)
(* C02: opening a plotfile exposes exactly the metadata its headers state. *)
(*                                                                         *)
(* The header contents themselves (floats, bounds, offsets) are tokens     *)
(* that gamma chooses and alpha re-reads; what the model decides is WHICH  *)
(* of them must be exposed: field keys (with the renaming of repeated      *)
(* names), how many levels of boxes / cell headers / min-max tables, for   *)
(* every level count, field list, limit and opening mode, and when the     *)
(* open must be refused.  Implementation layer = the constructor's steps.  *)
(***************************************************************************)
EXTENDS Naturals, Integers, Sequences, FiniteSets, TLC, Json

CONSTANTS Alphabet, MaxFields, MaxLev, MaxBox

VARIABLES names, nlev, nbs, limit, mode, pc, lvl, exposed, keys
vvars == <<names, nlev, nbs, limit, mode, pc, lvl, exposed, keys>>

\* field keys: requirement KeysOk (a relation) and the constructor's numbering loop ImplKeys, on rendered strings so that a
\* generated key can collide with a field really called "a_2" (the alphabet contains such names)
K == INSTANCE FieldKeys WITH Numbering <- "first-free"

NoLimit == 99
Modes == {"full", "maxmins", "header_only"}

Init ==
  /\ names \in UNION {[1..n -> Alphabet] : n \in 1..MaxFields}
  /\ nlev \in 1..MaxLev
  /\ nbs \in [1..MaxLev -> 1..MaxBox]
  /\ \A l \in 1..MaxLev : (l > nlev => nbs[l] = 1) /\ (l > 1 /\ l <= nlev => nbs[l] \in {1, MaxBox})
  /\ limit \in {NoLimit} \cup 0..nlev
  /\ mode \in Modes
  /\ pc = "header" /\ lvl = 0
  /\ exposed = [k |-> "none"] /\ keys = <<>>

(* ---- requirement ---- *)

MetaSpec(ns, nl, lim, md) ==
  IF lim # NoLimit /\ lim > nl - 1 THEN [k |-> "err"]
  ELSE LET L == IF lim = NoLimit THEN nl - 1 ELSE lim
       IN [k |-> "ok", nfields |-> Len(ns), finest |-> nl - 1, limit |-> L,
           box_levels |-> L + 1,
           cell_levels |-> IF md = "header_only" THEN 0 ELSE L + 1,
           mm_levels |-> IF md = "maxmins" THEN L + 1 ELSE 0]

(* ---- implementation-shaped steps of PlotfileCooker.__init__ ---- *)
ParseHeader ==
  /\ pc = "header"
  /\ keys' = K!ImplKeys(names)
  /\ exposed' = [k |-> "ok", nfields |-> K!DictSize(keys'),
                 finest |-> nlev - 1, limit |-> -1, box_levels |-> 0, cell_levels |-> 0, mm_levels |-> 0]
  /\ pc' = "limit"
  /\ UNCHANGED <<names, nlev, nbs, limit, mode, lvl>>

CheckLimit ==
  /\ pc = "limit"
  /\ IF limit = NoLimit THEN exposed' = [exposed EXCEPT !.limit = nlev - 1] /\ pc' = "boxes"
     ELSE IF limit <= nlev - 1 THEN exposed' = [exposed EXCEPT !.limit = limit] /\ pc' = "boxes"
     ELSE exposed' = [k |-> "err"] /\ pc' = "done"
  /\ lvl' = 0
  /\ UNCHANGED <<names, nlev, nbs, limit, mode, keys>>

ReadBoxes ==
  /\ pc = "boxes"
  /\ exposed' = [exposed EXCEPT !.box_levels = @ + 1]
  /\ IF lvl < exposed.limit THEN lvl' = lvl + 1 /\ pc' = "boxes"
     ELSE lvl' = 0 /\ pc' = (IF mode = "header_only" THEN "done" ELSE "cells")
  /\ UNCHANGED <<names, nlev, nbs, limit, mode, keys>>

ReadCellH ==
  /\ pc = "cells"
  /\ exposed' = [exposed EXCEPT !.cell_levels = @ + 1,
                                !.mm_levels = IF mode = "maxmins" THEN @ + 1 ELSE @]
  /\ IF lvl < exposed.limit THEN lvl' = lvl + 1 /\ pc' = "cells" ELSE lvl' = lvl /\ pc' = "done"
  /\ UNCHANGED <<names, nlev, nbs, limit, mode, keys>>

Next == ParseHeader \/ CheckLimit \/ ReadBoxes \/ ReadCellH
Spec == Init /\ [][Next]_vvars

MetaRefines == pc = "done" => /\ exposed = MetaSpec(names, nlev, limit, mode)
                              /\ (exposed.k = "ok" => K!KeysOk(names, keys))
\* header-only opening never touches a level header
HeaderOnlyNeedsNoLevels == mode = "header_only" => pc # "cells"

Sig == <<nlev, IF limit = NoLimit THEN "nolimit" ELSE IF limit > nlev - 1 THEN "above" ELSE IF limit = nlev - 1 THEN "finest" ELSE "lower",
         mode, IF \E i, j \in DOMAIN names : i # j /\ names[i] = names[j] THEN "repeats" ELSE "distinct",
         IF \E i, j \in DOMAIN names : i # j /\ names[i] # names[j] /\ names[i] \in {K!Render(names[j], k) : k \in 2..(Len(names) + 1)}
         THEN "generated-name-present" ELSE "plain">>
Scenario == [prop |-> "C02", sig |-> Sig, names |-> names, nlev |-> nlev, nbs |-> [l \in 1..nlev |-> nbs[l]],
             limit |-> limit, mode |-> mode, expect |-> MetaSpec(names, nlev, limit, mode)]
Emit == pc = "done" => PrintT(ToJson(Scenario))
==========================================================================
