------------------------------ MODULE MC_C02 ------------------------------
(***************************************************************************)
(* C02: opening a plotfile exposes exactly the metadata its headers state. *)
(*                                                                         *)
(* The header contents themselves (floats, bounds, offsets) are tokens     *)
(* that gamma chooses and alpha re-reads; what the model decides is WHICH  *)
(* of them must be exposed: field keys (with the renaming of repeated      *)
(* names), how many levels of boxes / cell headers / min-max tables, for   *)
(* every level count, field list, limit and opening mode, and when the     *)
(* open must be refused.  Implementation layer = the constructor's steps.  *)
(***************************************************************************)
EXTENDS Naturals, Integers, Sequences, FiniteSets, TLC, Json

CONSTANTS Alphabet, MaxFields, MaxLev, MaxBox

VARIABLES names, nlev, nbs, limit, mode, pc, lvl, exposed
vvars == <<names, nlev, nbs, limit, mode, pc, lvl, exposed>>

NoLimit == 99
Modes == {"full", "maxmins", "header_only"}

Init ==
  /\ names \in UNION {[1..n -> Alphabet] : n \in 1..MaxFields}
  /\ nlev \in 1..MaxLev
  /\ nbs \in [1..MaxLev -> 1..MaxBox]
  /\ \A l \in 1..MaxLev : (l > nlev => nbs[l] = 1) /\ (l > 1 /\ l <= nlev => nbs[l] \in {1, MaxBox})
  /\ limit \in {NoLimit} \cup 0..nlev
  /\ mode \in Modes
  /\ pc = "header" /\ lvl = 0
  /\ exposed = [k |-> "none"]

(* ---- requirement ---- *)
\* the i-th exposed key: the header name itself unless an earlier field already has it
RECURSIVE CountBefore(_, _, _)
CountBefore(s, i, x) == IF i = 0 THEN 0 ELSE (IF s[i] = x THEN 1 ELSE 0) + CountBefore(s, i - 1, x)
FieldSpec(ns) == [i \in DOMAIN ns |-> [name |-> ns[i], repeat |-> CountBefore(ns, i - 1, ns[i]) > 0]]

MetaSpec(ns, nl, lim, md) ==
  IF lim # NoLimit /\ lim > nl - 1 THEN [k |-> "err"]
  ELSE LET L == IF lim = NoLimit THEN nl - 1 ELSE lim
       IN [k |-> "ok", fields |-> FieldSpec(ns), finest |-> nl - 1, limit |-> L,
           box_levels |-> L + 1,
           cell_levels |-> IF md = "header_only" THEN 0 ELSE L + 1,
           mm_levels |-> IF md = "maxmins" THEN L + 1 ELSE 0]

(* ---- implementation-shaped steps of PlotfileCooker.__init__ ---- *)
\* python dict insertion with the _2, _3 .. renaming loop (a renamed key may itself collide)
RECURSIVE Keys(_, _)
Keys(ns, i) ==
  IF i = 0 THEN <<>>
  ELSE LET prev == Keys(ns, i - 1)
           taken == {prev[j].key : j \in DOMAIN prev}
       IN Append(prev, [key |-> IF <<ns[i], 1>> \notin taken THEN <<ns[i], 1>>
                                ELSE <<ns[i], CHOOSE n \in 2..(i + 1) : <<ns[i], n>> \notin taken
                                                       /\ \A m \in 2..(n - 1) : <<ns[i], m>> \in taken>>])

ParseHeader ==
  /\ pc = "header"
  /\ exposed' = [k |-> "ok",
                 fields |-> [i \in DOMAIN names |-> [name |-> names[i], repeat |-> Keys(names, Len(names))[i].key[2] > 1]],
                 finest |-> nlev - 1, limit |-> -1, box_levels |-> 0, cell_levels |-> 0, mm_levels |-> 0]
  /\ pc' = "limit"
  /\ UNCHANGED <<names, nlev, nbs, limit, mode, lvl>>

CheckLimit ==
  /\ pc = "limit"
  /\ IF limit = NoLimit THEN exposed' = [exposed EXCEPT !.limit = nlev - 1] /\ pc' = "boxes"
     ELSE IF limit <= nlev - 1 THEN exposed' = [exposed EXCEPT !.limit = limit] /\ pc' = "boxes"
     ELSE exposed' = [k |-> "err"] /\ pc' = "done"
  /\ lvl' = 0
  /\ UNCHANGED <<names, nlev, nbs, limit, mode>>

ReadBoxes ==
  /\ pc = "boxes"
  /\ exposed' = [exposed EXCEPT !.box_levels = @ + 1]
  /\ IF lvl < exposed.limit THEN lvl' = lvl + 1 /\ pc' = "boxes"
     ELSE lvl' = 0 /\ pc' = (IF mode = "header_only" THEN "done" ELSE "cells")
  /\ UNCHANGED <<names, nlev, nbs, limit, mode>>

ReadCellH ==
  /\ pc = "cells"
  /\ exposed' = [exposed EXCEPT !.cell_levels = @ + 1,
                                !.mm_levels = IF mode = "maxmins" THEN @ + 1 ELSE @]
  /\ IF lvl < exposed.limit THEN lvl' = lvl + 1 /\ pc' = "cells" ELSE lvl' = lvl /\ pc' = "done"
  /\ UNCHANGED <<names, nlev, nbs, limit, mode>>

Next == ParseHeader \/ CheckLimit \/ ReadBoxes \/ ReadCellH
Spec == Init /\ [][Next]_vvars

MetaRefines == pc = "done" => exposed = MetaSpec(names, nlev, limit, mode)
\* header-only opening never touches a level header
HeaderOnlyNeedsNoLevels == mode = "header_only" => pc # "cells"

Sig == <<nlev, IF limit = NoLimit THEN "nolimit" ELSE IF limit > nlev - 1 THEN "above" ELSE IF limit = nlev - 1 THEN "finest" ELSE "lower",
         mode, IF \E i, j \in DOMAIN names : i # j /\ names[i] = names[j] THEN "repeats" ELSE "distinct">>
Scenario == [prop |-> "C02", sig |-> Sig, names |-> names, nlev |-> nlev, nbs |-> [l \in 1..nlev |-> nbs[l]],
             limit |-> limit, mode |-> mode, expect |-> MetaSpec(names, nlev, limit, mode)]
Emit == pc = "done" => PrintT(ToJson(Scenario))
==========================================================================
