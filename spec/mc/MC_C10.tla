------------------------------ MODULE MC_C10 ------------------------------
EXTENDS Whip, Json
Sig == <<Len(M), lim, [l \in 1..Len(M) |-> <<Len(M[l]), nfiles[l]>>],
         IF \E i, j \in DOMAIN sched : i < j /\ sched[i] > sched[j] THEN "reordered-arrival" ELSE "fifo-arrival">>
Scenario == [prop |-> "C10", sig |-> Sig, n1 |-> N1, n2 |-> N2, mesh |-> M, nfiles |-> nfiles, lim |-> lim, sched |-> sched,
             expect |-> [i \in 0..(N1 * Pow2(lim) - 1) |-> [j \in 0..(N2 * Pow2(lim) - 1) |-> CoverSpec(M, lim, <<i, j>>)]]]
Emit == pc = "done" => PrintT(ToJson(Scenario))
==========================================================================
