------------------------------ MODULE MC_C12 ------------------------------
(***************************************************************************)
(* C12: results do not depend on worker count or task order.               *)
(* Every interleaving of Start / Finish / Deliver of one pool call with n  *)
(* tasks on W workers, for the three call kinds the tools use.  The parent *)
(* assembles what it is handed:                                            *)
(*   Gather = "by_task"    position k of the output comes from the k-th    *)
(*                         result handed over (map / imap hand results     *)
(*                         over in submission order)  -- what the tools do *)
(*   Gather = "by_arrival" position k comes from the k-th task to FINISH   *)
(*                         (mutant)                                        *)
(*   imap_unordered consumers must be position-free: they get a SET.       *)
(* Invariant: the assembled value is the same function of the inputs for   *)
(* every schedule.  Each distinct (start order, finish order) is emitted   *)
(* and imposed on the real tools.                                          *)
(***************************************************************************)
EXTENDS Pool, Json, TLC
CONSTANTS MaxN, MaxW, Gather
VARIABLES kind, n, w, call, starts, assembled, pc
vvars == <<kind, n, w, call, starts, assembled, pc>>

Init == /\ kind \in {"map", "imap", "imap_unordered"} /\ n \in 1..MaxN /\ w \in 1..MaxW
        /\ call = NewCall(kind, n) /\ starts = <<>> /\ assembled = <<>> /\ pc = "pool"

Start(k) == /\ pc = "pool" /\ CanStart(call, k, w) /\ call' = DoStart(call, k) /\ starts' = Append(starts, k)
            /\ UNCHANGED <<kind, n, w, assembled, pc>>
Finish(k) == /\ pc = "pool" /\ CanFinish(call, k) /\ call' = DoFinish(call, k)
             /\ UNCHANGED <<kind, n, w, starts, assembled, pc>>
Deliver(k) == /\ pc = "pool" /\ k \in Deliverable(call) /\ call' = DoDeliver(call, k)
              /\ assembled' = Append(assembled, IF Gather = "by_task" \/ kind = "imap_unordered" THEN <<"r", k>>
                                                ELSE <<"r", call.fin[Len(call.del) + 1]>>)
              /\ UNCHANGED <<kind, n, w, starts, pc>>
Done == /\ pc = "pool" /\ AllDelivered(call) /\ pc' = "done" /\ UNCHANGED <<kind, n, w, call, starts, assembled>>
Next == Done \/ \E k \in 1..MaxN : Start(k) \/ Finish(k) \/ Deliver(k)
Spec == Init /\ [][Next]_vvars /\ WF_vvars(Next)

ScheduleFree == pc = "done" =>
   IF kind = "imap_unordered" THEN {assembled[i] : i \in DOMAIN assembled} = {<<"r", k>> : k \in 1..n} /\ Len(assembled) = n
   ELSE assembled = [k \in 1..n |-> <<"r", k>>]
PoolOK == CallOK(call, w)
Terminates == <>(pc = "done")
Emit == pc = "done" => PrintT(ToJson([kind |-> kind, n |-> n, w |-> w, starts |-> starts, fin |-> call.fin]))
==========================================================================
