------------------------------ MODULE MC_C05 ------------------------------
EXTENDS Colander, Json

DiskOf(L) == [f \in DOMAIN L.files |-> [j \in DOMAIN L.files[f] |-> L.files[f][j].idx]]
FileOf(L) == [b \in DOMAIN L.idx |-> L.fod[b].file]

PosSetV == {PosIn(Names, vars[i]) : i \in DOMAIN vars}
BlockUnordered == /\ Len(vars) >= 3 /\ Len(vars) < Len(Names)
                  /\ (CHOOSE x \in PosSetV : \A y \in PosSetV : x >= y) - (CHOOSE x \in PosSetV : \A y \in PosSetV : x <= y) + 1 = Len(vars)
                  /\ \E i, j \in DOMAIN vars : i < j /\ PosIn(Names, vars[i]) > PosIn(Names, vars[j])
VarClass == IF vars = <<"all">> THEN "all"
            ELSE IF \E i \in DOMAIN vars : vars[i] \notin Rng(Names) THEN "unknown"
            ELSE IF BlockUnordered THEN "block-out-of-order"
            ELSE IF \E i, j \in DOMAIN vars : i < j /\ PosIn(Names, vars[i]) > PosIn(Names, vars[j])
                 THEN (IF Len(vars) = Len(Names) THEN "permutation-of-every" ELSE "reordered")
            ELSE IF Len(vars) = Len(Names) THEN "every" ELSE "subset"

LayClass(L) == <<Cardinality(FilesUsed(L)),
                 IF \E f \in DOMAIN L.files : \E i, j \in DOMAIN L.files[f] :
                        i < j /\ L.files[f][i].idx > L.files[f][j].idx THEN "nonmono" ELSE "mono">>

Sig == <<Len(inp.lev), lim, VarClass, [l \in DOMAIN inp.lev |-> LayClass(inp.lev[l])],
         IF \E i, j \in DOMAIN sched : i < j /\ sched[i] > sched[j] THEN "reordered-finish" ELSE "fifo-finish">>

Scenario ==
  [prop |-> "C05", sig |-> Sig,
   fields |-> inp.fields,
   levels |-> [l \in DOMAIN inp.lev |-> [cells |-> cells[l], file |-> FileOf(inp.lev[l]),
                                         disk |-> DiskOf(inp.lev[l])]],
   vars |-> vars, lim |-> lim, sched |-> sched,
   expect |-> StrainSpec(Content(inp), vars, lim)]

Emit == pc = "done" => PrintT(ToJson(Scenario))
==========================================================================
