------------------------------ MODULE MC_C11 ------------------------------
EXTENDS Chef, Json
DiskOf(L) == [f \in DOMAIN L.files |-> [j \in DOMAIN L.files[f] |-> L.files[f][j].idx]]
FileOf(L) == [b \in DOMAIN L.idx |-> L.fod[b].file]
LayClass(L) == <<Cardinality(FilesUsed(L)),
                 IF \E f \in DOMAIN L.files : \E i, j \in DOMAIN L.files[f] :
                        i < j /\ L.files[f][i].idx > L.files[f][j].idx THEN "nonmono" ELSE "mono">>
PosSetK == {PosIn(Names, kept[i]) : i \in DOMAIN kept}
BlockUnorderedK == /\ Len(kept) >= 3 /\ Len(kept) < Len(Names) /\ \A i \in DOMAIN kept : kept[i] \in Rng(Names)
                   /\ (CHOOSE x \in PosSetK : \A y \in PosSetK : x >= y) - (CHOOSE x \in PosSetK : \A y \in PosSetK : x <= y) + 1 = Len(kept)
                   /\ \E i, j \in DOMAIN kept : i < j /\ PosIn(Names, kept[i]) > PosIn(Names, kept[j])
KeptClass == IF kept = <<>> THEN "none" ELSE IF BlockUnorderedK THEN "block-out-of-order" ELSE IF kept = Names THEN "every" ELSE IF Len(kept) = Len(Names) THEN "every-reversed" ELSE IF \E i \in DOMAIN kept : kept[i] = "zz" THEN "with-unknown"
             ELSE IF Len(kept) = 2 /\ PosIn(Names, kept[1]) > PosIn(Names, kept[2]) THEN "reordered" ELSE "names"
Sig == <<Len(inp.lev), nnew, KeptClass, serial, [l \in DOMAIN inp.lev |-> LayClass(inp.lev[l])],
         IF \E i, j \in DOMAIN sched : i < j /\ sched[i] > sched[j] THEN "reordered-finish" ELSE "fifo-finish">>
S == CookSpec(Content(inp), nnew, kept)
Scenario == [prop |-> "C11", sig |-> Sig, fields |-> inp.fields,
             levels |-> [l \in DOMAIN inp.lev |-> [cells |-> cells[l], file |-> FileOf(inp.lev[l]), disk |-> DiskOf(inp.lev[l])]],
             nnew |-> nnew, kept |-> kept, serial |-> serial, sched |-> sched,
             expect |-> [names |-> S.names, lev |-> S.lev]]
Emit == pc = "done" => PrintT(ToJson(Scenario))
==========================================================================
