------------------------------ MODULE MC_Refine ------------------------------
(* every ratio list over {2, 4} up to MaxJumps level jumps x level-0 size x level limit x query level:                       *)
(* the validator accepts the (well-formed) hierarchy, and every cell centre of the query level converts to its own cell.    *)
(* Each (ratios, n0, limit, query level) is emitted for replay against the real validator, reader and point query.          *)
EXTENDS Refine, Json

CONSTANTS MaxJumps, N0s
VARIABLES rs, n0, lim, ql, pc, accepted
vvars == <<rs, n0, lim, ql, pc, accepted>>

Init == /\ rs \in UNION {[1..n -> RatioSet] : n \in 0..MaxJumps}
        /\ n0 \in N0s
        /\ lim \in 0..Len(rs)
        /\ ql \in 0..Len(rs)
        /\ pc = "validate" /\ accepted = FALSE
Validate == /\ pc = "validate"
            /\ accepted' = ValidatorAccepts(rs, StatedDx(rs), lim)
            /\ pc' = "query" /\ UNCHANGED <<rs, n0, lim, ql>>
Query == /\ pc = "query" /\ pc' = "done" /\ UNCHANGED <<rs, n0, lim, ql, accepted>>
Next == Validate \/ Query
Spec == Init /\ [][Next]_vvars

HeaderWellFormed == HierarchyOk(rs, StatedDx(rs), StatedDom(rs, n0))
AcceptsWellFormed == pc # "validate" => accepted
PointIndexRight ==
  pc = "done" => \A c \in 0..(StatedDom(rs, n0)[ql + 1] - 1) :
                    ImplCell(rs, StatedDx(rs), ql, Centre2(StatedDx(rs), ql, c)) = c
Mixed == \E i, j \in DOMAIN rs : rs[i] # rs[j]
Sig == <<Len(rs) + 1, IF Mixed THEN "mixed" ELSE IF \E i \in DOMAIN rs : rs[i] = 4 THEN "all-4" ELSE "all-2",
         IF lim = Len(rs) THEN "finest" ELSE "limited", ql>>
Scenario == [prop |-> "Refine", sig |-> Sig, ratios |-> rs, n0 |-> n0, lim |-> lim, ql |-> ql]
Emit == pc = "done" => PrintT(ToJson(Scenario))
=============================================================================
