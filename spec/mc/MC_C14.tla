------------------------------ MODULE MC_C14 ------------------------------
EXTENDS Kitchen, Json
OpKinds == [i \in DOMAIN hist |-> hist[i].op]
ArgClass(h) == IF h.op = "colander" THEN <<IF h.vars = <<"all">> THEN "all" ELSE IF Len(h.vars) = 1 THEN "one" ELSE "reordered",
                                           IF h.L = 0 THEN "L0" ELSE "Lfinest">>
               ELSE IF h.op = "combine" THEN <<IF h.src2 \in {"A", "B"} THEN "with-generated" ELSE "with-derived">>
               ELSE <<IF h.kept = <<>> THEN "no-kept" ELSE IF Len(h.kept) = 1 THEN "kept-one" ELSE "kept-all">>
Sig == [i \in DOMAIN hist |-> <<hist[i].op, ArgClass(hist[i]), IF hist[i].src \in {"A", "B"} THEN "from-generated" ELSE IF hist[i].src = "K" THEN "from-chk2plt" ELSE "from-derived">>]
Scenario == [prop |-> "C14", sig |-> Sig, hist |-> hist,
             expect |-> [i \in DOMAIN hist |-> disk[hist[i].out]]]
Emit == Len(hist) = MaxOps => PrintT(ToJson(Scenario))
==========================================================================
