------------------------------ MODULE MC_C19 ------------------------------
EXTENDS Point, Json
Sig == <<Len(M), IF outside THEN "outside" ELSE "inside", qlev, IF origin = 0 THEN "origin0" ELSE IF origin > 0 THEN "origin+" ELSE "origin-">>
Scenario == [prop |-> "C19", sig |-> Sig, n1 |-> N1, n2 |-> N2, mesh |-> M, origin |-> origin, qlev |-> qlev, qcell |-> qcell,
             outside |-> outside, expect |-> IF outside THEN <<"err">> ELSE <<"cell", qlev, qcell>>]
Emit == pc = "done" => PrintT(ToJson(Scenario))
==========================================================================
