------------------------------ MODULE MC_C19 ------------------------------
EXTENDS Point, Json
Sig == <<Len(M), IF outside THEN "outside" ELSE "inside", [i \in DOMAIN asked |-> asked[i].lev],
         IF origin = 0 THEN "origin0" ELSE IF origin > 0 THEN "origin+" ELSE "origin-">>
Scenario == [prop |-> "C19", sig |-> Sig, n1 |-> N1, n2 |-> N2, mesh |-> M, origin |-> origin, asked |-> asked,
             outside |-> outside, expect |-> [i \in DOMAIN asked |-> IF asked[i].outside THEN <<"err">> ELSE <<"cell", asked[i].lev, asked[i].cell>>]]
Emit == pc = "done" => PrintT(ToJson(Scenario))
==========================================================================
