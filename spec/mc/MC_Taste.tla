------------------------------ MODULE MC_Taste ------------------------------
(***************************************************************************)
(* Model instance for C03 / C04 / C20: base plotfiles x corruptions (0, 1  *)
(* or 2, every kind at every site) x options x limit x mode, then the      *)
(* validator's steps.                                                      *)
(***************************************************************************)
EXTENDS Taste, Json

CONSTANTS OptMode,          \* "all16": every option set (used with MaxCorrupt = 0); "default": default (+coords variant)
          DataCheckBroken   \* TRUE: the present code: data check with headers/shape off dies on an undefined name

VARIABLES plt, base, cl, applied, opts, lim, nofail, pc, lvl, verdict, raised
vvars == <<plt, base, cl, applied, opts, lim, nofail, pc, lvl, verdict, raised>>

PlainLay == [file |-> <<1>>, disk |-> (1 :> <<1>>)]
DefaultOpts == [hdr |-> TRUE, shape |-> TRUE, data |-> FALSE, coords |-> FALSE]
AllOpts == [hdr : BOOLEAN, shape : BOOLEAN, data : BOOLEAN, coords : BOOLEAN]

Init ==
  /\ \E nb \in 1..MaxBox : \E lay \in Layouts(nb) : \E nlev \in 1..2 : \E c \in 1..nlev :
        /\ base = [lay |-> lay, nlev |-> nlev]
        /\ cl = c
        /\ plt = [l \in 1..nlev |-> IF l = c THEN BaseLevel(lay) ELSE BaseLevel(PlainLay)]
        /\ lim \in 0..(nlev - 1)
  /\ applied = <<>>
  /\ opts \in (IF OptMode = "all16" THEN AllOpts
               ELSE {DefaultOpts, [DefaultOpts EXCEPT !.coords = TRUE]})
  /\ nofail \in BOOLEAN
  /\ pc = "idle" /\ lvl = 0 /\ verdict = "none" /\ raised = FALSE

-----------------------------------------------------------------------------
(* Environment: corruptions of the level `cl`, only while the validator is idle *)
Lc == plt[cl]
Units(f) == Lc.files[f]
HPos(f) == {p \in 0..(Len(Units(f)) - 1) : Units(f)[p + 1].k = "H"}
CutAt(s, p, u) == SubSeq(s, 1, p) \o SubSeq(s, p + u + 1, Len(s))
PutAt(s, p, x) == SubSeq(s, 1, p) \o x \o SubSeq(s, p + 1, Len(s))
ExistingFiles == DOMAIN Lc.files \ Lc.gone
IdxChoices(cur) == (1..Len(base.lay.file) \cup ForeignIdx) \ {cur}

Apply(c) ==
  LET setFile(f, u) == [plt EXCEPT ![cl].files[f] = u]
  IN CASE c.k = "DeleteFile"  -> [plt EXCEPT ![cl].gone = @ \cup {c.f}]
       [] c.k = "Truncate"    -> setFile(c.f, SubSeq(Units(c.f), 1, Len(Units(c.f)) - c.u))
       [] c.k = "Extend"      -> setFile(c.f, Units(c.f) \o Rep(D, c.u))
       [] c.k = "InsertData"  -> setFile(c.f, PutAt(Units(c.f), c.pos, Rep(D, c.u)))
       [] c.k = "RemoveData"  -> setFile(c.f, CutAt(Units(c.f), c.pos, c.u))
       [] c.k = "FabIdx"      -> [plt EXCEPT ![cl].files[c.f][c.pos + 1].idx = c.idx]
       [] c.k = "FabNComp"    -> [plt EXCEPT ![cl].files[c.f][c.pos + 1].nc = @ + c.d]
       [] c.k = "FabBlanks"   -> [plt EXCEPT ![cl].files[c.f][c.pos + 1].canon = FALSE]
       [] c.k = "HeadCut"     -> [plt EXCEPT ![cl].files[c.f][c.pos + 1] = [@ EXCEPT !.canon = FALSE, !.sh = -1]]
       [] c.k = "HeadPad"     -> [plt EXCEPT ![cl].files[c.f][c.pos + 1] = [@ EXCEPT !.canon = FALSE, !.sh = 1]]
       [] c.k = "DataShift"   -> [plt EXCEPT ![cl].files[c.f][c.pos + 1] = [@ EXCEPT !.canon = FALSE, !.mv = 1]]
       [] c.k = "CellHIdx"    -> [plt EXCEPT ![cl].boxlines[c.b].idx = c.idx]
       [] c.k = "DropBoxLine" -> [plt EXCEPT ![cl].boxlines = CutAt(@, c.b - 1, 1)]
       [] c.k = "DropFodLine" -> [plt EXCEPT ![cl].fodlines = CutAt(@, c.b - 1, 1)]
       [] c.k = "GarbleBox"   -> [plt EXCEPT ![cl].boxlines[c.b] = [k |-> "garbled"]]
       [] c.k = "GarbleFod"   -> [plt EXCEPT ![cl].fodlines[c.b] = [k |-> "garbled"]]
       [] c.k = "NFieldsLine" -> [plt EXCEPT ![cl].nfline = NF + 1]
       [] c.k = "FodFile"     -> [plt EXCEPT ![cl].fodlines[c.b].file = c.f]
       [] c.k = "FodOffset"   -> [plt EXCEPT ![cl].fodlines[c.b].off = c.off]
       [] c.k = "FodEarly"    -> [plt EXCEPT ![cl].fodlines[c.b].early = TRUE]
       [] c.k = "BoxBound"    -> [plt EXCEPT ![cl].bounds_ok[c.b] = FALSE]

GoodBoxLines == {b \in DOMAIN Lc.boxlines : Lc.boxlines[b].k = "box"}
GoodFodLines == {b \in DOMAIN Lc.fodlines : Lc.fodlines[b].k = "fod"}

Candidates ==
  LET K(k) == k \in Kinds IN
     (IF K("DeleteFile") THEN {[k |-> "DeleteFile", f |-> f] : f \in ExistingFiles} ELSE {})
  \cup (IF K("Truncate") THEN UNION {{[k |-> "Truncate", f |-> f, u |-> u] : u \in {u \in {1, 2, 3} : u <= Len(Units(f))}} : f \in ExistingFiles} ELSE {})
  \cup (IF K("Extend") THEN {[k |-> "Extend", f |-> f, u |-> u] : f \in ExistingFiles, u \in {1, 3}} ELSE {})
  \cup (IF K("InsertData") THEN UNION {{[k |-> "InsertData", f |-> f, pos |-> p, u |-> u] : p \in 0..Len(Units(f)), u \in {1, 2}} : f \in ExistingFiles} ELSE {})
  \cup (IF K("RemoveData") THEN UNION {{[k |-> "RemoveData", f |-> f, pos |-> p, u |-> u] :
                                           p \in {p \in 0..(Len(Units(f)) - 1) : Units(f)[p + 1].k = "D"},
                                           u \in {1, 2}} : f \in ExistingFiles} ELSE {})
  \cup (IF K("FabIdx") THEN UNION {UNION {{[k |-> "FabIdx", f |-> f, pos |-> p, idx |-> i] : i \in IdxChoices(Units(f)[p + 1].idx)}
                                      : p \in HPos(f)} : f \in ExistingFiles} ELSE {})
  \cup (IF K("FabNComp") THEN UNION {{[k |-> "FabNComp", f |-> f, pos |-> p, d |-> d] : p \in HPos(f), d \in {-1, 1}} : f \in ExistingFiles} ELSE {})
  \cup (IF K("FabBlanks") THEN UNION {{[k |-> "FabBlanks", f |-> f, pos |-> p] : p \in {p \in HPos(f) : Units(f)[p + 1].canon}} : f \in ExistingFiles} ELSE {})
  \* a few bytes cut from the start of a FAB header line (any header), or ASCII bytes put in front of it (last header of a
  \* file only: what a seek lands on in front of a later header would be payload bytes the model does not interpret)
  \cup (IF K("HeadCut") THEN UNION {{[k |-> "HeadCut", f |-> f, pos |-> p] : p \in {p \in HPos(f) : Units(f)[p + 1].sh = 0}} : f \in ExistingFiles} ELSE {})
  \cup (IF K("HeadPad") THEN UNION {{[k |-> "HeadPad", f |-> f, pos |-> p] :
                                        p \in {p \in HPos(f) : Units(f)[p + 1].sh = 0 /\ \A q \in HPos(f) : q <= p}} : f \in ExistingFiles} ELSE {})
  \* a few payload values moved from the end of one FAB into the FAB behind it (a removal and an insertion of less than a
  \* header's length that cancel): only that FAB's header leaves its recorded position, the file keeps its length
  \cup (IF K("DataShift") THEN UNION {{[k |-> "DataShift", f |-> f, pos |-> p] :
                                          p \in {p \in HPos(f) : /\ p > 0 /\ Units(f)[p].k = "D" /\ p + 1 < Len(Units(f)) /\ Units(f)[p + 2].k = "D"
                                                                  /\ \A q \in HPos(f) : Units(f)[q + 1].sh = 0 /\ Units(f)[q + 1].mv = 0}} : f \in ExistingFiles} ELSE {})
  \cup (IF K("CellHIdx") THEN UNION {{[k |-> "CellHIdx", b |-> b, idx |-> i] : i \in IdxChoices(Lc.boxlines[b].idx)} : b \in GoodBoxLines} ELSE {})
  \cup (IF K("DropBoxLine") THEN {[k |-> "DropBoxLine", b |-> b] : b \in DOMAIN Lc.boxlines} ELSE {})
  \cup (IF K("DropFodLine") THEN {[k |-> "DropFodLine", b |-> b] : b \in DOMAIN Lc.fodlines} ELSE {})
  \cup (IF K("GarbleBox") THEN {[k |-> "GarbleBox", b |-> b] : b \in GoodBoxLines} ELSE {})
  \cup (IF K("GarbleFod") THEN {[k |-> "GarbleFod", b |-> b] : b \in GoodFodLines} ELSE {})
  \cup (IF K("NFieldsLine") /\ Lc.nfline = NF THEN {[k |-> "NFieldsLine"]} ELSE {})
  \cup (IF K("FodFile") THEN UNION {{[k |-> "FodFile", b |-> b, f |-> f] : f \in (1..(MaxFile + 1)) \ {Lc.fodlines[b].file}} : b \in GoodFodLines} ELSE {})
  \cup (IF K("FodOffset") THEN UNION {{[k |-> "FodOffset", b |-> b, off |-> o] :
                                          o \in (0..(IF Lc.fodlines[b].file \in ExistingFiles THEN Len(Units(Lc.fodlines[b].file)) + 1 ELSE 1))
                                                \ {Lc.fodlines[b].off}} : b \in GoodFodLines} ELSE {})
  \* a recorded position a few bytes before the header of a FAB that is not the first of its file, where the preceding payload
  \* bytes read as text (not combined with displaced headers in the same file)
  \cup (IF K("FodEarly") THEN {[k |-> "FodEarly", b |-> b] :
                                 b \in {b \in GoodFodLines : /\ ~Lc.fodlines[b].early /\ Lc.fodlines[b].file \in ExistingFiles
                                                             /\ Lc.fodlines[b].off > 0 /\ Lc.fodlines[b].off < Len(Units(Lc.fodlines[b].file))
                                                             /\ Units(Lc.fodlines[b].file)[Lc.fodlines[b].off + 1].k = "H"
                                                             /\ Units(Lc.fodlines[b].file)[Lc.fodlines[b].off].k = "D"
                                                             /\ \A q \in HPos(Lc.fodlines[b].file) : Units(Lc.fodlines[b].file)[q + 1].sh = 0 /\ Units(Lc.fodlines[b].file)[q + 1].mv = 0}} ELSE {})
  \cup (IF K("BoxBound") THEN {[k |-> "BoxBound", b |-> b] : b \in {b \in DOMAIN Lc.bounds_ok : Lc.bounds_ok[b]}} ELSE {})

Corrupt ==
  /\ pc = "idle" /\ Len(applied) < MaxCorrupt
  /\ \E c \in Candidates :
        \* RemoveData must stay inside payload
        /\ (c.k = "RemoveData" => c.pos + c.u <= Len(Units(c.f)) /\ \A q \in c.pos..(c.pos + c.u - 1) : Units(c.f)[q + 1].k = "D")
        /\ (c.k = "FabNComp" => Units(c.f)[c.pos + 1].nc + c.d >= 1)
        /\ (c.k \in {"HeadCut", "HeadPad", "DataShift"} => \A b \in GoodFodLines : Lc.fodlines[b].file = c.f => ~Lc.fodlines[b].early)
        /\ (c.k \in {"HeadCut", "HeadPad"} => \A q \in HPos(c.f) : Units(c.f)[q + 1].mv = 0)
        /\ plt' = Apply(c)
        /\ applied' = Append(applied, c)
  /\ UNCHANGED <<base, cl, opts, lim, nofail, pc, lvl, verdict, raised>>

-----------------------------------------------------------------------------
(* The validator *)
\* generic per-level step: run `res` for level lvl, then go to the next level or to `after`
LevelStep(name, res, after) ==
  /\ pc = name
  /\ LET r == res IN
     IF r = "ok"
     THEN /\ UNCHANGED <<verdict, raised>>
          /\ IF lvl < lim THEN lvl' = lvl + 1 /\ pc' = name ELSE lvl' = 0 /\ pc' = after
     ELSE /\ verdict' = "bad"
          /\ IF ~nofail THEN raised' = TRUE /\ pc' = "done" /\ lvl' = lvl
             ELSE /\ raised' = FALSE
                  /\ IF r = "exception" THEN pc' = "done" /\ lvl' = lvl
                     ELSE IF lvl < lim THEN lvl' = lvl + 1 /\ pc' = name ELSE lvl' = 0 /\ pc' = after
  /\ UNCHANGED <<plt, base, cl, applied, opts, lim, nofail>>

Begin == /\ pc = "idle" /\ pc' = "parse" /\ lvl' = 0
         /\ UNCHANGED <<plt, base, cl, applied, opts, lim, nofail, verdict, raised>>

AfterStructure == IF opts.coords THEN "coords" ELSE IF opts.hdr THEN "headers" ELSE IF opts.shape THEN "shape" ELSE "data"
AfterCoords == IF opts.hdr THEN "headers" ELSE IF opts.shape THEN "shape" ELSE "data"
AfterHeaders == IF opts.shape THEN "shape" ELSE "data"

Parse     == LevelStep("parse", ImplParseCellH(plt[lvl + 1]), "structure")
Structure == LevelStep("structure", ImplStructure(plt[lvl + 1]), AfterStructure)
Coords    == LevelStep("coords", ImplCoords(plt[lvl + 1]), AfterCoords)
Headers   == LevelStep("headers", ImplHeaders(plt[lvl + 1]), AfterHeaders)
Shape     == LevelStep("shape", ImplShape(plt[lvl + 1]), "data")
Data ==
  /\ pc = "data"
  /\ IF DataCheckBroken /\ opts.data /\ (~opts.hdr \/ ~opts.shape)
     THEN verdict' = "bad" /\ raised' = ~nofail          \* NameError, caught by the constructor
     ELSE UNCHANGED <<verdict, raised>>
  /\ pc' = "done"
  /\ UNCHANGED <<plt, base, cl, applied, opts, lim, nofail, lvl>>

Validate == Begin \/ Parse \/ Structure \/ Coords \/ Headers \/ Shape \/ Data
Next == Corrupt \/ Validate
Spec == Init /\ [][Next]_vvars /\ WF_vvars(Validate)

-----------------------------------------------------------------------------
Verdict == IF verdict = "none" THEN "good" ELSE verdict
KnownBrokenOpts == DataCheckBroken /\ opts.data /\ (~opts.hdr \/ ~opts.shape)

\* C03
AcceptsWellFormed == (pc = "done" /\ applied = <<>> /\ ~KnownBrokenOpts) => (Verdict = "good" /\ ~raised)
\* C04 (default options; with coords the bounds count too)
RejectsDamaged == (pc = "done" /\ opts.hdr /\ opts.shape /\ ~opts.data
                   /\ (Damaged(plt, lim) \/ (opts.coords /\ BoundsDamaged(plt, lim))))
                  => (Verdict = "bad" /\ (raised <=> ~nofail))
\* C20
AcceptedIsReadable == (pc = "done" /\ Verdict = "good" /\ opts = DefaultOpts) => ReadConsistent(plt, lim)
\* the validator never modifies the plotfile; never raises in non-failing mode
NeverRaisesNoFail == nofail => ~raised
ValidatorReadOnly == [][pc # "idle" => plt' = plt]_vvars
Terminates == <>(pc = "done")

-----------------------------------------------------------------------------
KindsApplied == [i \in DOMAIN applied |-> applied[i].k]
Sig == <<KindsApplied, IF cl - 1 > lim THEN "above-limit" ELSE "validated-level",
         Len(base.lay.file), Cardinality(Rng(base.lay.file)), opts, nofail>>
Scenario ==
  [prop |-> "Taste", sig |-> Sig, lay |-> base.lay, nlev |-> base.nlev, cl |-> cl, applied |-> applied,
   opts |-> opts, lim |-> lim, nofail |-> nofail,
   state |-> [nfline |-> plt[cl].nfline, cnt1 |-> plt[cl].cnt1, cnt2 |-> plt[cl].cnt2,
              boxlines |-> plt[cl].boxlines, fodlines |-> plt[cl].fodlines,
              bounds_ok |-> plt[cl].bounds_ok, gone |-> plt[cl].gone,
              files |-> [f \in DOMAIN plt[cl].files |->
                           [i \in DOMAIN plt[cl].files[f] |->
                              IF plt[cl].files[f][i].k = "H"
                              THEN <<plt[cl].files[f][i].idx, plt[cl].files[f][i].nc, plt[cl].files[f][i].canon, plt[cl].files[f][i].sh, plt[cl].files[f][i].mv>>
                              ELSE 0]]],
   fragile |-> IF ~Damaged(plt, lim) THEN {} ELSE
               (IF \A l \in 1..(lim + 1) : LevelGoodWith(plt[l], FALSE, TRUE, TRUE) THEN {"first-header"} ELSE {}) \cup
               (IF \A l \in 1..(lim + 1) : LevelGoodWith(plt[l], TRUE, FALSE, TRUE) THEN {"offset-sort"} ELSE {}) \cup
               (IF \A l \in 1..(lim + 1) : LevelGoodWith(plt[l], TRUE, TRUE, FALSE) THEN {"eof-rule"} ELSE {}),
   expect |-> [wellformed |-> applied = <<>>,
               damaged |-> Damaged(plt, lim),
               bounds_damaged |-> BoundsDamaged(plt, lim),
               readable |-> ReadConsistent(plt, lim),
               model_verdict |-> Verdict, model_raised |-> raised]]
Emit == pc = "done" => PrintT(ToJson(Scenario))
=============================================================================
