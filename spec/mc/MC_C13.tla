------------------------------ MODULE MC_C13 ------------------------------
(***************************************************************************)
(* Design-level check of C13: (1) the default-output rules are beside,     *)
(* never inside, the input for every invocation form (DefaultBeside);      *)
(* (2) a tool whose write script is interrupted by a fault at ANY write    *)
(* point reports it: scripts are the abstract write sequences of the       *)
(* tools; PropagateFault = TRUE models code that lets the OSError travel   *)
(* to the caller, FALSE a swallowed error (mutant).                        *)
(***************************************************************************)
EXTENDS FsIO
CONSTANTS PropagateFault, OutRoot      \* OutRoot: "out" | "in1" (mutant: a tool that writes into its input)
VARIABLES tool, step

Scripts == [
  colander |-> <<<<"mut", <<"d">>>>, <<"mut", <<"d", "L0">>>>, <<"wp", <<"d", "L0", "Cell_D">>>>, <<"wp", <<"d", "L0", "Cell_D">>>>,
                 <<"wp", <<"d", "L0", "Cell_D">>>>, <<"wp", <<"d", "L0", "Cell_H">>>>, <<"wp", <<"d", "L0", "Cell_H">>>>,
                 <<"wp", <<"d", "Header">>>>, <<"wp", <<"d", "Header">>>>>>,
  combine  |-> <<<<"mut", <<"d">>>>, <<"mut", <<"d", "L0">>>>, <<"wp", <<"d", "Header">>>>, <<"wp", <<"d", "Header">>>>,
                 <<"wp", <<"d", "L0", "Cell_D">>>>, <<"wp", <<"d", "L0", "Cell_D">>>>, <<"wp", <<"d", "L0", "Cell_H">>>>>>,
  mandoline |-> <<<<"mut", <<"d">>>>, <<"wp", <<"d", "Header">>>>, <<"mut", <<"d", "L0">>>>, <<"wp", <<"d", "L0", "Cell_D">>>>,
                  <<"wp", <<"d", "L0", "Cell_H">>>>>>,
  marinate |-> <<<<"wp", <<"d.pkl">>>>, <<"wp", <<"d.pkl">>>>>>,
  taste    |-> <<>>]
Tools == DOMAIN Scripts

Init == /\ tool \in Tools /\ step = 1 /\ \E k \in 0..10 : FsInit(k) /\ k <= Len(Scripts[tool])

Do ==
  /\ pc = "running" /\ step <= Len(Scripts[tool]) /\ ~(faulted /\ PropagateFault)
  /\ LET e == Scripts[tool][step] IN
     IF e[1] = "mut" THEN Mutate(OutRoot, e[2]) ELSE WritePoint(OutRoot, e[2])
  /\ step' = step + 1 /\ UNCHANGED tool
Finish ==
  /\ pc = "running"
  /\ \/ (faulted /\ PropagateFault /\ Return("exc", TRUE))
     \/ (step > Len(Scripts[tool]) /\ ~(faulted /\ PropagateFault) /\ Return("ok", TRUE))
  /\ UNCHANGED <<tool, step>>
Next == Do \/ Finish
Spec == Init /\ [][Next]_<<fvars, tool, step>> /\ WF_<<fvars, tool, step>>(Next)
Terminates == <>(pc = "returned")
==========================================================================
