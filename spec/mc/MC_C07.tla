------------------------------ MODULE MC_C07 ------------------------------
EXTENDS Mandoline, Json
CONSTANTS EmitMod, EmitRes      \* emit only the scenarios whose cheap hash is EmitRes modulo EmitMod
RECURSIVE SumSeqN(_)
SumSeqN(q) == IF q = <<>> THEN 0 ELSE Head(q) + SumSeqN(Tail(q))
BoxSum(bx) == bx.lo[1] + 3 * bx.lo[2] + 5 * bx.hi[1] + 7 * bx.hi[2]
Hash == (pos * 3 + lim * 11 + SumSeqN([l \in DOMAIN M |-> SumSeqN([b \in DOMAIN M[l] |-> BoxSum(M[l][b])])])) % EmitMod
\* scenario class from the input only: per level the slice_box case of the boxes met, gap kind, domain-face flags
CaseOf(l, b) == LET lo == M[l + 1][b].lo[1]
                    hi == M[l + 1][b].hi[1]
                IN IF pos > Centre(l, hi) THEN (IF hi = NCells(l) - 1 THEN "beyond-last-centre-of-domain" ELSE "gap-after-last-centre")
                   ELSE IF pos < Centre(l, lo) THEN (IF lo = 0 THEN "before-first-centre-of-domain" ELSE "gap-before-first-centre")
                   ELSE IF \E i \in lo..hi : Centre(l, i) = pos THEN "on-centre" ELSE "between-centres"
CrossedSet(l) == {b \in DOMAIN M[l + 1] : MeetsPlane(l, b)}
NeighbourSet(l) == {b \in DOMAIN M[l + 1] : ~MeetsPlane(l, b) /\ 2 * U(l) * M[l + 1][b].lo[1] - U(l) <= 2 * pos
                                                /\ 2 * pos <= 2 * U(l) * (M[l + 1][b].hi[1] + 1) + U(l)}
\* a half-cell neighbour whose in-plane footprint is not contained in that of a crossed box it faces
Overhang(l) == \E n \in NeighbourSet(l) : \E c \in CrossedSet(l) :
                  /\ ~(M[l + 1][n].hi[2] < M[l + 1][c].lo[2] \/ M[l + 1][c].hi[2] < M[l + 1][n].lo[2])
                  /\ (M[l + 1][n].lo[2] < M[l + 1][c].lo[2] \/ M[l + 1][n].hi[2] > M[l + 1][c].hi[2])
LevelClass(l) == <<{CaseOf(l, b) : b \in CrossedSet(l)}, Cardinality(CrossedSet(l)), Cardinality(NeighbourSet(l)),
                   IF Overhang(l) THEN "overhang" ELSE "flush">>
Sig == <<Len(M), lim, IF InDomain THEN "in" ELSE "out", [l \in 0..lim |-> LevelClass(l)]>>
Scenario == [prop |-> "C07", sig |-> Sig, n0 |-> N0, t0 |-> T0, mesh |-> M, pos |-> pos, lim |-> lim, unit |-> U(0),
             expect |-> IF ~InDomain THEN <<"err">>
                        ELSE [t \in Pix |-> [acc |-> Acceptable(t), glev |-> GridLevels(t)]]]
Emit == (pc = "done" /\ Hash = EmitRes) => PrintT(ToJson(Scenario))
==========================================================================
