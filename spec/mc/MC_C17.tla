------------------------------ MODULE MC_C17 ------------------------------
EXTENDS Chk2plt, Json
DiskOf(L) == [f \in DOMAIN L.files |-> [j \in DOMAIN L.files[f] |-> L.files[f][j].idx]]
FileOf(L) == [b \in DOMAIN L.idx |-> L.fod[b].file]
Lay(L) == [file |-> FileOf(L), disk |-> DiskOf(L)]
NonMonoL(L) == \E f \in DOMAIN L.files : \E i, j \in DOMAIN L.files[f] : i < j /\ L.files[f][i].idx > L.files[f][j].idx
Rel(K) == <<IF NonMonoL(K.state) THEN "state-nonmono" ELSE "state-mono",
            IF Lay(K.gradp) = Lay(K.state) THEN "gradp-same" ELSE "gradp-other",
            IF Lay(K.ir) = Lay(K.state) THEN "ir-same" ELSE "ir-other">>
Sig == <<Len(chk), flags, [l \in DOMAIN chk |-> Rel(chk[l])],
         IF \E i, j \in DOMAIN sched : i < j /\ sched[i] > sched[j] THEN "reordered-finish" ELSE "fifo-finish">>
Scenario == [prop |-> "C17", sig |-> Sig, ns |-> NS,
             levels |-> [l \in DOMAIN chk |-> [cells |-> cells[l], state |-> Lay(chk[l].state),
                                               gradp |-> Lay(chk[l].gradp), ir |-> Lay(chk[l].ir)]],
             flags |-> flags, sched |-> sched, expect |-> ConvertSpec(chk, flags)]
Emit == pc = "done" => PrintT(ToJson(Scenario))
==========================================================================
