------------------------------ MODULE MC_Cli ------------------------------
(* One tool's command line: every subset of its options; emits the keywords the API must receive. *)
EXTENDS Cli, Json
CONSTANTS OnlyTool
MCInit == Init /\ tool = OnlyTool
\* options without which the command line itself refuses to go on (as documented by its own checks)
Refuses == \/ (tool = "colander" /\ ~({"-v", "-o"} \subseteq Flags))
           \/ (tool = "chk2plt" /\ Flags \cap {"-p", "-s"} = {})
           \/ (tool = "pestle" /\ "-v" \notin Flags)                 \* nothing to integrate
MCRefines == Refuses \/ CliRefines
Scenario == [prop |-> "Cli", tool |-> tool, flags |-> Flags, refuses |-> Refuses,
             sig |-> <<tool, Cardinality(Flags), Refuses>>,
             expect |-> Meant(tool, given)]
Emit == pc = "called" => PrintT(ToJson(Scenario))
==========================================================================
