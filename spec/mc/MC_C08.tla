------------------------------ MODULE MC_C08 ------------------------------
EXTENDS Plate, Json
Fs == SelectSeq(flist, LAMBDA f : f \in 1..98)
FClass == IF flist = <<99>> THEN "all"
          ELSE <<IF \E i, j \in DOMAIN Fs : i < j /\ Fs[i] > Fs[j] THEN "permuted" ELSE "ascending",
                 IF \E i, j \in DOMAIN Fs : i # j /\ Fs[i] = Fs[j] THEN "repeats" ELSE "distinct",
                 IF \E i \in DOMAIN flist : flist[i] = 0 THEN "grid_level" ELSE "fields-only", Len(Fs)>>
\* how each selected level sits under the next one: every cell refined ("full"), some ("partial"), or nothing above it ("top")
NestClass == [l \in 0..lim |-> IF l = lim THEN "top"
                                ELSE IF \A c \in LevelCells(M, l) : CoveredByFiner(M, l, c, lim) THEN "full" ELSE "partial"]
Sig == <<Len(M), lim, [l \in 1..Len(M) |-> Len(M[l])], serial, FClass, NestClass>>
Scenario == [prop |-> "C08", sig |-> Sig, n1 |-> N1, n2 |-> N2, mesh |-> M, lim |-> lim, serial |-> serial, flist |-> flist,
             expect |-> [i \in 0..(N1 * Pow2(lim) - 1) |-> [j \in 0..(N2 * Pow2(lim) - 1) |-> CoverSpec(M, lim, <<i, j>>)]]]
Emit == pc = "done" => PrintT(ToJson(Scenario))
==========================================================================
