------------------------------ MODULE MC_C08 ------------------------------
EXTENDS Plate, Json
Sig == <<Len(M), lim, [l \in 1..Len(M) |-> Len(M[l])], serial>>
Scenario == [prop |-> "C08", sig |-> Sig, n1 |-> N1, n2 |-> N2, mesh |-> M, lim |-> lim, serial |-> serial,
             expect |-> [i \in 0..(N1 * Pow2(lim) - 1) |-> [j \in 0..(N2 * Pow2(lim) - 1) |-> CoverSpec(M, lim, <<i, j>>)]]]
Emit == pc = "done" => PrintT(ToJson(Scenario))
==========================================================================
