------------------------------ MODULE MC_C06 ------------------------------
EXTENDS Combine, Json

DiskOf(L) == [f \in DOMAIN L.files |-> [j \in DOMAIN L.files[f] |-> L.files[f][j].idx]]
FileOf(L) == [b \in DOMAIN L.idx |-> L.fod[b].file]
Desc(P) == [l \in DOMAIN P.lev |-> [idx |-> P.lev[l].idx, file |-> FileOf(P.lev[l]), disk |-> DiskOf(P.lev[l])]]

NonMonoP(P) == \E l \in DOMAIN P.lev : \E f \in DOMAIN P.lev[l].files : \E i, j \in DOMAIN P.lev[l].files[f] :
                  i < j /\ P.lev[l].files[f][i].idx > P.lev[l].files[f][j].idx
\* positions of a selection in its input's field list: a contiguous block listed out of order is a class of its own
PosSet(v, F) == {PosIn(F, v[i]) : i \in DOMAIN v}
BlockUnordered(v, F) == /\ Len(v) >= 3 /\ \A i \in DOMAIN v : v[i] \in Rng(F)
                        /\ (CHOOSE x \in PosSet(v, F) : \A y \in PosSet(v, F) : x >= y) - (CHOOSE x \in PosSet(v, F) : \A y \in PosSet(v, F) : x <= y) + 1 = Len(v)
                        /\ \E i, j \in DOMAIN v : i < j /\ PosIn(F, v[i]) > PosIn(F, v[j])
VClassF(v, F) == IF v = None THEN "None"
                 ELSE IF \E i \in DOMAIN v : v[i] \notin Rng(F) /\ v[i] \in (Rng(F1) \cup Rng(F2)) THEN "with-foreign"
                 ELSE IF \E i \in DOMAIN v : v[i] = "zz" THEN "with-unknown"
                 ELSE IF BlockUnordered(v, F) THEN "block-out-of-order" ELSE "names"
VClass(v) == VClassF(v, IF v = v1 THEN F1 ELSE F2)
\* a name both inputs have, NOT selected from the first: the second input's field of that name belongs in the output
SharedLeftOut == v1 # None /\ \E n \in Rng(F1) \cap Rng(F2) : n \notin Rng(v1) /\ (v2 = None \/ n \in Rng(v2))
Sig == <<rel, IF pc = "done" /\ outcome = "ok" THEN mode ELSE "refused", Len(in1.lev),
         IF SharedLeftOut THEN "shared-name-left-to-second" ELSE "-",
         IF NonMonoP(in1) THEN "first-nonmono" ELSE "first-mono",
         IF NonMonoP(in2) THEN "second-nonmono" ELSE "second-mono",
         VClassF(v1, F1), VClassF(v2, F2),
         IF \E i, j \in DOMAIN sched : i < j /\ sched[i] > sched[j] THEN "reordered-finish" ELSE "fifo-finish">>
Scenario == [prop |-> "C06", sig |-> Sig, f1 |-> F1, f2 |-> F2, cells |-> cells, rel |-> rel,
             in1 |-> Desc(in1), in2 |-> Desc(in2),
             v1 |-> v1, v2 |-> v2, sched |-> sched, model_mode |-> mode, expect |-> Expected]
Emit == pc = "done" => PrintT(ToJson(Scenario))
==========================================================================
