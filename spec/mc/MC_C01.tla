------------------------------ MODULE MC_C01 ------------------------------
(* Model instance for C01 (indexing interface) and C15 (iteration).        *)
EXTENDS Reader, Json

CONSTANTS Names, MaxLev, MaxBox, MaxFile, FMode, BMode, Mode, W

VARIABLES inp, cells, fsel, lv, bsel, pc, result, call, scans, yielded, sched
vvars == <<inp, cells, fsel, lv, bsel, pc, result, call, scans, yielded, sched>>

NF == Len(Names)
ClassPattern == <<1, 2, 1, 2, 2, 1>>
CellsOf(nb) == [b \in 1..nb |-> ClassPattern[b] + 1]

AscLists(S) == {s \in UNION {[1..n -> S] : n \in 1..Cardinality(S)} : \A i, j \in DOMAIN s : i < j => s[i] < s[j]}

\* ascending but not strictly: lists of two or three entries in which an index is REPEATED
RepLists(S) == {s \in UNION {[1..n -> S] : n \in 2..3} : (\A i, j \in DOMAIN s : i < j => s[i] <= s[j]) /\ (\E i, j \in DOMAIN s : i < j /\ s[i] = s[j])}

FSelsAll ==
     {[k |-> "name", v |-> Names[i]] : i \in 1..NF} \cup {[k |-> "name", v |-> "zz"]}
  \cup {[k |-> "int", v |-> i] : i \in (-NF - 1)..NF}
  \cup {[k |-> "ilist", v |-> s] : s \in AscLists(0..(NF - 1))}
  \cup {[k |-> "nlist", v |-> [i \in DOMAIN s |-> Names[s[i] + 1]]] : s \in AscLists(0..(NF - 1))}
  \cup {[k |-> "ilist", v |-> s] : s \in RepLists(0..(NF - 1))}
  \cup {[k |-> "nlist", v |-> [i \in DOMAIN s |-> Names[s[i] + 1]]] : s \in RepLists(0..(NF - 1))}
  \cup {sl \in {[k |-> "slice", a |-> a, b |-> b, s |-> s] :
                   a \in {NoneV} \cup 0..NF, b \in {NoneV} \cup 0..(NF + 1), s \in {NoneV, 1, 2}} :
          PySlice(sl.a, sl.b, sl.s, NF) # <<>>}
FSelsFew == {[k |-> "name", v |-> Names[NF]], [k |-> "int", v |-> 0],
             [k |-> "ilist", v |-> <<0, NF - 1>>],
             [k |-> "slice", a |-> 1, b |-> NoneV, s |-> NoneV],
             [k |-> "slice", a |-> NoneV, b |-> NoneV, s |-> NoneV]}
FSels == IF FMode = "all" THEN FSelsAll ELSE FSelsFew

IntsB(nb) == (-nb - 1)..nb
BSelsAll(nb) ==
     {[k |-> "int", v |-> i] : i \in IntsB(nb)}
  \cup {[k |-> "npint", v |-> i] : i \in (-1)..nb}
  \cup {[k |-> "slice", a |-> a, b |-> b, s |-> s] :
           a \in {NoneV, 0, 1, -1}, b \in {NoneV, 1, nb, -1}, s \in {NoneV, 2, -1}}
  \cup {[k |-> "list", v |-> s] : s \in UNION {[1..n -> (-1)..nb] : n \in 0..2}}
  \cup {[k |-> "list", v |-> [i \in 1..nb |-> nb - i]]}
  \cup {[k |-> "mask", v |-> m] : m \in UNION {[1..n -> BOOLEAN] : n \in {nb, nb + 1}}}
BSelsFew(nb) == {[k |-> "int", v |-> nb - 1], [k |-> "int", v |-> 0],
                 [k |-> "slice", a |-> NoneV, b |-> NoneV, s |-> NoneV],
                 [k |-> "list", v |-> [i \in 1..nb |-> nb - i]]}
BSels(nb) == IF BMode = "all" THEN BSelsAll(nb) ELSE BSelsFew(nb)

Init ==
  /\ \E nl \in 1..MaxLev :
       \E nbs \in [1..nl -> 1..MaxBox] :
         \E lays \in [1..nl -> UNION {Layouts(n, MaxFile) : n \in 1..MaxBox}] :
            /\ \A l \in 1..nl : Len(lays[l].file) = nbs[l]
            /\ cells = [l \in 1..nl |-> CellsOf(nbs[l])]
            /\ inp = SrcPlt("A", Names, cells, lays)
            /\ lv \in (-nl - 1)..nl
            /\ IF Mode = "read"
               THEN bsel \in BSels(nbs[IF ResolveLevel(nl, lv) >= 0 THEN ResolveLevel(nl, lv) + 1 ELSE 1])
               ELSE bsel = [k |-> "iter"]
  /\ fsel \in FSels
  /\ pc = "select" /\ result = [k |-> "none"]
  /\ call = NoCall /\ scans = <<>> /\ yielded = <<>> /\ sched = <<>>

(* ---- indexing interface: pck[fsel][lv][bsel] ---- *)
Select ==
  /\ pc = "select"
  /\ IF ImplSelect(inp.fields, fsel) = Err THEN pc' = "done" /\ result' = Err
     ELSE pc' = "stream" /\ result' = result
  /\ UNCHANGED <<inp, cells, fsel, lv, bsel, call, scans, yielded, sched>>

Stream ==
  /\ pc = "stream"
  /\ IF ResolveLevel(Len(inp.lev), lv) < 0 THEN pc' = "done" /\ result' = Err
     ELSE pc' = (IF Mode = "read" THEN "read" ELSE "iter") /\ result' = result
  /\ UNCHANGED <<inp, cells, fsel, lv, bsel, call, scans, yielded, sched>>

Read ==
  /\ pc = "read"
  /\ result' = ImplRead(inp, fsel, lv, bsel)
  /\ pc' = "done"
  /\ UNCHANGED <<inp, cells, fsel, lv, bsel, call, scans, yielded, sched>>

(* ---- iteration: for box in pck[fsel][lv] ---- *)
TheLevel == inp.lev[ResolveLevel(Len(inp.lev), lv) + 1]
IterSubmit ==
  /\ pc = "iter"
  /\ call' = NewCall("imap", Len(UniqueFiles(TheLevel)))
  /\ scans' = [k \in DOMAIN UniqueFiles(TheLevel) |-> <<>>]
  /\ pc' = "pool"
  /\ UNCHANGED <<inp, cells, fsel, lv, bsel, result, yielded, sched>>
Start(k) ==
  /\ pc = "pool" /\ CanStart(call, k, W)
  /\ call' = DoStart(call, k)
  /\ UNCHANGED <<inp, cells, fsel, lv, bsel, pc, result, scans, yielded, sched>>
Finish(k) ==
  /\ pc = "pool" /\ CanFinish(call, k)
  /\ call' = DoFinish(call, k)
  /\ scans' = [scans EXCEPT ![k] = ImplScanFile(TheLevel.files[UniqueFiles(TheLevel)[k]],
                                                ImplSelect(inp.fields, fsel))]
  /\ sched' = Append(sched, k)
  /\ UNCHANGED <<inp, cells, fsel, lv, bsel, pc, result, yielded>>
\* the consumer takes the next file's list and yields its boxes one after the other
Deliver(k) ==
  /\ pc = "pool" /\ k \in Deliverable(call)
  /\ call' = DoDeliver(call, k)
  /\ yielded' = yielded \o scans[k]
  /\ UNCHANGED <<inp, cells, fsel, lv, bsel, pc, result, scans, sched>>
IterStop ==
  /\ pc = "pool" /\ AllDelivered(call)
  /\ result' = [k |-> "ok", seq |-> yielded]
  /\ pc' = "done"
  /\ UNCHANGED <<inp, cells, fsel, lv, bsel, call, scans, yielded, sched>>

Next == Select \/ Stream \/ Read \/ IterSubmit \/ IterStop
        \/ (\E k \in 1..MaxFile : Start(k) \/ Finish(k) \/ Deliver(k))
Spec == Init /\ [][Next]_vvars /\ WF_vvars(Next)

(* ---- properties ---- *)
ReadRefines == (pc = "done" /\ Mode = "read") => result = ReadSpec(Content(inp), fsel, lv, bsel)
IterRefines == (pc = "done" /\ Mode = "iter") =>
   LET spec == IterSpec(Content(inp), fsel, lv)
   IN IF spec = Err THEN result = Err
      ELSE /\ result.k = "ok"
           /\ Len(result.seq) = Cardinality(spec.bag)            \* each box exactly once ...
           /\ {result.seq[i] : i \in DOMAIN result.seq} = spec.bag  \* ... with its own data
PoolOK == CallOK(call, W)
Terminates == <>(pc = "done")

(* ---- emission ---- *)
DiskOf(L) == [f \in DOMAIN L.files |-> [j \in DOMAIN L.files[f] |-> L.files[f][j].idx]]
FileOf(L) == [b \in DOMAIN L.idx |-> L.fod[b].file]
LayClass(L) == <<Cardinality(FilesUsed(L)),
                 IF \E f \in DOMAIN L.files : \E i, j \in DOMAIN L.files[f] :
                        i < j /\ L.files[f][i].idx > L.files[f][j].idx THEN "nonmono" ELSE "mono">>
FClass == IF fsel.k = "slice"
          THEN <<"slice", IF SliceIndices(fsel.a, fsel.b, fsel.s, NF)[1] > 0 THEN "start>0" ELSE "start0",
                 IF fsel.s = 2 THEN "step2" ELSE "step1">>
          ELSE IF fsel.k = "int" THEN <<"int", IF fsel.v < 0 THEN "neg" ELSE "pos">>
          ELSE <<fsel.k>>
BClass == IF bsel.k \in {"int", "npint"} THEN <<bsel.k, IF bsel.v < 0 THEN "neg" ELSE "pos">>
          ELSE IF bsel.k = "list" THEN <<"list", Len(bsel.v)>>
          ELSE <<bsel.k>>
Expect == IF Mode = "read" THEN ReadSpec(Content(inp), fsel, lv, bsel) ELSE IterSpec(Content(inp), fsel, lv)
Sig == <<Mode, FClass, BClass, IF lv < 0 THEN "lvneg" ELSE "lvpos",
         IF ResolveLevel(Len(inp.lev), lv) >= 0 THEN LayClass(TheLevel) ELSE <<0, "nolevel">>,
         IF Expect = Err THEN "err" ELSE "ok",
         IF \E i, j \in DOMAIN sched : i < j /\ sched[i] > sched[j] THEN "reordered-finish" ELSE "fifo-finish">>
\* python-style negative indices and numpy scalars: the statement lists "index" selections without
\* fixing these conveniences, so honouring them or refusing them are both acceptable
Lenient == \/ (fsel.k = "int" /\ fsel.v < 0)
           \/ lv < 0
           \/ (bsel.k \in {"int", "npint"} /\ (bsel.v < 0 \/ bsel.k = "npint"))
           \/ (bsel.k = "list" /\ \E i \in DOMAIN bsel.v : bsel.v[i] < 0)
Scenario ==
  [lenient |-> Lenient, prop |-> IF Mode = "read" THEN "C01" ELSE "C15", sig |-> Sig, fields |-> inp.fields,
   levels |-> [l \in DOMAIN inp.lev |-> [cells |-> cells[l], file |-> FileOf(inp.lev[l]), disk |-> DiskOf(inp.lev[l])]],
   fsel |-> fsel, lv |-> lv, bsel |-> bsel, sched |-> sched, expect |-> Expect]
Emit == pc = "done" => PrintT(ToJson(Scenario))
==========================================================================
