------------------------------ MODULE MC_Keys ------------------------------
(* every field-name list over an alphabet that contains generated-looking names ("a_2", "a_3") up to MaxFields:          *)
(* the implementation's keys satisfy the requirement; each list is emitted for replay against the real reader / validator *)
EXTENDS FieldKeys, Json

CONSTANTS Alphabet, MaxFields
VARIABLES names, keys, pc
vvars == <<names, keys, pc>>

Init == /\ names \in UNION {[1..n -> Alphabet] : n \in 1..MaxFields}
        /\ keys = <<>> /\ pc = "header"
Parse == /\ pc = "header" /\ keys' = ImplKeys(names) /\ pc' = "done" /\ UNCHANGED names
Next == Parse
Spec == Init /\ [][Next]_vvars

KeysRefine == pc = "done" => KeysOk(names, keys)
Repeats == \E i, j \in DOMAIN names : i < j /\ names[i] = names[j]
\* a field whose own name is a key generated (or that would be generated) for another, repeated, name
Collides == \E i, j \in DOMAIN names : i # j /\ names[i] # names[j] /\ names[i] \in {Render(names[j], k) : k \in 2..(Len(names) + 1)}
                                       /\ \E m \in DOMAIN names : m # j /\ names[m] = names[j]
Sig == <<Len(names), IF Repeats THEN "repeats" ELSE "distinct", IF Collides THEN "generated-name-present" ELSE "plain",
         IF \E i \in DOMAIN names : pc = "done" /\ keys[i] # names[i] /\ ~(\E j \in 1..(i - 1) : names[j] = names[i]) THEN "displaced-first-occurrence" ELSE "-">>
Scenario == [prop |-> "Keys", sig |-> Sig, names |-> names, model_keys |-> keys]
Emit == pc = "done" => PrintT(ToJson(Scenario))
=============================================================================
