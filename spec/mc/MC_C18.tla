------------------------------ MODULE MC_C18 ------------------------------
EXTENDS HeaderTools, Json
Sig == <<IF Len(fields) % 2 = 1 THEN (IF fields \in DupFree THEN "odd" ELSE "odd-with-repeat") ELSE (IF fields \in DupFree THEN "even" ELSE "even-with-repeat"), IF \E i \in DOMAIN fields : IsSpecies(fields[i]) THEN "species" ELSE "no-species",
         IF \E i \in DOMAIN fields : fields[i] = "Y(H2)_avg" THEN "species-lookalike" ELSE IF \E i \in DOMAIN fields : fields[i] \in {"foo", "bar"} THEN "unknown-names" ELSE "known",
         IF \E i \in DOMAIN fields : fields[i] = "Y(CH2(S))" THEN "nested-parentheses" ELSE IF \E i \in DOMAIN fields : fields[i] = "heat release" THEN "blank-in-name" ELSE "plain", mode, Len(fields)>>
Scenario == [prop |-> "C18", sig |-> Sig, fields |-> fields, mode |-> mode,
             expect |-> [classes |-> {ClassOf(fields[k]) : k \in DOMAIN fields},
                         species |-> {fields[k] : k \in {k \in DOMAIN fields : IsSpecies(fields[k])}}]]
Emit == pc = "done" => PrintT(ToJson(Scenario))
==========================================================================
