----------------------------- MODULE HeaderTools -----------------------------
(***************************************************************************)
(* Header-only tools: minuterie, menu, marinate (C18).                     *)
(*                                                                         *)
(* menu: the fields of the header are CLASSIFIED through an ordered table  *)
(* of patterns (first match wins, a class is listed once, unknown names    *)
(* are listed as themselves), species are listed separately; the min/max   *)
(* table is printed in two columns: row i shows entries i and i + middle   *)
(* of the (padded) field list.                                             *)
(* Requirement: every field represented exactly once in the listing;       *)
(* exactly one min/max row entry per field.                                *)
(***************************************************************************)
EXTENDS Naturals, Sequences, FiniteSets, TLC

CONSTANTS MaxFields,
          Parity        \* "mod2" (repaired code) | "floordiv" (mutant = original code)

VARIABLES fields, mode, pc, listed, species, rows
vvars == <<fields, mode, pc, listed, species, rows>>

Rng(s) == {s[i] : i \in DOMAIN s}
\* "Y(CH2(S))": a species whose name has parentheses of its own; "Y(H2)_avg": NOT a mass fraction (the pattern is anchored at
\* both ends) although it begins like one -- an unknown name, listed as itself, contributing no species
\* "heat release": a name with a blank in it (names are whole header LINES, not tokens)
Universe == {"density", "temp", "x_velocity", "y_velocity", "Y(H2)", "Y(O2)", "Y(CH2(S))", "Y(H2)_avg", "foo", "bar", "heat release"}
\* the pattern table, in dictionary order: <<class key, names it matches>>
Table == <<<<"density", {"density"}>>, <<"temp", {"temp"}>>, <<"velocity", {"x_velocity", "y_velocity"}>>,
           <<"Y", {"Y(H2)", "Y(O2)", "Y(CH2(S))"}>>>>
ClassOf(f) == IF \E i \in DOMAIN Table : f \in Table[i][2]
              THEN Table[CHOOSE i \in DOMAIN Table : f \in Table[i][2] /\ \A j \in 1..(i - 1) : f \notin Table[j][2]][1]
              ELSE f
IsSpecies(f) == f \in {"Y(H2)", "Y(O2)", "Y(CH2(S))"}

DupFree == {s \in UNION {[1..n -> Universe] : n \in 1..MaxFields} : \A i, j \in DOMAIN s : i # j => s[i] # s[j]}
\* headers with a REPEATED field name (legal: the reader numbers the repeats name_2, name_3 ...): the first name once or twice more,
\* right behind it or at the end; only the min/max tables are specified for them (one row per header field, by position)
WithRepeat == {<<s[1]>> \o s : s \in {q \in DupFree : Len(q) < MaxFields}}
              \cup {s \o <<s[1]>> : s \in {q \in DupFree : Len(q) < MaxFields /\ Len(q) >= 2}}
              \cup {<<s[1], s[1]>> \o s : s \in {q \in DupFree : Len(q) + 2 <= MaxFields}}
Init == /\ \/ (fields \in DupFree /\ mode \in {"default", "description", "minmax", "finest"})
           \/ (fields \in WithRepeat /\ mode \in {"minmax", "finest"})
        /\ pc = "classify" /\ listed = <<>> /\ species = <<>> /\ rows = <<>>

\* variables_finder / species_finder
RECURSIVE Classify(_, _)
Classify(fs, acc) == IF fs = <<>> THEN acc
                     ELSE LET c == ClassOf(Head(fs)) IN Classify(Tail(fs), IF c \in Rng(acc) THEN acc ELSE Append(acc, c))
ClassifyStep ==
  /\ pc = "classify"
  /\ listed' = Classify(fields, <<>>)
  /\ species' = SelectSeq(fields, IsSpecies)
  /\ pc' = IF mode \in {"minmax", "finest"} THEN "table" ELSE "done"
  /\ UNCHANGED <<fields, mode, rows>>

\* show_min_max: pad to an even count, then row i shows entries i and i + middle (0-based positions)
TableStep ==
  /\ pc = "table"
  /\ LET n == Len(fields)
         pad == IF Parity = "mod2" THEN n % 2 = 1 ELSE n \div 2 = 0
         m == IF pad THEN n + 1 ELSE n
         middle == m \div 2
     IN rows' = [i \in 1..middle |-> <<i, i + middle>>]
  /\ pc' = "done"
  /\ UNCHANGED <<fields, mode, listed, species>>

Next == ClassifyStep \/ TableStep
Spec == Init /\ [][Next]_vvars /\ WF_vvars(Next)

\* ---- requirement ----
ListedOnce == (pc = "done" /\ fields \in DupFree) =>
  /\ \A i, j \in DOMAIN listed : i # j => listed[i] # listed[j]
  /\ \A k \in DOMAIN fields : Cardinality({i \in DOMAIN listed : listed[i] = ClassOf(fields[k])}) = 1
  /\ \A k \in DOMAIN fields : IsSpecies(fields[k]) => Cardinality({i \in DOMAIN species : species[i] = fields[k]}) = 1
  /\ \A i \in DOMAIN species : IsSpecies(species[i])
RowPerField == (pc = "done" /\ mode \in {"minmax", "finest"}) =>
  \A k \in DOMAIN fields : Cardinality({r \in DOMAIN rows : rows[r][1] = k \/ rows[r][2] = k}) = 1
=============================================================================
