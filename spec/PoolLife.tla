------------------------------ MODULE PoolLife ------------------------------
(***************************************************************************)
(* Lifetime of a multiprocessing.Pool that is created inside a function    *)
(* which returns pool.imap(...) and keeps no reference to the pool         *)
(* (LevelDataStream.iter: "pool = multiprocessing.Pool(); return           *)
(* pool.imap(read_fun, ...)").  Found through C15 (empty selections never  *)
(* returned); modelled after CPython 3.12's multiprocessing/pool.py:       *)
(*                                                                         *)
(*  - the IMapIterator holds a reference to the pool until its length is   *)
(*    known AND every result has been handed over; it drops it INSIDE      *)
(*    _set_length / _set, while holding the iterator's condition lock;     *)
(*  - _set_length is called by the pool's task-handler thread after the    *)
(*    last task has been put on the queue, BEFORE that thread sends the    *)
(*    workers their stop sentinels;                                        *)
(*  - when the last reference goes, the pool's finalizer runs in the       *)
(*    thread that dropped it; it needs the queue's read lock, which an     *)
(*    idle worker holds until it receives a task or a sentinel.            *)
(*                                                                         *)
(* Threads: "main" (the caller consuming the iterator), "handler" (task    *)
(* handler), workers abstracted into `computed`.  KeepRef = TRUE models a  *)
(* caller that keeps the pool referenced until it has consumed everything  *)
(* (`with Pool() as pool:` around the loop).                               *)
(***************************************************************************)
EXTENDS Naturals, FiniteSets

CONSTANTS N,          \* number of tasks of the imap call (0 = empty selection)
          KeepRef     \* TRUE: the caller holds the pool | FALSE: the code's pattern

VARIABLES refs,       \* holders of a strong reference to the pool: subset of {"frame", "iter"}
          put,        \* tasks put on the queue by the handler
          computed,   \* results produced by workers and stored in the iterator by the result-handler thread (its _index)
          consumed,   \* results taken by main
          lengthSet,  \* _set_length has run
          cond,       \* holder of the iterator's condition lock: "free" | "main" | "handler"
          pcM,        \* main:    "call" | "loop" | "waiting" | "done"
          pcH,        \* handler: "feeding" | "setlen" | "finalizing" | "sentinels" | "done"
          rlock       \* "worker" (an idle worker holds the queue's read lock) | "free"
vars == <<refs, put, computed, consumed, lengthSet, cond, pcM, pcH, rlock>>

Init == /\ refs = {"frame", "iter"} /\ put = 0 /\ computed = 0 /\ consumed = 0 /\ lengthSet = FALSE
        /\ cond = "free" /\ pcM = "call" /\ pcH = "feeding" /\ rlock = "worker"

\* ---- main thread
\* iter() returns the iterator; its local variable `pool` dies with the frame
Return == /\ pcM = "call" /\ pcM' = "loop"
          /\ refs' = IF KeepRef THEN refs ELSE refs \ {"frame"}
          /\ UNCHANGED <<put, computed, consumed, lengthSet, cond, pcH, rlock>>
\* next(): under the condition lock take a result, or stop when everything has been handed over, or wait
NextItem == /\ pcM = "loop" /\ cond = "free"
            /\ IF consumed < computed
               THEN /\ consumed' = consumed + 1 /\ pcM' = "loop" /\ cond' = "free"
                    \* _set: the iterator drops the pool when the LAST result is stored and the length is known; that
                    \* happens in the result-handler thread, which needs no lock the finalizer needs -- not the problem
                    /\ UNCHANGED refs
               ELSE IF lengthSet /\ consumed = N
               THEN /\ pcM' = "done" /\ cond' = "free" /\ UNCHANGED <<consumed, refs>>
               ELSE /\ pcM' = "waiting" /\ cond' = "free" /\ UNCHANGED <<consumed, refs>>     \* cond.wait() releases the lock
            /\ UNCHANGED <<put, computed, lengthSet, pcH, rlock>>
\* woken up (by a result or by _set_length): needs the condition lock again
Wake == /\ pcM = "waiting" /\ cond = "free" /\ (consumed < computed \/ lengthSet)
        /\ pcM' = "loop" /\ UNCHANGED <<refs, put, computed, consumed, lengthSet, cond, pcH, rlock>>
\* a caller that kept the pool lets it go once it is done (finalizer in the main thread: the handler is free to send sentinels)
Release == /\ pcM = "done" /\ KeepRef /\ "frame" \in refs /\ refs' = refs \ {"frame"}
           /\ UNCHANGED <<put, computed, consumed, lengthSet, cond, pcM, pcH, rlock>>

\* ---- workers
Compute == /\ computed < put /\ computed' = computed + 1
           /\ UNCHANGED <<refs, put, consumed, lengthSet, cond, pcM, pcH, rlock>>

\* ---- task-handler thread
Feed == /\ pcH = "feeding" /\ put < N /\ put' = put + 1
        /\ UNCHANGED <<refs, computed, consumed, lengthSet, cond, pcM, pcH, rlock>>
EndFeed == /\ pcH = "feeding" /\ put = N /\ pcH' = "setlen"
           /\ UNCHANGED <<refs, put, computed, consumed, lengthSet, cond, pcM, rlock>>
\* _set_length(N): with self._cond: length = N; if index == length: notify; del cache[job]; self._pool = None
SetLength == /\ pcH = "setlen" /\ cond = "free"
             /\ lengthSet' = TRUE
             \* `if self._index == self._length`: every result has ALREADY been stored -- always so for N = 0, and for N > 0
             \* when the workers and the result handler were faster than these few instructions of the task handler
             /\ IF computed = N
                THEN /\ refs' = refs \ {"iter"}
                     /\ IF refs \ {"iter"} = {}
                        THEN pcH' = "finalizing" /\ cond' = "handler"      \* the finalizer runs HERE, inside the with block
                        ELSE pcH' = "sentinels" /\ cond' = "free"
                ELSE /\ pcH' = "sentinels" /\ cond' = "free" /\ UNCHANGED refs
             /\ UNCHANGED <<put, computed, consumed, pcM, rlock>>
\* _terminate_pool -> _help_stuff_finish: inqueue._rlock.acquire()
Finalize == /\ pcH = "finalizing" /\ rlock = "free"
            /\ pcH' = "sentinels" /\ cond' = "free"
            /\ UNCHANGED <<refs, put, computed, consumed, lengthSet, pcM, rlock>>
\* "tell workers there is no more work": idle workers get their sentinel and let go of the read lock
Sentinels == /\ pcH = "sentinels" /\ pcH' = "done" /\ rlock' = "free"
             /\ UNCHANGED <<refs, put, computed, consumed, lengthSet, cond, pcM>>

Finished == pcM = "done" /\ pcH = "done" /\ (KeepRef => "frame" \notin refs)
Next == Return \/ NextItem \/ Wake \/ Release \/ Compute \/ Feed \/ EndFeed \/ SetLength \/ Finalize \/ Sentinels
        \/ (Finished /\ UNCHANGED vars)
\* every thread keeps running (weak fairness per action, not on the disjunction: main spinning in wait/wake must not starve the workers)
Spec == Init /\ [][Next]_vars /\ WF_vars(Return) /\ WF_vars(NextItem) /\ WF_vars(Wake) /\ WF_vars(Release) /\ WF_vars(Compute)
             /\ WF_vars(Feed) /\ WF_vars(EndFeed) /\ WF_vars(SetLength) /\ WF_vars(Finalize) /\ WF_vars(Sentinels)

\* the caller's loop ends: no reachable state in which the handler sits in the finalizer, holding the condition lock,
\* waiting for a read lock that only its own next step would free
NoWedge == ~(pcH = "finalizing" /\ rlock = "worker")
CallerFinishes == <>(pcM = "done")
=============================================================================
