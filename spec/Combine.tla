------------------------------- MODULE Combine -------------------------------
(***************************************************************************)
(* combine: merge the fields of two plotfiles on the same mesh.            *)
(*                                                                         *)
(* Requirement layer: CombineSpec on Content (layout-free).                *)
(* Implementation layer (mirrors combine.py + plotfile_cooker.py):         *)
(*   Validate   structural equality, MODE CHOICE, field selection          *)
(*   MkTree, WriteHeader (the global header is written first)              *)
(*   per level: one task per unique file of the FIRST input                *)
(*      byfile    twin sequential scan of the two files of the same name   *)
(*      byoffset  seek pairs (offset in first, offset in second)           *)
(*      bybox     first input scanned sequentially, second by (file, off)  *)
(*   Gather     results zipped with map_bfile_offsets (boxes of a file in  *)
(*              the order of their offsets), level header rewritten        *)
(***************************************************************************)
EXTENDS Plotfile, Pool

CONSTANTS
  F1, F2,        \* field names of the two inputs
  MaxLev, MaxBox, MaxFile, MaxBox2,   \* MaxBox2: boxes on levels above the first
  W, SchedMode,
  MapOrder,      \* "disk" (repaired code: boxes of a file by offset) | "header" (mutant = original code)
  ModeAssign     \* "assign" (repaired code) | "compare" (mutant = original code: byoffset never chosen)

VARIABLES in1, in2, cells, rel, v1, v2, pc, mode, sel, lv, tasks, call, res, out, sched, outcome
vvars == <<in1, in2, cells, rel, v1, v2, pc, mode, sel, lv, tasks, call, res, out, sched, outcome>>

None == <<"None">>
ClassPattern == <<1, 2, 1, 2, 2, 1>>
CellsOf(nb) == [b \in 1..nb |-> ClassPattern[b] + 1]
NoOut == [fields |-> <<>>, hdr |-> FALSE, tree |-> FALSE, lev |-> <<>>]

-----------------------------------------------------------------------------
(* Requirement layer *)
Sel(vs, fields) == IF vs = None THEN fields ELSE SelectSeq(vs, LAMBDA v : v \in Rng(fields))
Selection(C1fields, C2fields, a, b) ==
  LET f1 == Sel(a, C1fields)
      f2 == SelectSeq(Sel(b, C2fields), LAMBDA v : v \notin Rng(f1))
  IN [f1 |-> f1, f2 |-> f2]

SameMesh(C1, C2) ==
  /\ Len(C1.lev) = Len(C2.lev)
  /\ \A l \in DOMAIN C1.lev : /\ DOMAIN C1.lev[l] = DOMAIN C2.lev[l]
                              /\ \A b \in DOMAIN C1.lev[l] : C1.lev[l][b].idx = C2.lev[l][b].idx

Refused == [k |-> "refused"]
CombineSpec(C1, C2, a, b) ==
  IF ~SameMesh(C1, C2) THEN Refused
  ELSE LET s == Selection(C1.fields, C2.fields, a, b) IN
       IF s.f1 = <<>> \/ s.f2 = <<>> THEN Refused
       ELSE LET c1 == [i \in DOMAIN s.f1 |-> PosIn(C1.fields, s.f1[i])]
                c2 == [i \in DOMAIN s.f2 |-> PosIn(C2.fields, s.f2[i])]
            IN [k |-> "ok", fields |-> s.f1 \o s.f2, n1 |-> Len(s.f1),
                lev |-> [l \in DOMAIN C1.lev |->
                           [bx \in DOMAIN C1.lev[l] |->
                              [idx |-> C1.lev[l][bx].idx,
                               comps |-> Pick(C1.lev[l][bx].comps, c1) \o Pick(C2.lev[l][bx].comps, c2),
                               mm |-> Pick(C1.lev[l][bx].mm, c1) \o Pick(C2.lev[l][bx].mm, c2)]]]]

-----------------------------------------------------------------------------
(* Implementation layer *)
HeaderIdx(P) == [l \in DOMAIN P.lev |-> P.lev[l].idx]

\* argsort of the offsets of the boxes of file f (as box numbers in header order)
OffsetOrder(L, f) == SortedByOffset(L, BoxesOfFile(L, f))
\* rank pattern of offsets inside a file, to compare two inputs
ArgSort(L, f) == LET hb == BoxesOfFile(L, f)
                     so == OffsetOrder(L, f)
                 IN [i \in DOMAIN so |-> PosIn(hb, so[i])]

ChooseMode ==
  LET files(P, l) == [b \in DOMAIN P.lev[l].idx |-> P.lev[l].fod[b].file]
      diffFiles == \E l \in DOMAIN in1.lev : files(in1, l) # files(in2, l)
      \* the code breaks out of the level loop at the first level whose files differ; an order
      \* difference found on an earlier level has already switched the mode to byoffset
      diffOrder == \E l \in DOMAIN in1.lev : files(in1, l) = files(in2, l) /\
                      \E f \in FilesUsed(in1.lev[l]) : ArgSort(in1.lev[l], f) # ArgSort(in2.lev[l], f)
  IN IF diffFiles THEN "bybox"
     ELSE IF diffOrder /\ ModeAssign = "assign" THEN "byoffset" ELSE "byfile"

Validate ==
  /\ pc = "start"
  /\ IF Len(in1.lev) # Len(in2.lev) \/ HeaderIdx(in1) # HeaderIdx(in2)
     THEN outcome' = "refused" /\ pc' = "done" /\ mode' = mode /\ sel' = sel
     ELSE LET s == Selection(in1.fields, in2.fields, v1, v2) IN
          IF s.f1 = <<>> \/ s.f2 = <<>>
          THEN outcome' = "refused" /\ pc' = "done" /\ mode' = mode /\ sel' = sel
          ELSE outcome' = outcome /\ pc' = "tree" /\ mode' = ChooseMode /\ sel' = s
  /\ UNCHANGED <<in1, in2, cells, rel, v1, v2, lv, tasks, call, res, out, sched>>

MkTreeAndHeader ==
  /\ pc = "tree"
  /\ out' = [fields |-> sel.f1 \o sel.f2, hdr |-> TRUE, tree |-> TRUE,
             lev |-> [l \in DOMAIN in1.lev |-> [files |-> <<>>, cellh |-> FALSE]]]
  /\ pc' = "submit" /\ lv' = 0
  /\ UNCHANGED <<in1, in2, cells, rel, v1, v2, mode, sel, tasks, call, res, sched, outcome>>

\* boxes of file f as map_bfile_offsets lists them
MapBoxes(L, f) == IF MapOrder = "disk" THEN OffsetOrder(L, f) ELSE BoxesOfFile(L, f)

SubmitLevel ==
  /\ pc = "submit"
  /\ LET L1 == in1.lev[lv + 1]
         fs == UniqueFiles(L1)
     IN /\ tasks' = [k \in DOMAIN fs |-> [file |-> fs[k], boxes |-> MapBoxes(L1, fs[k])]]
        /\ call' = NewCall(IF mode = "bybox" THEN "imap" ELSE "map", Len(fs))
        /\ res' = [k \in DOMAIN fs |-> <<>>]
  /\ pc' = "pool"
  /\ UNCHANGED <<in1, in2, cells, rel, v1, v2, mode, sel, lv, out, sched, outcome>>

Start(k) ==
  /\ pc = "pool" /\ CanStart(call, k, W)
  /\ (SchedMode = "fifo" => \A j \in 1..(k - 1) : call.st[j] # "pend")
  /\ call' = DoStart(call, k)
  /\ UNCHANGED <<in1, in2, cells, rel, v1, v2, pc, mode, sel, lv, tasks, res, out, sched, outcome>>

C1cols == [i \in DOMAIN sel.f1 |-> PosIn(in1.fields, sel.f1[i])]
C2cols == [i \in DOMAIN sel.f2 |-> PosIn(in2.fields, sel.f2[i])]
Merge(fab1, fab2) == Fab(fab1.idx, fab1.cells, Pick(fab1.comps, C1cols) \o Pick(fab2.comps, C2cols))

\* the FABs a worker writes, in the order it writes them
WorkerOutput(k) ==
  LET L1 == in1.lev[lv + 1]
      L2 == in2.lev[lv + 1]
      t == tasks[k]
      f1 == L1.files[t.file]
  IN CASE mode = "byfile" ->
            \* FAB j of the first file with FAB j of the second file of the same name
            LET f2 == L2.files[t.file]
            IN [j \in 1..Min2(Len(f1), Len(f2)) |-> Merge(f1[j], f2[j])]
       [] mode = "byoffset" ->
            [j \in DOMAIN t.boxes |->
               Merge(FabAt(f1, L1.fod[t.boxes[j]].off),
                     FabAt(L2.files[L2.fod[t.boxes[j]].file], L2.fod[t.boxes[j]].off))]
       [] mode = "bybox" ->
            \* the first file is read sequentially: FAB j, whatever box t.boxes[j] is
            [j \in DOMAIN t.boxes |->
               Merge(f1[j], FabAt(L2.files[L2.fod[t.boxes[j]].file], L2.fod[t.boxes[j]].off))]

Finish(k) ==
  /\ pc = "pool" /\ CanFinish(call, k)
  /\ (SchedMode = "fifo" => \A j \in 1..(k - 1) : call.st[j] = "done")
  /\ LET w == WorkerOutput(k)
     IN /\ out' = [out EXCEPT !.lev[lv + 1].files = @ @@ (tasks[k].file :> w)]
        /\ res' = [res EXCEPT ![k] = [j \in DOMAIN w |-> StartOf(w, j)]]
  /\ call' = DoFinish(call, k)
  /\ sched' = Append(sched, k)
  /\ UNCHANGED <<in1, in2, cells, rel, v1, v2, pc, mode, sel, lv, tasks, outcome>>

GatherAndRewriteLevelHeader ==
  /\ pc = "pool" /\ AllDone(call)
  /\ LET L1 == in1.lev[lv + 1]
         L2 == in2.lev[lv + 1]
         offOf(b) == LET k == CHOOSE k \in DOMAIN tasks : b \in Rng(tasks[k].boxes)
                     IN res[k][PosIn(tasks[k].boxes, b)]
     IN out' = [out EXCEPT !.lev[lv + 1] =
                  [files |-> @.files, cellh |-> TRUE, idx |-> L1.idx,
                   fod |-> [b \in DOMAIN L1.idx |-> [file |-> L1.fod[b].file, off |-> offOf(b)]],
                   mm  |-> [b \in DOMAIN L1.idx |-> Pick(L1.mm[b], C1cols) \o Pick(L2.mm[b], C2cols)]]]
  /\ call' = NoCall /\ tasks' = <<>> /\ res' = <<>>
  /\ IF lv + 1 < Len(in1.lev) THEN lv' = lv + 1 /\ pc' = "submit" /\ outcome' = outcome
     ELSE lv' = lv /\ pc' = "done" /\ outcome' = "ok"
  /\ UNCHANGED <<in1, in2, cells, rel, v1, v2, mode, sel, sched>>

Next == Validate \/ MkTreeAndHeader \/ SubmitLevel \/ GatherAndRewriteLevelHeader
        \/ (\E k \in 1..MaxFile : Start(k) \/ Finish(k))
-----------------------------------------------------------------------------
\* selections: for short field lists a few representative ones; for inputs with four or more fields EVERY ordered duplicate-free
\* selection of up to three of the first input's fields (a selection may be in any order, contiguous in the file or not) and
\* every ordered triple of the second's
OrderedLists(S, n) == {q \in UNION {[1..k -> S] : k \in 1..n} : \A i, j \in DOMAIN q : i # j => q[i] # q[j]}
\* FOREIGN names: a list for one input may name fields that only the OTHER input has (one wish list given for both
\* inputs); such a name selects nothing from the input it is asked of and must not keep the other input's field out
Only1 == SelectSeq(F1, LAMBDA v : v \notin Rng(F2))
Only2 == SelectSeq(F2, LAMBDA v : v \notin Rng(F1))
Foreign1 == IF Only2 = <<>> THEN {} ELSE {<<F1[1], Only2[Len(Only2)]>>, <<Only2[1], F1[Len(F1)]>>, <<F1[1], Only2[1], "zz">>}
Foreign2 == IF Only1 = <<>> THEN {} ELSE {<<Only1[1], F2[Len(F2)]>>, <<F2[1], F2[Len(F2)], Only1[Len(Only1)]>>}
\* (for four-field inputs also every ordering of ALL four: a run of consecutive fields with its inner members out of order)
VarChoices1 == IF Len(F1) >= 4 THEN {None} \cup OrderedLists(Rng(F1), 3) \cup {q \in OrderedLists(Rng(F1), 4) : Len(q) = 4} \cup Foreign1
               ELSE {None, <<F1[1]>>, <<F1[Len(F1)]>>, <<F1[Len(F1)], F1[1]>>, <<F1[1], "zz">>, <<"zz">>} \cup Foreign1
VarChoices2 == IF Len(F2) >= 4 THEN {None} \cup {q \in OrderedLists(Rng(F2), 3) : Len(q) = 3} \cup Foreign2
               ELSE {None, <<F2[Len(F2)]>>, <<F2[1], F2[Len(F2)]>>, <<"zz", F2[Len(F2)]>>, <<F1[1]>>} \cup Foreign2

ShiftBox(P, l, b) ==
  [P EXCEPT !.lev[l].idx[b] = 90 + b,
            !.lev[l].files = [f \in DOMAIN @ |-> [j \in DOMAIN @[f] |->
                                 IF @[f][j].idx = b THEN [@[f][j] EXCEPT !.idx = 90 + b] ELSE @[f][j]]]]

\* the same boxes listed in another ORDER in the headers (entries 1 and 2 of level l exchanged; the FABs stay where they are)
SwapHeader(P, l) ==
  LET sw(q) == [i \in DOMAIN q |-> IF i = 1 THEN q[2] ELSE IF i = 2 THEN q[1] ELSE q[i]]
  IN [P EXCEPT !.lev[l].idx = sw(@), !.lev[l].fod = sw(@), !.lev[l].mm = sw(@)]

LaysFor(nl, nbs) == {lays \in [1..nl -> UNION {Layouts(n, MaxFile) : n \in 1..MaxBox}] :
                        \A l \in 1..nl : Len(lays[l].file) = nbs[l]}

Init ==
  /\ \E nl \in 1..MaxLev : \E nbs \in [1..nl -> 1..MaxBox] :
       /\ \A l \in 2..nl : nbs[l] <= MaxBox2
       /\ cells = [l \in 1..nl |-> CellsOf(nbs[l])]
       /\ \E lays1 \in LaysFor(nl, nbs) : in1 = SrcPlt("A", F1, cells, lays1)
       /\ rel \in {"same", "fewer_boxes", "shifted", "fewer_levels", "reordered"}
       /\ CASE rel = "same" -> \E lays2 \in LaysFor(nl, nbs) : in2 = SrcPlt("B", F2, cells, lays2)
            [] rel = "shifted" -> \E lays2 \in LaysFor(nl, nbs) :
                                    in2 = ShiftBox(SrcPlt("B", F2, cells, lays2), 1, nbs[1])
            \* the second input lists the boxes of its first level in another order: box k of one is not box k of the other
            [] rel = "reordered" -> /\ nbs[1] >= 2
                                    /\ \E lays2 \in LaysFor(nl, nbs) : in2 = SwapHeader(SrcPlt("B", F2, cells, lays2), 1)
            [] rel = "fewer_boxes" ->
                 /\ nbs[1] >= 2
                 /\ LET nbs2 == [nbs EXCEPT ![1] = @ - 1] IN
                    \E lays2 \in LaysFor(nl, nbs2) :
                       in2 = SrcPlt("B", F2, [l \in 1..nl |-> CellsOf(nbs2[l])], lays2)
            [] rel = "fewer_levels" ->
                 /\ nl >= 2
                 /\ \E lays2 \in LaysFor(nl - 1, [l \in 1..(nl - 1) |-> nbs[l]]) :
                       in2 = SrcPlt("B", F2, [l \in 1..(nl - 1) |-> cells[l]], lays2)
  /\ v1 \in VarChoices1 /\ v2 \in VarChoices2
  /\ (rel # "same" => v1 = None /\ v2 = None)
  /\ pc = "start" /\ mode = "none" /\ sel = [f1 |-> <<>>, f2 |-> <<>>] /\ lv = 0
  /\ tasks = <<>> /\ call = NoCall /\ res = <<>> /\ out = NoOut /\ sched = <<>> /\ outcome = "none"

Spec == Init /\ [][Next]_vvars /\ WF_vvars(Next)

OutPlt == [fields |-> out.fields,
           lev |-> [l \in DOMAIN out.lev |-> [idx |-> out.lev[l].idx, fod |-> out.lev[l].fod,
                                              mm |-> out.lev[l].mm, files |-> out.lev[l].files]]]
Expected == CombineSpec(Content(in1), Content(in2), v1, v2)

CombineRefines == pc = "done" =>
   IF Expected = Refused THEN outcome = "refused"
   ELSE /\ outcome = "ok" /\ PltWF(OutPlt)
        /\ Content(OutPlt).fields = Expected.fields
        /\ Content(OutPlt).lev = Expected.lev
\* refusal happens before anything is written
RefusedWritesNothing == outcome = "refused" => out = NoOut
NoSharedWrites == pc = "pool" => \A j, k \in DOMAIN tasks : j # k => tasks[j].file # tasks[k].file
InputsUnchanged == [][in1' = in1 /\ in2' = in2]_vvars
PoolOK == CallOK(call, W)
Terminates == <>(pc = "done")
=============================================================================
