------------------------------- MODULE PoolEnv -------------------------------
(***************************************************************************)
(* What a pool's worker processes know about the caller's environment.     *)
(*                                                                         *)
(* Workers are forked when the pool is CREATED and keep the working        *)
(* directory (and every module-level value) of that moment; only the task  *)
(* arguments travel at submission time.  A tool that creates its pool for  *)
(* each call (the code) therefore resolves a relative path in its workers  *)
(* exactly as the caller does; a pool kept for the life of the process     *)
(* resolves it against the directory the process was in when the FIRST     *)
(* selection was made.  (Sequential library: the calls are the steps; the  *)
(* schedule plays no role here -- see Pool.tla / PoolLife.tla for that.)   *)
(*                                                                         *)
(* PoolPolicy = "per-call"    a pool per selection (the code)              *)
(*            = "persistent"  one lazily created module-level pool         *)
(***************************************************************************)
EXTENDS Naturals, Sequences, FiniteSets, TLC, Json

CONSTANTS Dirs,         \* directories the process may be in; each holds a plotfile under the same relative name
          PoolPolicy,
          MaxSteps

VARIABLES cwd, forkCwd, answers, steps
vars == <<cwd, forkCwd, answers, steps>>

NoPool == "none"
Init == cwd \in Dirs /\ forkCwd = NoPool /\ answers = <<>> /\ steps = 0

Chdir(d) == /\ steps < MaxSteps /\ d # cwd
            /\ cwd' = d /\ steps' = steps + 1 /\ UNCHANGED forkCwd
            /\ answers' = Append(answers, [op |-> "cd", asked |-> d, headers |-> d, data |-> d])

\* a multi-box selection on the plotfile opened under its relative name: the parent reads the headers (its own cwd), the
\* workers open the binary files (their cwd)
Select ==
  /\ steps < MaxSteps
  /\ LET f == IF PoolPolicy = "per-call" \/ forkCwd = NoPool THEN cwd ELSE forkCwd
     IN /\ forkCwd' = IF PoolPolicy = "per-call" THEN NoPool ELSE f
        /\ answers' = Append(answers, [op |-> "select", asked |-> cwd, headers |-> cwd, data |-> f])
  /\ steps' = steps + 1 /\ UNCHANGED cwd

\* a single box is read in the calling process, pool or not
SelectOne ==
  /\ steps < MaxSteps
  /\ answers' = Append(answers, [op |-> "select-one", asked |-> cwd, headers |-> cwd, data |-> cwd])
  /\ steps' = steps + 1 /\ UNCHANGED <<cwd, forkCwd>>

Next == (\E d \in Dirs : Chdir(d)) \/ Select \/ SelectOne
Spec == Init /\ [][Next]_vars

\* every answer holds the data of the plotfile that the relative name denoted when the selection was made
DataOfTheNamedPlotfile == \A i \in DOMAIN answers : answers[i].data = answers[i].asked /\ answers[i].headers = answers[i].asked

\* complete behaviours, for replay against the real reader (harness: checks/c01.py env_phase)
Scenario == [prop |-> "PoolEnv", sig |-> <<Len(SelectSeq(answers, LAMBDA a : a.op = "cd")), Len(SelectSeq(answers, LAMBDA a : a.op = "select")),
                                           IF \E i, j \in DOMAIN answers : i < j /\ answers[i].op = "select" /\ answers[j].op = "select" /\ answers[i].asked # answers[j].asked
                                           THEN "selections-in-two-directories" ELSE "one-directory">>,
             start |-> answers[1].asked, ops |-> answers]
Emit == (steps = MaxSteps /\ answers[1].op # "cd") => PrintT(ToJson(Scenario))
=============================================================================
