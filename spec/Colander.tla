------------------------------ MODULE Colander ------------------------------
(***************************************************************************)
(* colander: strain a plotfile to a list of variables and a level limit.   *)
(*                                                                         *)
(* Requirement layer:  StrainSpec(Content(in), vars, L).                   *)
(* Implementation layer (mirrors colander.py): MkTree; per level one pool  *)
(* task per unique binary file (sorted names) carrying that file's boxes   *)
(* in HEADER order; a task writes the kept components of those boxes in    *)
(* that order and returns the new offsets; the parent zips the task list   *)
(* with the map() result, rewrites the level header, and finally the       *)
(* global header.                                                          *)
(***************************************************************************)
EXTENDS Plotfile, Pool

CONSTANTS
  Names,        \* sequence of field names of the input, e.g. <<"a","b","c">>
  MaxLev,       \* number of levels of the input is 1..MaxLev
  MaxBox,       \* boxes per level 1..MaxBox
  MaxFile,      \* binary files per level 1..MaxFile
  MaxVars,      \* longest variable list
  W,            \* pool workers
  SchedMode,    \* "fifo": one schedule (tasks finish in submission order); "all": every interleaving
  Gather        \* "by_task" (the code) | "by_arrival" (mutant: zip with completion order)

VARIABLES inp, cells, vars, lim, pc, lv, tasks, call, res, out, sched

vvars == <<inp, cells, vars, lim, pc, lv, tasks, call, res, out, sched>>

NF == Len(Names)
ClassPattern == <<1, 2, 1, 2, 2, 1>>
CellsOf(nb) == [b \in 1..nb |-> ClassPattern[b] + 1]

\* ordered non-empty duplicate-free lists over the known names and one unknown name
Cand == Rng(Names) \cup {"zz"}
VarLists == {<<"all">>} \cup
            {s \in UNION {[1..n -> Cand] : n \in 1..MaxVars} :
                /\ \A i, j \in DOMAIN s : i # j => s[i] # s[j]
                /\ \E i \in DOMAIN s : s[i] \in Rng(Names)}

-----------------------------------------------------------------------------
(* Requirement layer *)
KeptNames(fields, vs) == IF vs = <<"all">> THEN fields ELSE SelectSeq(vs, LAMBDA v : v \in Rng(fields))
StrainSpec(C, vs, L) ==
  LET names == KeptNames(C.fields, vs)
      cols  == [i \in DOMAIN names |-> PosIn(C.fields, names[i])]
  IN [fields |-> names,
      lev |-> [l \in 1..(L + 1) |->
                 [b \in DOMAIN C.lev[l] |->
                    [idx |-> C.lev[l][b].idx,
                     comps |-> Pick(C.lev[l][b].comps, cols),
                     mm |-> Pick(C.lev[l][b].mm, cols)]]]]

-----------------------------------------------------------------------------
(* Implementation layer *)
NoOut == [fields |-> <<>>, hdr |-> FALSE, lev |-> <<>>]
KeptCols == LET names == KeptNames(inp.fields, vars)
            IN [i \in DOMAIN names |-> PosIn(inp.fields, names[i])]

Init ==
  /\ \E nl \in 1..MaxLev :
       \E nbs \in [1..nl -> 1..MaxBox] :
         \E lays \in [1..nl -> UNION {Layouts(n, MaxFile) : n \in 1..MaxBox}] :
            /\ \A l \in 1..nl : Len(lays[l].file) = nbs[l]
            /\ cells = [l \in 1..nl |-> CellsOf(nbs[l])]
            /\ inp = SrcPlt("A", Names, cells, lays)
            /\ lim \in 0..(nl - 1)
  /\ vars \in VarLists
  /\ pc = "start" /\ lv = 0 /\ tasks = <<>> /\ call = NoCall /\ res = <<>>
  /\ out = NoOut /\ sched = <<>>

\* make_dir_tree: directories only
MkTree ==
  /\ pc = "start"
  /\ out' = [out EXCEPT !.lev = [l \in 1..(lim + 1) |-> [files |-> <<>>, cellh |-> FALSE]]]
  /\ pc' = "submit" /\ lv' = 0
  /\ UNCHANGED <<inp, cells, vars, lim, tasks, call, res, sched>>

\* one task per unique file, boxes of the file in header order
SubmitLevel ==
  /\ pc = "submit"
  /\ LET L == inp.lev[lv + 1]
         fs == UniqueFiles(L)
     IN /\ tasks' = [k \in DOMAIN fs |-> [file |-> fs[k], boxes |-> BoxesOfFile(L, fs[k])]]
        /\ call' = NewCall("map", Len(fs))
        /\ res' = [k \in DOMAIN fs |-> <<>>]
  /\ pc' = "pool"
  /\ UNCHANGED <<inp, cells, vars, lim, lv, out, sched>>

Start(k) ==
  /\ pc = "pool" /\ CanStart(call, k, W)
  /\ (SchedMode = "fifo" => \A j \in 1..(k - 1) : call.st[j] # "pend")
  /\ call' = DoStart(call, k)
  /\ UNCHANGED <<inp, cells, vars, lim, pc, lv, tasks, res, out, sched>>

\* the worker: seek to each box's recorded offset, copy kept components, in task (header) order
Finish(k) ==
  /\ pc = "pool" /\ CanFinish(call, k)
  /\ (SchedMode = "fifo" => \A j \in 1..(k - 1) : call.st[j] = "done")
  /\ LET L == inp.lev[lv + 1]
         t == tasks[k]
         rd(b) == FabAt(L.files[t.file], L.fod[b].off)
         wfabs == [j \in DOMAIN t.boxes |->
                     LET fab == rd(t.boxes[j])
                     IN Fab(fab.idx, fab.cells, Pick(fab.comps, KeptCols))]
     IN /\ out' = [out EXCEPT !.lev[lv + 1].files = @ @@ (t.file :> wfabs)]
        /\ res' = [res EXCEPT ![k] = [j \in DOMAIN wfabs |-> StartOf(wfabs, j)]]
  /\ call' = DoFinish(call, k)
  /\ sched' = Append(sched, k)
  /\ UNCHANGED <<inp, cells, vars, lim, pc, lv, tasks>>

\* pool.map returns; offsets are mapped back to header order; Cell_H is rewritten
GatherAndWriteCellH ==
  /\ pc = "pool" /\ AllDone(call)
  /\ LET L == inp.lev[lv + 1]
         \* the list of per-task results as the parent sees it
         seen == IF Gather = "by_task" THEN res ELSE [i \in DOMAIN call.fin |-> res[call.fin[i]]]
         offOf(b) == LET k == CHOOSE k \in DOMAIN tasks : b \in Rng(tasks[k].boxes)
                         j == PosIn(tasks[k].boxes, b)
                     IN IF j \in DOMAIN seen[k] THEN seen[k][j] ELSE 999   \* numpy would raise on the shape mismatch
     IN out' = [out EXCEPT !.lev[lv + 1] =
                  [files |-> @.files, cellh |-> TRUE, idx |-> L.idx,
                   fod |-> [b \in DOMAIN L.idx |-> [file |-> L.fod[b].file, off |-> offOf(b)]],
                   mm  |-> [b \in DOMAIN L.idx |-> Pick(L.mm[b], KeptCols)]]]
  /\ call' = NoCall /\ tasks' = <<>> /\ res' = <<>>
  /\ IF lv < lim THEN lv' = lv + 1 /\ pc' = "submit" ELSE lv' = lv /\ pc' = "header"
  /\ UNCHANGED <<inp, cells, vars, lim, sched>>

WriteHeader ==
  /\ pc = "header"
  /\ out' = [out EXCEPT !.hdr = TRUE, !.fields = KeptNames(inp.fields, vars)]
  /\ pc' = "done"
  /\ UNCHANGED <<inp, cells, vars, lim, lv, tasks, call, res, sched>>

Next == MkTree \/ SubmitLevel \/ (\E k \in 1..MaxFile : Start(k) \/ Finish(k))
        \/ GatherAndWriteCellH \/ WriteHeader

Spec == Init /\ [][Next]_vvars /\ WF_vvars(Next)

-----------------------------------------------------------------------------
(* Properties *)
OutPlt == [fields |-> out.fields,
           lev |-> [l \in DOMAIN out.lev |-> [idx |-> out.lev[l].idx, fod |-> out.lev[l].fod,
                                              mm |-> out.lev[l].mm, files |-> out.lev[l].files]]]

StrainRefines == pc = "done" =>
   /\ PltWF(OutPlt)
   /\ Content(OutPlt) = StrainSpec(Content(inp), vars, lim)

\* no two tasks of one level ever write the same file; input never changes
NoSharedWrites == pc = "pool" => \A j, k \in DOMAIN tasks : j # k => tasks[j].file # tasks[k].file
InputUnchanged == [][inp' = inp]_vvars
PoolOK == CallOK(call, W)
Terminates == <>(pc = "done")

=============================================================================
