------------------------------- MODULE MenuOpts -------------------------------
(***************************************************************************)
(* menu: which displays an option set asks for (C18).                      *)
(*                                                                         *)
(* Options: min_max, finest_lv (the min/max table), has_var (the search),  *)
(* description, every (the described list).  Each group of options asks    *)
(* for ITS display; the plain list of fields and species is shown only     *)
(* when no option is given.  Requirement: every display asked for is shown.*)
(* Dispatch = "independent" (the code: one `if` per display)               *)
(*          = "first-only"  (mutant: an if / elif chain)                   *)
(***************************************************************************)
EXTENDS Naturals, FiniteSets, Sequences, TLC, Json

CONSTANT Dispatch
Options == {"min_max", "finest_lv", "has_var", "description", "every"}
VARIABLES opts, shown, pc
vvars == <<opts, shown, pc>>

Wants(o) == (IF o \cap {"min_max", "finest_lv"} # {} THEN {"table"} ELSE {})
       \cup (IF "has_var" \in o THEN {"search"} ELSE {})
       \cup (IF o \cap {"description", "every"} # {} THEN {"described-list"} ELSE {})
Required(o) == IF Wants(o) = {} THEN {"plain-list"} ELSE Wants(o)

Init == opts \in SUBSET Options /\ shown = {} /\ pc = "menu"
Menu ==
  /\ pc = "menu"
  /\ shown' = IF Wants(opts) = {} THEN {"plain-list"}
              ELSE IF Dispatch = "independent" THEN Wants(opts)
              ELSE {CHOOSE d \in Wants(opts) : \A e \in Wants(opts) : (d = "table") \/ (d = "search" /\ e # "table") \/ (d = e)}
  /\ pc' = "done" /\ UNCHANGED opts
Next == Menu
Spec == Init /\ [][Next]_vvars

EveryDisplayShown == pc = "done" => shown = Required(opts)
Emit == pc = "done" => PrintT(ToJson([opts |-> opts, required |-> Required(opts)]))
=============================================================================
