-------------------------------- MODULE Mesh --------------------------------
(***************************************************************************)
(* Adaptive meshes on an integer lattice, two lattice axes (the harness    *)
(* extrudes along the third axis and assigns the lattice axes to x, y, z). *)
(*                                                                         *)
(* A box of level l is [lo |-> <<a, b>>, hi |-> <<c, d>>] in the index     *)
(* space of level l (cells of level l are half as wide as those of l-1).   *)
(* A mesh is a sequence (level 0 first) of sequences of boxes.             *)
(***************************************************************************)
EXTENDS Naturals, Integers, Sequences, FiniteSets, TLC

Rng(s) == {s[i] : i \in DOMAIN s}
Pow2(n) == IF n = 0 THEN 1 ELSE IF n = 1 THEN 2 ELSE IF n = 2 THEN 4 ELSE IF n = 3 THEN 8 ELSE 16

Box(a, b, c, d) == [lo |-> <<a, b>>, hi |-> <<c, d>>]
InBox(bx, c) == bx.lo[1] <= c[1] /\ c[1] <= bx.hi[1] /\ bx.lo[2] <= c[2] /\ c[2] <= bx.hi[2]
Disjoint(b1, b2) == b1.hi[1] < b2.lo[1] \/ b2.hi[1] < b1.lo[1] \/ b1.hi[2] < b2.lo[2] \/ b2.hi[2] < b1.lo[2]
CellsOf(bx) == {<<i, j>> : i \in bx.lo[1]..bx.hi[1], j \in bx.lo[2]..bx.hi[2]}
Extent(bx, d) == bx.hi[d] - bx.lo[d] + 1

\* cell c of level l seen from level k <= l (its ancestor)
Ancestor(c, l, k) == <<c[1] \div Pow2(l - k), c[2] \div Pow2(l - k)>>
\* box of level l (1-based position in M[l+1]) containing cell c, 0 if none
BoxAt(M, l, c) == IF \E b \in DOMAIN M[l + 1] : InBox(M[l + 1][b], c)
                  THEN CHOOSE b \in DOMAIN M[l + 1] : InBox(M[l + 1][b], c) ELSE 0
Covered(M, l, c) == BoxAt(M, l, c) # 0

\* level-0 tilings of an N1 x N2 domain: optional cut along each axis
Tilings(N1, N2) ==
  {LET xs == IF c1 = 0 THEN <<<<0, N1 - 1>>>> ELSE <<<<0, c1 - 1>>, <<c1, N1 - 1>>>>
       ys == IF c2 = 0 THEN <<<<0, N2 - 1>>>> ELSE <<<<0, c2 - 1>>, <<c2, N2 - 1>>>>
   IN [k \in 1..(Len(xs) * Len(ys)) |->
         LET i == ((k - 1) % Len(xs)) + 1
             j == ((k - 1) \div Len(xs)) + 1
         IN Box(xs[i][1], ys[j][1], xs[i][2], ys[j][2])]
   : c1 \in 0..(N1 - 1), c2 \in 0..(N2 - 1)}

\* candidate boxes of a finer level: aligned to the refinement ratio (even lo, odd hi),
\* every cell's parent covered by the coarser level
Aligned(bx) == bx.lo[1] % 2 = 0 /\ bx.lo[2] % 2 = 0 /\ bx.hi[1] % 2 = 1 /\ bx.hi[2] % 2 = 1
NestedIn(bx, M, l) == \A c \in CellsOf(bx) : Covered(M, l - 1, Ancestor(c, l, l - 1))
FineBoxes(M, l, D1, D2, Sizes1, Sizes2) ==
  {bx \in {Box(a, b, a + s1 - 1, b + s2 - 1) : a \in 0..(D1 - 1), b \in 0..(D2 - 1), s1 \in Sizes1, s2 \in Sizes2} :
      bx.hi[1] < D1 /\ bx.hi[2] < D2 /\ Aligned(bx) /\ NestedIn(bx, M, l)}
\* sets of at most two pairwise disjoint candidate boxes, as sequences ordered lexicographically
BoxLess(b1, b2) == b1.lo[1] < b2.lo[1] \/ (b1.lo[1] = b2.lo[1] /\ b1.lo[2] < b2.lo[2])
FineLevels(cands, maxb) ==
  {<<b>> : b \in cands} \cup
  (IF maxb >= 2 THEN {<<p[1], p[2]>> : p \in {q \in cands \X cands : Disjoint(q[1], q[2]) /\ BoxLess(q[1], q[2])}}
   ELSE {})

(***************************************************************************)
(* Covering: the finest level <= L that has a box over a pixel of level L  *)
(***************************************************************************)
CoverLevel(M, L, p) ==
  CHOOSE l \in 0..L : Covered(M, l, Ancestor(p, L, l)) /\ \A k \in (l + 1)..L : ~Covered(M, k, Ancestor(p, L, k))
\* <<level, cell of that level>> whose stored value the pixel must show
CoverSpec(M, L, p) == LET l == CoverLevel(M, L, p) IN <<l, Ancestor(p, L, l)>>
Pixels(N1, N2, L) == {<<i, j>> : i \in 0..(N1 * Pow2(L) - 1), j \in 0..(N2 * Pow2(L) - 1)}

\* every level-0 cell is covered (level 0 tiles the domain)
BaseCovers(M, N1, N2) == \A c \in {<<i, j>> : i \in 0..(N1 - 1), j \in 0..(N2 - 1)} : Covered(M, 0, c)

(***************************************************************************)
(* Integration: cells of levels 0..L not covered by the next selected level*)
(***************************************************************************)
Children(c) == {<<2 * c[1] + a, 2 * c[2] + b>> : a \in {0, 1}, b \in {0, 1}}
CoveredByFiner(M, l, c, L) == l < L /\ \A ch \in Children(c) : Covered(M, l + 1, ch)
LevelCells(M, l) == UNION {CellsOf(M[l + 1][b]) : b \in DOMAIN M[l + 1]}
IntegralCells(M, L) == UNION {{<<l, c>> : c \in {c2 \in LevelCells(M, l) : ~CoveredByFiner(M, l, c2, L)}} : l \in 0..L}
\* the level-L pixels under a cell of level l
Footprint(l, c, L) == {<<i, j>> : i \in (c[1] * Pow2(L - l))..((c[1] + 1) * Pow2(L - l) - 1),
                                 j \in (c[2] * Pow2(L - l))..((c[2] + 1) * Pow2(L - l) - 1)}
=============================================================================
