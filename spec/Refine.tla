------------------------------- MODULE Refine -------------------------------
(***************************************************************************)
(* The level hierarchy's GEOMETRY as the global header states it, with the *)
(* refinement ratio between consecutive levels as data (AMReX allows 2 and *)
(* 4 per level jump, and different ratios in one hierarchy).               *)
(*                                                                         *)
(* Everything is one-dimensional and integer: lengths are measured in      *)
(* cells of the finest level the ratio list can describe, so the cell size *)
(* of level l is  U / Fac(rs, l)  with  U = Fac(rs, Len(rs)).              *)
(*                                                                         *)
(* Requirement layer: Fac (the PRODUCT of the ratios below a level),       *)
(* HierarchyOk, CellOf.  Implementation layer: the consumers of the        *)
(* hierarchy as the code has them -- the validator's rule on level         *)
(* resolutions (taste has none) and the point -> cell index conversion of  *)
(* the point query (the level's OWN stated cell size) -- with the          *)
(* plausible alternatives as constants that TLC refutes.                   *)
(***************************************************************************)
EXTENDS Naturals, Integers, Sequences, TLC

CONSTANTS
  ResolutionRule,   \* "none" (the code: taste states nothing about level resolutions) | "product" (a sound rule) |
                    \* "power-of-last" (mutant: dx[l] = dx[0] / ratio[l-1]^l) | "two" (mutant: dx[l] = dx[0] / 2^l)
  IndexRule         \* "own-dx" (the code: x / dx[l]) | "pow2-of-level0" (mutant: (x / dx[0]) * 2^l)

RatioSet == {2, 4}
RECURSIVE Fac(_, _)
Fac(rs, l) == IF l = 0 THEN 1 ELSE rs[l] * Fac(rs, l - 1)
RECURSIVE Pow(_, _)
Pow(b, e) == IF e = 0 THEN 1 ELSE b * Pow(b, e - 1)

\* a header: ratios rs (one per level jump), level-0 cell count n0, stated cell sizes dx[l+1] and domain sizes dom[l+1] of levels 0..Len(rs)
Unit(rs) == Fac(rs, Len(rs))
StatedDx(rs) == [k \in 1..(Len(rs) + 1) |-> Unit(rs) \div Fac(rs, k - 1)]
StatedDom(rs, n0) == [k \in 1..(Len(rs) + 1) |-> n0 * Fac(rs, k - 1)]

(* ---- requirement ---- *)
HierarchyOk(rs, dx, dom) ==
  \A l \in 0..Len(rs) : dx[l + 1] * Fac(rs, l) = dx[1] /\ dom[l + 1] = dom[1] * Fac(rs, l)
\* the cell of level l that holds position x (x in units of the finest cell, inside the domain)
CellOf(dx, l, x) == x \div dx[l + 1]
\* centre of cell c of level l, doubled so that it stays an integer
Centre2(dx, l, c) == 2 * c * dx[l + 1] + dx[l + 1]

(* ---- implementation: the validator's resolution rule ---- *)
ImplFac(rule, rs, l) == CASE rule = "product" -> Fac(rs, l)
                          [] rule = "power-of-last" -> IF l = 0 THEN 1 ELSE Pow(rs[l], l)
                          [] rule = "two" -> Pow(2, l)
ValidatorAccepts(rs, dx, lim) ==
  ResolutionRule = "none" \/ \A l \in 1..lim : dx[l + 1] * ImplFac(ResolutionRule, rs, l) = dx[1]

(* ---- implementation: point -> cell index at level l (x2 = twice the position) ---- *)
ImplCell(rs, dx, l, x2) ==
  IF IndexRule = "own-dx" THEN x2 \div (2 * dx[l + 1])
  ELSE (x2 * Pow(2, l)) \div (2 * dx[1])
=============================================================================
