--------------------------------- MODULE Cli ---------------------------------
(***************************************************************************)
(* The command line layer: what reaches a tool's API for every set of      *)
(* options a user may give.                                                *)
(*                                                                         *)
(* Requirement layer -- Meant(tool, given): for every API parameter, the   *)
(* value the options given stand for (read off the help texts), or the     *)
(* API's documented default when the option is absent.                     *)
(* Implementation layer -- the argparse definitions (destination, action,  *)
(* default) and the keyword wiring of each main(), as coded:               *)
(* Wired(tool, Namespace(tool, given)).                                    *)
(* TLC checks Wired = Meant for EVERY subset of every tool's options and   *)
(* emits each (tool, options) with the keyword record expected; the        *)
(* harness runs the real main() with that argv, intercepts the API call    *)
(* and compares the keywords that arrive.                                  *)
(*                                                                         *)
(* Values are symbolic: "V:<flag>" is "the value typed after <flag>,       *)
(* converted as documented" (the harness holds the concrete text and the   *)
(* converted value), "None" / "True" / "False" are python's.               *)
(*                                                                         *)
(* Deliberate statements of fact about the present CLI (they are what the  *)
(* help texts say once read literally, and what the code does):            *)
(*  - chk2plt --include_gradp and --floor_massfracs SWITCH OFF what their  *)
(*    names say (store_false on defaults that are on);                     *)
(*  - colander --serial and combine --serial are accepted and reach        *)
(*    nothing (kind "dead"); chef has no serial switch (always parallel).  *)
(***************************************************************************)
EXTENDS Naturals, Sequences, FiniteSets, TLC

CONSTANTS SpeciesType     \* "str" (repaired code) | "int" (mutant = original code: chk2plt -s cannot take a species name)

\* ---- requirement: option -> [param, kind, ...]
\*   kind "value": the parameter gets the typed value; "on": TRUE; "off": FALSE; "dead": reaches nothing
O(flag, param, kind) == [flag |-> flag, param |-> param, kind |-> kind]
Options == [
  colander  |-> {O("-v", "variables", "value"), O("-l", "limit_level", "value"), O("-o", "output", "value"), O("-s", "", "dead")},
  taste     |-> {O("-l", "limit_level", "value"), O("-nh", "binary_headers", "off"), O("-ns", "binary_shape", "off"),
                 O("-bd", "binary_data", "on"), O("-bc", "boxes_coordinates", "on"), O("-nf", "nofail", "on"), O("-v", "verbose", "value")},
  combine   |-> {O("-v1", "vars1", "value"), O("-v2", "vars2", "value"), O("-o", "pltout", "value"), O("-s", "", "dead")},
  chef      |-> {O("-o", "outfile", "value"), O("-r", "recipe", "value"), O("-s", "species", "value"), O("-R", "reactions", "value"),
                 O("-m", "mech", "value"), O("-p", "pressure", "value"), O("-k", "kept_fields", "value")},
  mandoline |-> {O("-n", "normal", "value"), O("-p", "pos", "value"), O("-v", "fields", "value"), O("-L", "limit_level", "value"),
                 O("-s", "serial", "on"), O("-f", "fformat", "value"), O("-o", "outfile", "value"), O("-c", "cmap", "value"),
                 O("-m", "vmin", "value"), O("-M", "vmax", "value"), O("-l", "uselog", "on"), O("-V", "verbose", "value")},
  pestle    |-> {O("-v", "field", "value"), O("-l", "limit_level", "value"), O("-vf", "use_volfrac", "on")},
  menu      |-> {O("-hv", "has_var", "value"), O("-e", "every", "on"), O("-d", "description", "on"), O("-m", "min_max", "on"),
                 O("-f", "finest_lv", "on")},
  chk2plt   |-> {O("-p", "target_plotfile", "value"), O("-s", "species", "value"), O("-ip", "gradp", "off"), O("-ir", "species_reactions", "on"),
                 O("-f", "floor_massfracs", "off"), O("-o", "pltdir", "value")}]
Tools == DOMAIN Options

\* what the API receives for a parameter whose option is absent
Absent == [
  colander  |-> [variables |-> "None", limit_level |-> "None", output |-> "None"],
  taste     |-> [limit_level |-> "None", binary_headers |-> "True", binary_shape |-> "True", binary_data |-> "False",
                 boxes_coordinates |-> "False", nofail |-> "False", verbose |-> "None"],
  combine   |-> [vars1 |-> "None", vars2 |-> "None", pltout |-> "None"],
  chef      |-> [outfile |-> "None", recipe |-> "None", species |-> "None", reactions |-> "None", mech |-> "None",
                 pressure |-> "None", kept_fields |-> "None", serial |-> "False"],
  mandoline |-> [normal |-> "None", pos |-> "None", fields |-> "None", limit_level |-> "None", serial |-> "False",
                 fformat |-> "image", outfile |-> "None", cmap |-> "None", vmin |-> "None", vmax |-> "None", uselog |-> "False",
                 verbose |-> "None"],
  pestle    |-> [field |-> "None", limit_level |-> "None", use_volfrac |-> "False"],
  menu      |-> [has_var |-> "None", every |-> "False", description |-> "False", min_max |-> "False", finest_lv |-> "False"],
  chk2plt   |-> [target_plotfile |-> "None", species |-> "None", gradp |-> "True", species_reactions |-> "False", floor_massfracs |-> "True",
                 pltdir |-> "None"]]

Val(flag) == "V:" \o flag
Meant(tool, given) ==
  [p \in DOMAIN Absent[tool] |->
     IF \E o \in given : o.param = p
     THEN LET o == CHOOSE o \in given : o.param = p
          IN IF o.kind = "value" THEN Val(o.flag) ELSE IF o.kind = "on" THEN "True" ELSE "False"
     ELSE Absent[tool][p]]

-----------------------------------------------------------------------------
(* Implementation: argparse definitions  flag -> [dest, action, default, type]  and the keyword wiring of main() *)
A(flag, dest, action, default) == [flag |-> flag, dest |-> dest, action |-> action, default |-> default]
Parser == [
  colander  |-> {A("-v", "variables", "store", "None"), A("-l", "limit_level", "store", "None"), A("-s", "serial", "store_true", "False"),
                 A("-o", "output", "store", "None")},
  taste     |-> {A("-l", "limit_level", "store", "None"), A("-nh", "no_bin_headers", "store_false", "True"),
                 A("-ns", "no_bin_shape", "store_false", "True"), A("-bd", "bin_data", "store_true", "False"),
                 A("-bc", "box_coords", "store_true", "False"), A("-nf", "nofail", "store_true", "False"), A("-v", "verbose", "store", "None")},
  combine   |-> {A("-v1", "vars1", "store", "None"), A("-v2", "vars2", "store", "None"), A("-o", "output", "store", "None"),
                 A("-s", "serial", "store_true", "False")},
  chef      |-> {A("-o", "outdir", "store", "None"), A("-r", "recipe", "store", "None"), A("-s", "species", "store", "None"),
                 A("-R", "reactions", "store", "None"), A("-m", "mech", "store", "None"), A("-p", "pressure", "store", "None"),
                 A("-k", "kept_fields", "store", "None")},
  mandoline |-> {A("-n", "normal", "store", "None"), A("-p", "position", "store", "None"), A("-v", "variables", "store", "None"),
                 A("-L", "max_level", "store", "None"), A("-s", "serial", "store_true", "False"), A("-f", "format", "store", "image"),
                 A("-o", "output", "store", "None"), A("-c", "colormap", "store", "None"), A("-m", "minimum", "store", "None"),
                 A("-M", "maximum", "store", "None"), A("-l", "log", "store_true", "False"), A("-V", "verbose", "store", "None")},
  pestle    |-> {A("-v", "variable", "store", "None"), A("-l", "limit_level", "store", "None"), A("-vf", "volfrac", "store_true", "False")},
  menu      |-> {A("-hv", "has_var", "store", "None"), A("-e", "every", "store_true", "False"), A("-d", "description", "store_true", "False"),
                 A("-m", "min_max", "store_true", "False"), A("-f", "finest_lv", "store_true", "False")},
  chk2plt   |-> {A("-p", "plotfile_ref", "store", "None"), A("-s", "species", "store", "None"), A("-ip", "include_gradp", "store_false", "True"),
                 A("-ir", "include_reactions", "store_true", "False"), A("-f", "floor_massfracs", "store_false", "True"),
                 A("-o", "output", "store", "None")}]

\* argparse: the namespace for a set of flags given; a value the declared type cannot convert makes the parser exit
Convertible(tool, flag) == ~(tool = "chk2plt" /\ flag = "-s" /\ SpeciesType = "int")
Namespace(tool, flags) ==
  IF \E f \in flags : ~Convertible(tool, f) THEN [k |-> "exit"]
  ELSE [k |-> "ns",
        v |-> [d \in {a.dest : a \in Parser[tool]} |->
                 LET a == CHOOSE a \in Parser[tool] : a.dest = d
                 IN IF a.flag \in flags
                    THEN (IF a.action = "store" THEN Val(a.flag) ELSE IF a.action = "store_true" THEN "True" ELSE "False")
                    ELSE a.default]]

\* main(): API keyword <- namespace destination (constants as coded: chef is always parallel)
Wiring == [
  colander  |-> [variables |-> "variables", limit_level |-> "limit_level", output |-> "output"],
  taste     |-> [limit_level |-> "limit_level", binary_headers |-> "no_bin_headers", binary_shape |-> "no_bin_shape",
                 binary_data |-> "bin_data", boxes_coordinates |-> "box_coords", nofail |-> "nofail", verbose |-> "verbose"],
  combine   |-> [vars1 |-> "vars1", vars2 |-> "vars2", pltout |-> "output"],
  chef      |-> [outfile |-> "outdir", recipe |-> "recipe", species |-> "species", reactions |-> "reactions", mech |-> "mech",
                 pressure |-> "pressure", kept_fields |-> "kept_fields", serial |-> "=FALSE"],
  mandoline |-> [normal |-> "normal", pos |-> "position", fields |-> "variables", limit_level |-> "max_level", serial |-> "serial",
                 fformat |-> "format", outfile |-> "output", cmap |-> "colormap", vmin |-> "minimum", vmax |-> "maximum",
                 uselog |-> "log", verbose |-> "verbose"],
  pestle    |-> [field |-> "variable", limit_level |-> "limit_level", use_volfrac |-> "volfrac"],
  menu      |-> [has_var |-> "has_var", every |-> "every", description |-> "description", min_max |-> "min_max", finest_lv |-> "finest_lv"],
  chk2plt   |-> [target_plotfile |-> "plotfile_ref", species |-> "species", gradp |-> "include_gradp",
                 species_reactions |-> "include_reactions", floor_massfracs |-> "floor_massfracs", pltdir |-> "output"]]
Wired(tool, ns) == IF ns.k = "exit" THEN [k |-> "exit"]
                   ELSE [k |-> "call", kw |-> [p \in DOMAIN Wiring[tool] |-> IF Wiring[tool][p] = "=FALSE" THEN "False" ELSE ns.v[Wiring[tool][p]]]]

-----------------------------------------------------------------------------
VARIABLES tool, given, pc
vars == <<tool, given, pc>>
Init == tool \in Tools /\ given \in SUBSET Options[tool] /\ pc = "typed"
Run == pc = "typed" /\ pc' = "called" /\ UNCHANGED <<tool, given>>
Next == Run
Spec == Init /\ [][Next]_vars /\ WF_vars(Next)

Flags == {o.flag : o \in given}
CliRefines == Wired(tool, Namespace(tool, Flags)) = [k |-> "call", kw |-> Meant(tool, given)]
Terminates == <>(pc = "called")
=============================================================================
