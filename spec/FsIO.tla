-------------------------------- MODULE FsIO --------------------------------
(***************************************************************************)
(* Where tools write, and what happens when a write fails (C13).           *)
(*                                                                         *)
(* Part 1 -- path algebra.  A path is [abs, comps, trail]: absolute flag,  *)
(* sequence of components, trailing separator flag; a component is a       *)
(* sequence of SYLLABLES (so that str.replace('chk','plt') and suffixes    *)
(* are expressible).  os.path operations are defined as python does, and   *)
(* every tool's default-output rule is written with them, in the repaired  *)
(* form (Norm = TRUE: the path is normalised first) and in the original    *)
(* form (Norm = FALSE).  DefaultBeside is the invariant.                   *)
(*                                                                         *)
(* Part 2 -- a tool run as a sequence of file-system events with a fault   *)
(* that may strike any individual open-for-write / write; InputsUntouched, *)
(* WritesUnderOutput, FailureVisible.  FsTrace.tla replays recorded runs   *)
(* of the real tools through these actions.                                *)
(***************************************************************************)
EXTENDS Naturals, Sequences, FiniteSets, TLC

CONSTANTS Norm        \* TRUE: repaired code | FALSE: original code (mutant)

Rng(s) == {s[i] : i \in DOMAIN s}
Last(s) == s[Len(s)]
Front(s) == SubSeq(s, 1, Len(s) - 1)

-----------------------------------------------------------------------------
(* Part 1: paths *)
Path(abs, comps, trail) == [abs |-> abs, comps |-> comps, trail |-> trail]
\* os.path.normpath for our purposes: drop the trailing separator
Normpath(p) == [p EXCEPT !.trail = FALSE]
\* os.path.split: (head, tail); with a trailing separator the tail is empty
SplitHead(p) == IF p.trail THEN [p EXCEPT !.trail = FALSE] ELSE Path(p.abs, Front(p.comps), FALSE)
SplitTail(p) == IF p.trail THEN <<>> ELSE Last(p.comps)           \* a component (sequence of syllables)
\* os.path.join(head, component): an empty component leaves a trailing separator
Join(h, c) == IF c = <<>> THEN [h EXCEPT !.trail = TRUE] ELSE Path(h.abs, Append(h.comps, c), FALSE)
\* string concatenation on the raw path text: appends syllables to the last component, or, after a
\* trailing separator, starts a NEW component inside the directory
ConcatText(p, syl) == IF p.trail THEN Path(p.abs, Append(p.comps, syl), FALSE)
                      ELSE Path(p.abs, Append(Front(p.comps), Last(p.comps) \o syl), FALSE)
\* str.replace on one component
ReplaceSyl(c, from, to) == [i \in DOMAIN c |-> IF c[i] = from THEN to ELSE c[i]]

\* p is q or lies below q (as directories, trailing separators ignored)
Under(p, q) == /\ p.abs = q.abs /\ Len(p.comps) >= Len(q.comps)
               /\ SubSeq(p.comps, 1, Len(q.comps)) = q.comps
In(p) == IF Norm THEN Normpath(p) ELSE p

\* ---- default output rules, tool by tool ----
ChefDefault(p) == ConcatText(In(p), <<"_ck">>)                       \* plotfile + "_ck"
MarinateDefault(p) == ConcatText(In(p), <<".pkl">>)                  \* argv[1] + ".pkl"
Chk2pltDefault(p) ==
  LET q == In(p)
      base == SplitTail(q)
      repl == ReplaceSyl(base, "chk", "plt")
  IN IF Norm /\ repl = base THEN Join(SplitHead(q), base \o <<"_plt">>) ELSE Join(SplitHead(q), repl)
MandolineDefault(p) ==                                               \* os.path.join(outroot, slicename + plotnum)
  LET q == In(p) IN Join(SplitHead(q), <<"S", "x05000">> \o ReplaceSyl(SplitTail(q), "plt", "_"))
CombineDefault(p1, p2) ==                                            \* basename1 + basename2, relative to the cwd
  Path(FALSE, <<SplitTail(In(p1)) \o SplitTail(In(p2))>>, FALSE)

Syll == {"plt", "chk", "00005", "dump"}
Names == {<<"plt", "00005">>, <<"chk", "00005">>, <<"dump">>}
Dirs == {<<>>, <<<<"data">>>>, <<<<"data">>, <<"run">>>>}
InputPaths == {Path(a, d \o <<n>>, t) : a \in BOOLEAN, d \in Dirs, n \in Names, t \in BOOLEAN}

Beside(out, inp) == ~Under(out, Normpath(inp)) /\ out.comps # <<>> /\ Last(out.comps) # <<>>
DefaultBeside ==
  \A p \in InputPaths :
     /\ Beside(ChefDefault(p), p) /\ Beside(MarinateDefault(p), p)
     /\ Beside(Chk2pltDefault(p), p) /\ Beside(MandolineDefault(p), p)
     /\ \A p2 \in InputPaths : Beside(CombineDefault(p, p2), p) /\ Beside(CombineDefault(p, p2), p2)

-----------------------------------------------------------------------------
(* Part 2: a run as file-system events *)
\* roots: "in1", "in2" (inputs), "out" (requested or default output), "other"
VARIABLES pc, written, faultAt, points, faulted, outcome, inputsSame
fvars == <<pc, written, faultAt, points, faulted, outcome, inputsSame>>

NoFault == 0
FsInit(k) == /\ pc = "running" /\ written = {} /\ faultAt = k /\ points = 0 /\ faulted = FALSE
             /\ outcome = "none" /\ inputsSame = TRUE

\* a mutating event that is not a fault point (mkdir, remove, rmtree, rename)
Mutate(root, rel) ==
  /\ pc = "running"
  /\ written' = written \cup {<<root, rel>>}
  /\ UNCHANGED <<pc, faultAt, points, faulted, outcome, inputsSame>>

\* an open-for-write or a write(): a fault point; the fault strikes the faultAt-th one
WritePoint(root, rel) ==
  /\ pc = "running"
  /\ points' = points + 1
  /\ IF faultAt = points + 1
     THEN faulted' = TRUE /\ written' = written
     ELSE faulted' = faulted /\ written' = written \cup {<<root, rel>>}
  /\ UNCHANGED <<pc, faultAt, outcome, inputsSame>>

Return(how, same) ==
  /\ pc = "running"
  /\ pc' = "returned" /\ outcome' = how /\ inputsSame' = same
  /\ UNCHANGED <<written, faultAt, points, faulted>>

WritesUnderOutput == \A w \in written : w[1] = "out"
InputsUntouched == inputsSame /\ \A w \in written : w[1] \notin {"in1", "in2"}
FailureVisible == (pc = "returned" /\ faulted) => outcome = "exc"
=============================================================================
