-------------------------------- MODULE FsIO --------------------------------
(***************************************************************************)
(* Where tools write, and what happens when a write fails (C13).           *)
(*                                                                         *)
(* Part 1 -- path algebra.  A path is [abs, comps, trail]: absolute flag,  *)
(* sequence of components, trailing separator flag; a component is a       *)
(* sequence of SYLLABLES (so that str.replace('chk','plt') and suffixes    *)
(* are expressible).  os.path operations are defined as python does, and   *)
(* every tool's default-output rule is written with them, in the repaired  *)
(* form (Norm = TRUE: the path is normalised first) and in the original    *)
(* form (Norm = FALSE).  DefaultBeside is the invariant.                   *)
(*                                                                         *)
(* Part 2 -- a tool run as a sequence of file-system events with a fault   *)
(* that may strike any individual open-for-write / write; InputsUntouched, *)
(* WritesUnderOutput, FailureVisible.  FsTrace.tla replays recorded runs   *)
(* of the real tools through these actions.                                *)
(***************************************************************************)
EXTENDS Naturals, Sequences, FiniteSets, TLC

CONSTANTS Norm        \* how a tool canonicalises the path it was given before deriving a default output from it:
                      \*   "abspath"  (repaired code, second repair)  os.path.abspath: resolved against the working directory
                      \*   "normpath" (first repair)                  os.path.normpath: "." and ".." stay when nothing is left to cancel
                      \*   "none"     (original code)                 the raw text

Rng(s) == {s[i] : i \in DOMAIN s}
Last(s) == s[Len(s)]
Front(s) == SubSeq(s, 1, Len(s) - 1)

-----------------------------------------------------------------------------
(* Part 1: paths *)
Path(abs, comps, trail) == [abs |-> abs, comps |-> comps, trail |-> trail]
Dot == <<".">>
DotDot == <<"..">>
\* os.path.normpath: drop the trailing separator and "." components, cancel "x/.." pairs; leading ".." of a relative path stay,
\* "/.." is "/", and a relative path with nothing left is "."
RECURSIVE NormComps(_, _, _)
NormComps(cs, acc, abs) ==
  IF cs = <<>> THEN acc
  ELSE LET c == Head(cs) IN
       IF c = Dot THEN NormComps(Tail(cs), acc, abs)
       ELSE IF c = DotDot
            THEN (IF acc # <<>> /\ Last(acc) # DotDot THEN NormComps(Tail(cs), Front(acc), abs)
                  ELSE IF abs THEN NormComps(Tail(cs), acc, abs)
                  ELSE NormComps(Tail(cs), Append(acc, DotDot), abs))
            ELSE NormComps(Tail(cs), Append(acc, c), abs)
Normpath(p) == LET n == NormComps(p.comps, <<>>, p.abs)
               IN Path(p.abs, IF n = <<>> /\ ~p.abs THEN <<Dot>> ELSE n, FALSE)
\* os.path.abspath(p) with working directory cwd (an absolute, normalised path)
Abspath(cwd, p) == IF p.abs THEN Normpath(p) ELSE Normpath(Path(TRUE, cwd.comps \o p.comps, FALSE))
\* os.path.split: (head, tail); with a trailing separator the tail is empty
SplitHead(p) == IF p.trail THEN [p EXCEPT !.trail = FALSE] ELSE Path(p.abs, Front(p.comps), FALSE)
SplitTail(p) == IF p.trail THEN <<>> ELSE Last(p.comps)           \* a component (sequence of syllables)
\* os.path.join(head, component): an empty component leaves a trailing separator
Join(h, c) == IF c = <<>> THEN [h EXCEPT !.trail = TRUE] ELSE Path(h.abs, Append(h.comps, c), FALSE)
\* string concatenation on the raw path text: appends syllables to the last component, or, after a
\* trailing separator, starts a NEW component inside the directory
ConcatText(p, syl) == IF p.trail THEN Path(p.abs, Append(p.comps, syl), FALSE)
                      ELSE Path(p.abs, Append(Front(p.comps), Last(p.comps) \o syl), FALSE)
\* str.replace on one component
ReplaceSyl(c, from, to) == [i \in DOMAIN c |-> IF c[i] = from THEN to ELSE c[i]]

\* p is q or lies below q (both absolute and normalised)
Under(p, q) == /\ Len(p.comps) >= Len(q.comps)
               /\ SubSeq(p.comps, 1, Len(q.comps)) = q.comps
In(cwd, p) == IF Norm = "abspath" THEN Abspath(cwd, p) ELSE IF Norm = "normpath" THEN Normpath(p) ELSE p

\* ---- default output rules, tool by tool (cwd: the working directory, p: the path as typed) ----
ChefDefault(cwd, p) == ConcatText(In(cwd, p), <<"_ck">>)                  \* plotfile + "_ck"
MarinateDefault(cwd, p) == ConcatText(In(cwd, p), <<".pkl">>)             \* argv[1] + ".pkl"
Chk2pltDefault(cwd, p) ==
  LET q == In(cwd, p)
      base == SplitTail(q)
      repl == ReplaceSyl(base, "chk", "plt")
  IN IF Norm # "none" /\ repl = base THEN Join(SplitHead(q), base \o <<"_plt">>) ELSE Join(SplitHead(q), repl)
MandolineDefault(cwd, p) ==                                               \* os.path.join(outroot, slicename + plotnum)
  LET q == In(cwd, p) IN Join(SplitHead(q), <<"S", "x05000">> \o ReplaceSyl(SplitTail(q), "plt", "_"))
CombineDefault(cwd, p1, p2) ==                                            \* basename1 + basename2, relative to the cwd
  Path(FALSE, <<SplitTail(In(cwd, p1)) \o SplitTail(In(cwd, p2))>>, FALSE)

\* ---- invocation forms: (working directory, path as typed) ----
Syll == {"plt", "chk", "00005", "dump"}
Names == {<<"plt", "00005">>, <<"chk", "00005">>, <<"dump">>}
\* directories below the work root; one has a name containing the substrings the rules replace
Dirs == {<<>>, <<<<"data">>>>, <<<<"data">>, <<"run">>>>, <<<<"plt", "chk", "runs">>>>}
Root == Path(TRUE, <<<<"w">>>>, FALSE)
Form(cwd, p) == [cwd |-> cwd, p |-> p]
InputForms ==
     \* as typed from the work root: relative, absolute, with and without a trailing separator
     {Form(Root, Path(FALSE, d \o <<n>>, t)) : d \in Dirs, n \in Names, t \in BOOLEAN}
\cup {Form(Root, Path(TRUE, Root.comps \o d \o <<n>>, t)) : d \in Dirs, n \in Names, t \in BOOLEAN}
     \* "./x", "res/../x"
\cup {Form(Root, Path(FALSE, <<Dot>> \o d \o <<n>>, t)) : d \in Dirs, n \in Names, t \in BOOLEAN}
\cup {Form(Root, Path(FALSE, <<<<"res">>, DotDot>> \o d \o <<n>>, t)) : d \in Dirs, n \in Names, t \in BOOLEAN}
     \* from inside the directory: ".", and ".." from one of its level directories
\cup {Form(Path(TRUE, Root.comps \o d \o <<n>>, FALSE), Path(FALSE, <<Dot>>, t)) : d \in Dirs, n \in Names, t \in BOOLEAN}
\cup {Form(Path(TRUE, Root.comps \o d \o <<n, <<"L0">>>>, FALSE), Path(FALSE, <<DotDot>>, t)) : d \in Dirs, n \in Names, t \in BOOLEAN}
Where(f) == Abspath(f.cwd, f.p)                        \* the directory the form names

\* `out` (as a tool computes it, relative or absolute) names something beside, not inside, the input of form f
Beside(out, f) == LET o == Abspath(f.cwd, out) IN
                  /\ ~Under(o, Where(f)) /\ o.comps # <<>> /\ Last(o.comps) \notin {<<>>, Dot, DotDot}
CwdInside(f) == Under(f.cwd, Where(f))
DefaultBeside ==
  \A f \in InputForms :
     /\ Beside(ChefDefault(f.cwd, f.p), f) /\ Beside(MarinateDefault(f.cwd, f.p), f)
     /\ Beside(Chk2pltDefault(f.cwd, f.p), f) /\ Beside(MandolineDefault(f.cwd, f.p), f)
     \* combine's documented default is relative to the working directory: a working directory inside an input is outside the
     \* statement (the documented default itself would then be inside that input)
     /\ \A f2 \in {g \in InputForms : g.cwd = f.cwd} : ~CwdInside(f) /\ ~CwdInside(f2) =>
            /\ Beside(CombineDefault(f.cwd, f.p, f2.p), f) /\ Beside(CombineDefault(f.cwd, f.p, f2.p), f2)

-----------------------------------------------------------------------------
(* Part 2: a run as file-system events *)
\* roots: "in1", "in2" (inputs), "out" (requested or default output), "other"
VARIABLES pc, written, faultAt, points, faulted, outcome, inputsSame
fvars == <<pc, written, faultAt, points, faulted, outcome, inputsSame>>

NoFault == 0
FsInit(k) == /\ pc = "running" /\ written = {} /\ faultAt = k /\ points = 0 /\ faulted = FALSE
             /\ outcome = "none" /\ inputsSame = TRUE

\* a mutating event that is not a fault point (mkdir, remove, rmtree, rename)
Mutate(root, rel) ==
  /\ pc = "running"
  /\ written' = written \cup {<<root, rel>>}
  /\ UNCHANGED <<pc, faultAt, points, faulted, outcome, inputsSame>>

\* an open-for-write or a write(): a fault point; the fault strikes the faultAt-th one
WritePoint(root, rel) ==
  /\ pc = "running"
  /\ points' = points + 1
  /\ IF faultAt = points + 1
     THEN faulted' = TRUE /\ written' = written
     ELSE faulted' = faulted /\ written' = written \cup {<<root, rel>>}
  /\ UNCHANGED <<pc, faultAt, outcome, inputsSame>>

Return(how, same) ==
  /\ pc = "running"
  /\ pc' = "returned" /\ outcome' = how /\ inputsSame' = same
  /\ UNCHANGED <<written, faultAt, points, faulted>>

WritesUnderOutput == \A w \in written : w[1] = "out"
InputsUntouched == inputsSame /\ \A w \in written : w[1] \notin {"in1", "in2"}
FailureVisible == (pc = "returned" /\ faulted) => outcome = "exc"
\* a run that was asked something it cannot honour -- an unknown field, an input it cannot read (a binary file cut short inside
\* data it needs, a missing binary file or level header, a global header cut short) -- does not return normally
RequestRefused(doomed) == (pc = "returned" /\ doomed) => outcome = "exc"
=============================================================================
