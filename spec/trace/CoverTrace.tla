----------------------------- MODULE CoverTrace -----------------------------
(***************************************************************************)
(* Trace validation of COVERING GRIDS recorded from the real tools on      *)
(* meshes far beyond what MC_C08 / MC_C10 enumerate (up to four levels,    *)
(* a dozen boxes, sixty-four by sixty-four pixels).                        *)
(*                                                                         *)
(* Every recorded line is one run of a tool (the 2-D flattening of         *)
(* mandoline, whip's uniform grid) on a generated mesh whose stored cells  *)
(* hold values that NAME themselves (level, cell); the line carries the    *)
(* mesh, the limit and, for every pixel of the output, the (level, cell)   *)
(* its value names -- decoded from the output alone -- and the reported    *)
(* grid level where the tool reports one.  A line is judged with the       *)
(* requirement operators of Mesh.tla: every pixel shows                    *)
(* CoverSpec(M, lim, p) and its grid level is CoverLevel(M, lim, p).       *)
(* A pestle line carries, per level, the integral of that level's          *)
(* INDICATOR field expressed in lattice cells; it must be the number of    *)
(* cells of that level in IntegralCells(M, lim).                           *)
(* The spec never blocks: failing clauses are collected per line and       *)
(* printed when the last line has been consumed.                           *)
(***************************************************************************)
EXTENDS Mesh, Json, IOUtils, FiniteSets

TheTrace == ndJsonDeserialize(IOEnv.TRACE_FILE)
VARIABLES l, viol
tvars == <<l, viol>>

Line == TheTrace[l]
Px(ln) == Pixels(ln.n1, ln.n2, ln.lim)
Shown(ln, p) == ln.grid[p[1] + 1][p[2] + 1]
Want(ln, p) == LET cs == CoverSpec(ln.mesh, ln.lim, p) IN <<cs[1], cs[2][1], cs[2][2]>>
WellFormedMesh(ln) ==
  /\ BaseCovers(ln.mesh, ln.n1, ln.n2)
  /\ \A k \in 2..Len(ln.mesh) : \A b \in DOMAIN ln.mesh[k] : Aligned(ln.mesh[k][b]) /\ NestedIn(ln.mesh[k][b], ln.mesh, k - 1)
\* pestle lines: for every level l <= lim the integral of the indicator field of level l, divided by the cell volume of that level
\* and by the cells per lattice cell, is the NUMBER of lattice cells of level l that no finer selected level covers
CountOf(ln, lv) == Cardinality({ic \in IntegralCells(ln.mesh, ln.lim) : ic[1] = lv})
PestleClauses(ln) ==
  IF ln.outcome # "ok" THEN {"raised"}
  ELSE IF \E lv \in 0..ln.lim : ln.counts[lv + 1] # CountOf(ln, lv) THEN {"level-volume-is-not-the-uncovered-cells"} ELSE {}
Clauses(ln) ==
  (IF ~WellFormedMesh(ln) THEN {"MACHINERY-mesh-not-well-formed"} ELSE {}) \cup
  (IF ln.tool = "pestle" THEN PestleClauses(ln) ELSE
   IF ln.outcome # "ok" THEN {"raised"} ELSE
     (IF Len(ln.grid) # ln.n1 * Pow2(ln.lim) \/ \E i \in DOMAIN ln.grid : Len(ln.grid[i]) # ln.n2 * Pow2(ln.lim) THEN {"grid-shape"}
      ELSE (IF \E p \in Px(ln) : Shown(ln, p) # Want(ln, p) THEN {"pixel-is-not-the-covering-cell"} ELSE {}) \cup
           (IF ln.hasglev /\ \E p \in Px(ln) : ln.glev[p[1] + 1][p[2] + 1] # CoverLevel(ln.mesh, ln.lim, p)
            THEN {"grid-level-is-not-the-covering-level"} ELSE {})))

TraceInit == l = 1 /\ viol = {}
TraceNext == /\ l <= Len(TheTrace)
             /\ viol' = viol \cup {<<Line.tid, c>> : c \in Clauses(Line)}
             /\ l' = l + 1
TraceSpec == TraceInit /\ [][TraceNext]_tvars

Report == l = Len(TheTrace) + 1 => PrintT(ToJson([violations |-> viol, lines |-> Len(TheTrace)]))
TraceAccepted == TLCGet("stats").diameter - 1 = Len(TheTrace)
=============================================================================
