------------------------------ MODULE OpTrace ------------------------------
(***************************************************************************)
(* Trace validation of OPERATION HISTORIES recorded from the real tools    *)
(* on inputs far beyond what the model instances enumerate (a dozen boxes  *)
(* over ten and more binary files, four levels, a dozen fields, the        *)
(* repository's own assets).                                               *)
(*                                                                         *)
(* The state is the kitchen: a map from directory names to the             *)
(* layout-free CONTENT of the plotfile stored there (Plotfile.tla!Content: *)
(* field names, per level and box the index-range id, one opaque token per *)
(* component array -- here the digest of its bytes -- and one token per    *)
(* min/max table entry -- the bits of the float).  Every recorded line is  *)
(* one step:                                                               *)
(*   Have     a generated input appears                                    *)
(*   Strain / Combine / Cook   a writer ran; the line carries what the     *)
(*            independent parser found in the source(s) afterwards and in  *)
(*            the directory written                                        *)
(*   Read / Iter   the indexing interface / level iteration was used       *)
(* and is judged with the REQUIREMENT operators of the tool modules        *)
(* (Colander!StrainSpec, Combine!CombineSpec, Chef!CookSpecG,              *)
(* Reader!ReadSpec / IterSpec) applied to the state the trace itself built *)
(* up -- so a later operation is judged on what the earlier ones really    *)
(* left on disk (C14), and "the inputs are what they were" is part of      *)
(* every step.  The spec never blocks: the failing clauses are collected   *)
(* per line and printed when the last line has been consumed.              *)
(***************************************************************************)
EXTENDS Plotfile, Json, IOUtils

Col == INSTANCE Colander WITH Names <- <<>>, MaxLev <- 0, MaxBox <- 0, MaxFile <- 0, MaxVars <- 0, W <- 0,
          SchedMode <- "fifo", Gather <- "by_task",
          inp <- 0, cells <- 0, vars <- 0, lim <- 0, pc <- 0, lv <- 0, tasks <- 0, call <- 0, res <- 0, out <- 0, sched <- 0
Cmb == INSTANCE Combine WITH F1 <- <<>>, F2 <- <<>>, MaxLev <- 0, MaxBox <- 0, MaxFile <- 0, MaxBox2 <- 0, W <- 0, SchedMode <- "fifo",
          MapOrder <- "disk", ModeAssign <- "assign",
          in1 <- 0, in2 <- 0, cells <- 0, rel <- 0, v1 <- 0, v2 <- 0, pc <- 0, mode <- 0, sel <- 0, lv <- 0, tasks <- 0,
          call <- 0, res <- 0, out <- 0, sched <- 0, outcome <- 0
Chf == INSTANCE Chef WITH Names <- <<>>, MaxLev <- 0, MaxBox <- 0, MaxFile <- 0, W <- 0, SchedMode <- "fifo", NNewSet <- {},
          NamesOrder <- "kept_first",
          MapOrder <- "disk",
          inp <- 0, cells <- 0, nnew <- 0, kept <- 0, serial <- 0, pc <- 0, lv <- 0, tasks <- 0, call <- 0, res <- 0, out <- 0,
          sched <- 0
Rdr == INSTANCE Reader WITH PostIndex <- "step", NegField <- "normalise", NpIntBox <- "int"

TheTrace == ndJsonDeserialize(IOEnv.TRACE_FILE)
VARIABLES l, tid, disk, viol
tvars == <<l, tid, disk, viol>>
Line == TheTrace[l]

Has(d) == d \in DOMAIN disk
Put(d, C) == [x \in DOMAIN disk \cup {d} |-> IF x = d THEN C ELSE disk[x]]
NoDisk == [x \in {} |-> 0]

\* the first part in which an observed content R differs from the expected content E ("" = equal)
DiffContent(E, R) ==
  IF R.fields # E.fields THEN "fields"
  ELSE IF Len(R.lev) # Len(E.lev) THEN "level-count"
  ELSE IF \E i \in DOMAIN E.lev : Len(R.lev[i]) # Len(E.lev[i]) THEN "box-count"
  ELSE IF \E i \in DOMAIN E.lev : \E b \in DOMAIN E.lev[i] : R.lev[i][b].idx # E.lev[i][b].idx THEN "box-index-ranges"
  ELSE IF \E i \in DOMAIN E.lev : \E b \in DOMAIN E.lev[i] : R.lev[i][b].comps # E.lev[i][b].comps THEN "box-data"
  ELSE IF \E i \in DOMAIN E.lev : \E b \in DOMAIN E.lev[i] : R.lev[i][b].mm # E.lev[i][b].mm THEN "min-max-rows"
  ELSE ""

PlainContent(R) == [fields |-> R.fields, lev |-> R.lev]
\* what an operation that must succeed and write E is blamed for
JudgeWrite(E, same) ==
  IF ~same THEN "input-modified"
  ELSE IF Line.outcome # "ok" THEN "raised"
  ELSE IF Line.R.k # "ok" THEN "output-malformed"
  ELSE IF ~Line.tasted THEN "output-rejected-by-taste"
  ELSE DiffContent(E, Line.R)

SourcesSame == /\ Has(Line.src) /\ PlainContent(Line.S) = disk[Line.src]
               /\ (Line.ev = "Combine" => Has(Line.src2) /\ PlainContent(Line.S2) = disk[Line.src2])

TBegin == /\ Line.ev = "Begin" /\ tid' = Line.tid /\ disk' = NoDisk /\ viol' = viol
THave == /\ Line.ev = "Have" /\ disk' = Put(Line.d, PlainContent(Line.C)) /\ UNCHANGED <<tid, viol>>

AfterWrite(why) ==
  /\ viol' = IF why = "" THEN viol ELSE viol \cup {<<tid, l, Line.ev, why>>}
  /\ disk' = IF Line.outcome = "ok" /\ Line.R.k = "ok" THEN Put(Line.out, PlainContent(Line.R)) ELSE disk
  /\ UNCHANGED tid

TStrain == /\ Line.ev = "Strain"
           /\ AfterWrite(JudgeWrite(Col!StrainSpec(disk[Line.src], Line.vars, Line.L), SourcesSame))

TCombine ==
  /\ Line.ev = "Combine"
  /\ LET E == Cmb!CombineSpec(disk[Line.src], disk[Line.src2], Line.v1, Line.v2)
     IN IF E = Cmb!Refused
        THEN AfterWrite(IF ~SourcesSame THEN "input-modified"
                        ELSE IF Line.outcome = "ok" THEN "mismatched-inputs-not-refused"
                        ELSE IF Line.wrote THEN "wrote-before-refusing" ELSE "")
        ELSE AfterWrite(JudgeWrite([fields |-> E.fields, lev |-> E.lev], SourcesSame))

\* chef: per box the SET of (name, component); the recipe's value is the logged digest of its independent evaluation
TCook ==
  /\ Line.ev = "Cook"
  /\ LET E == Chf!CookSpecG(disk[Line.src], Line.nnew, Line.kept, LAMBDA j, lev, i : Line.newtoks[lev + 1][i][j])
         R == Line.R
         why == IF ~SourcesSame THEN "input-modified"
                ELSE IF Line.outcome # "ok" THEN "raised"
                ELSE IF R.k # "ok" THEN "output-malformed"
                ELSE IF ~Line.tasted THEN "output-rejected-by-taste"
                ELSE IF Rng(R.fields) # E.names \/ Len(R.fields) # Cardinality(E.names) THEN "field-names"
                ELSE IF Len(R.lev) # Len(E.lev) THEN "level-count"
                ELSE IF \E i \in DOMAIN E.lev : Len(R.lev[i]) # Len(E.lev[i]) THEN "box-count"
                ELSE IF \E i \in DOMAIN E.lev : \E b \in DOMAIN E.lev[i] : R.lev[i][b].idx # E.lev[i][b].idx THEN "box-index-ranges"
                ELSE IF \E i \in DOMAIN E.lev : \E b \in DOMAIN E.lev[i] :
                          {<<R.fields[j], R.lev[i][b].comps[j]>> : j \in DOMAIN R.fields} # E.lev[i][b].pairs THEN "name-on-component"
                ELSE IF ~Line.extrema THEN "min-max-not-true-extrema"
                ELSE ""
     IN AfterWrite(why)

JudgeRead(E, same) ==
  LET R == Line.R IN
  IF ~same THEN "input-modified"
  ELSE IF E = Rdr!Err THEN (IF R.k = "err" THEN "" ELSE "answered-a-selection-that-must-be-refused")
  ELSE IF R.k = "err" THEN "refused-a-valid-selection"
  ELSE IF R.k # "ok" THEN "neither-data-nor-error"
  ELSE ""

TRead ==
  /\ Line.ev = "Read"
  /\ LET E == Rdr!ReadSpec(disk[Line.src], Line.fsel, Line.lv, Line.bsel)
         R == Line.R
         j == JudgeRead(E, SourcesSame)
         why == IF j # "" \/ E = Rdr!Err THEN j
                ELSE IF R.one # E.one THEN "single-vs-list"
                ELSE IF Len(R.boxes) # Len(E.boxes) THEN "number-of-boxes"
                \* a returned array is identified by its values and shape: `idxs` are the boxes of the level that hold them
                \* (several when boxes hold identical data, as constant fields of real plotfiles do)
                ELSE IF \E i \in DOMAIN E.boxes : E.boxes[i].idx \notin Rng(R.boxes[i].idxs) THEN "box-order"
                ELSE IF \E i \in DOMAIN E.boxes : R.boxes[i].scalar # E.boxes[i].scalar THEN "field-axis"
                ELSE IF \E i \in DOMAIN E.boxes : R.boxes[i].comps # E.boxes[i].comps THEN "box-data"
                ELSE ""
     IN /\ viol' = IF why = "" THEN viol ELSE viol \cup {<<tid, l, Line.ev, why>>}
        /\ UNCHANGED <<tid, disk>>

Strip(e) == [comps |-> e.comps, scalar |-> e.scalar]
TIter ==
  /\ Line.ev = "Iter"
  /\ LET E == Rdr!IterSpec(disk[Line.src], Line.fsel, Line.lv)
         R == Line.R
         j == JudgeRead(E, SourcesSame)
         why == IF j # "" \/ E = Rdr!Err THEN j
                ELSE IF ~R.stopped THEN "does-not-stop"
                ELSE IF Len(R.bag) # Cardinality(E.bag) THEN "number-of-boxes-yielded"
                \* as multisets of (values-and-shape tokens, field axis): boxes with identical data are interchangeable
                ELSE IF \E x \in Rng(R.bag) \cup {Strip(e) : e \in E.bag} :
                          Cardinality({i \in DOMAIN R.bag : R.bag[i] = x}) # Cardinality({e \in E.bag : Strip(e) = x}) THEN "boxes-yielded"
                ELSE ""
     IN /\ viol' = IF why = "" THEN viol ELSE viol \cup {<<tid, l, Line.ev, why>>}
        /\ UNCHANGED <<tid, disk>>

TraceInit == l = 1 /\ tid = 0 /\ disk = NoDisk /\ viol = {}
TraceNext == /\ l <= Len(TheTrace)
             /\ (TBegin \/ THave \/ TStrain \/ TCombine \/ TCook \/ TRead \/ TIter)
             /\ l' = l + 1
TraceSpec == TraceInit /\ [][TraceNext]_tvars

Report == l = Len(TheTrace) + 1 => PrintT(ToJson([violations |-> viol, lines |-> Len(TheTrace)]))
TraceAccepted == TLCGet("stats").diameter - 1 = Len(TheTrace)
=============================================================================
