------------------------------ MODULE FsTrace ------------------------------
(***************************************************************************)
(* Trace validation for C13: recorded runs of the real tools (audit-hook   *)
(* events classified by root, injected fault ordinal, outcome, input       *)
(* snapshot comparison) replayed through the actions of FsIO.tla.  Many    *)
(* runs per file; every run starts with a Begin line.  Instead of stopping *)
(* at the first violated invariant, the violated (run, invariant) pairs    *)
(* are collected and printed when the last line has been consumed.         *)
(***************************************************************************)
EXTENDS FsIO, Json, IOUtils

TheTrace == ndJsonDeserialize(IOEnv.TRACE_FILE)
VARIABLES l, tid, viol, doomed
tvars == <<fvars, l, tid, viol, doomed>>

TraceInit == /\ l = 1 /\ tid = 0 /\ viol = {} /\ doomed = FALSE /\ FsInit(0)

Line == TheTrace[l]
Judge(v) == v \cup (IF ~WritesUnderOutput' THEN {<<tid', "WritesUnderOutput">>} ELSE {})
              \cup (IF ~InputsUntouched' THEN {<<tid', "InputsUntouched">>} ELSE {})
              \cup (IF ~FailureVisible' THEN {<<tid', "FailureVisible">>} ELSE {})
              \cup (IF ~RequestRefused(doomed)' THEN {<<tid', "RequestRefused">>} ELSE {})

TBegin == /\ Line.ev = "Begin"
          /\ tid' = Line.tid /\ doomed' = Line.doomed
          /\ pc' = "running" /\ written' = {} /\ faultAt' = Line.fault /\ points' = 0 /\ faulted' = FALSE
          /\ outcome' = "none" /\ inputsSame' = TRUE
TMutate == /\ Line.ev = "Mutate" /\ Mutate(Line.root, Line.rel) /\ tid' = tid /\ UNCHANGED doomed
TWrite == /\ Line.ev = "WritePoint" /\ tid' = tid /\ UNCHANGED doomed
          /\ IF Line.faulted /\ faultAt # points + 1
             THEN \* the device stays full: a retry on the path the fault struck fails again
                  /\ faulted /\ points' = points + 1
                  /\ UNCHANGED <<pc, written, faultAt, faulted, outcome, inputsSame>>
             ELSE /\ WritePoint(Line.root, Line.rel)
                  \* the recorded fault must strike exactly where the model says it does
                  /\ Line.faulted = (faultAt = points + 1)
TReturn == /\ Line.ev = "Return" /\ Return(Line.outcome, Line.same) /\ tid' = tid /\ UNCHANGED doomed

TraceNext == /\ l <= Len(TheTrace)
             /\ (TBegin \/ TMutate \/ TWrite \/ TReturn)
             /\ l' = l + 1
             /\ viol' = Judge(viol)
TraceSpec == TraceInit /\ [][TraceNext]_tvars

Report == l = Len(TheTrace) + 1 => PrintT(ToJson([violations |-> viol, lines |-> Len(TheTrace)]))
TraceAccepted == TLCGet("stats").diameter - 1 = Len(TheTrace)
=============================================================================
