----------------------------- MODULE PoolTrace -----------------------------
(***************************************************************************)
(* Trace validation of pool usage: the events recorded by the pool shim    *)
(* while a real tool runs (Submit / Start / Finish / Deliver per call)     *)
(* must be a behaviour of Pool.tla for the recorded kind, task count and   *)
(* worker count.  Many runs per file (Begin lines).                        *)
(***************************************************************************)
EXTENDS Pool, Json, IOUtils, TLC
TheTrace == ndJsonDeserialize(IOEnv.TRACE_FILE)
VARIABLES l, call, w, calls
tvars == <<l, call, w, calls>>
Line == TheTrace[l]
TraceInit == l = 1 /\ call = NoCall /\ w = 1 /\ calls = 0
TBegin == Line.ev = "Begin" /\ call' = NoCall /\ w' = Line.w /\ calls' = calls
\* a new call may only be submitted when the previous one has been entirely consumed or abandoned
\* by an exception (Raise)
TSubmit == /\ Line.ev = "Submit" /\ call' = NewCall(Line.kind, Line.n) /\ calls' = calls + 1 /\ UNCHANGED w
TStart == /\ Line.ev = "Start" /\ CanStart(call, Line.k, w) /\ call' = DoStart(call, Line.k) /\ UNCHANGED <<w, calls>>
TFinish == /\ Line.ev = "Finish" /\ CanFinish(call, Line.k) /\ call' = DoFinish(call, Line.k) /\ UNCHANGED <<w, calls>>
TDeliver == /\ Line.ev = "Deliver" /\ Line.k \in Deliverable(call) /\ call' = DoDeliver(call, Line.k) /\ UNCHANGED <<w, calls>>
TRaise == /\ Line.ev = "Raise" /\ UNCHANGED <<call, w, calls>>
TraceNext == /\ l <= Len(TheTrace) /\ (TBegin \/ TSubmit \/ TStart \/ TFinish \/ TDeliver \/ TRaise) /\ l' = l + 1
TraceSpec == TraceInit /\ [][TraceNext]_tvars
PoolOK == CallOK(call, w)
TraceAccepted == TLCGet("stats").diameter - 1 = Len(TheTrace)
=============================================================================
