------------------------------ MODULE FieldKeys ------------------------------
(***************************************************************************)
(* The keys under which the reader exposes the fields of a header whose    *)
(* names may REPEAT.  A repeated name gets a numbered key "name_k"; such a *)
(* generated key is an ordinary string and may itself be the name of       *)
(* another field of the header ("phi", "phi_2", "phi"), so keys are        *)
(* modelled as rendered strings, not as (name, number) pairs.              *)
(*                                                                         *)
(* Requirement layer: KeysOk (a relation: any numbering scheme with these  *)
(* properties serves).  Implementation layer: ImplKeys, the dict insertion *)
(* loop of PlotfileCooker.__init__ ("first free name_k, k = 2, 3, ..").    *)
(***************************************************************************)
EXTENDS Naturals, Sequences, FiniteSets, TLC

CONSTANT Numbering    \* "first-free" (the code) | "count" (mutant: k = occurrences of the name so far)

Render(n, k) == IF k = 1 THEN n ELSE n \o "_" \o ToString(k)

(* ---- requirement ---- *)
KeysOk(ns, ks) ==
  /\ Len(ks) = Len(ns)                                                  \* one key per field, in header order
  /\ \A i, j \in DOMAIN ks : i # j => ks[i] # ks[j]                     \* no two fields share a key
  /\ \A i \in DOMAIN ks : ks[i] \in {Render(ns[i], k) : k \in 1..(Len(ns) + 1)}   \* the name, or the name numbered
  /\ \A i \in DOMAIN ks : (\A j \in 1..(i - 1) : ks[j] # ns[i]) => ks[i] = ns[i]  \* a name nobody took is kept

(* ---- implementation ---- *)
RECURSIVE CountIn(_, _, _)
CountIn(s, i, x) == IF i = 0 THEN 0 ELSE (IF s[i] = x THEN 1 ELSE 0) + CountIn(s, i - 1, x)

RECURSIVE KeySeq(_, _)
KeySeq(ns, i) ==
  IF i = 0 THEN <<>>
  ELSE LET prev == KeySeq(ns, i - 1)
           taken == {prev[j] : j \in DOMAIN prev}
       IN Append(prev,
            IF Numbering = "count"
            THEN Render(ns[i], CountIn(ns, i - 1, ns[i]) + 1)
            ELSE IF ns[i] \notin taken THEN ns[i]
                 ELSE Render(ns[i], CHOOSE k \in 2..(i + 1) : /\ Render(ns[i], k) \notin taken
                                                             /\ \A m \in 2..(k - 1) : Render(ns[i], m) \in taken))
ImplKeys(ns) == KeySeq(ns, Len(ns))

\* a python dict built with these keys: a later field with an existing key REPLACES the earlier entry
DictSize(ks) == Cardinality({ks[i] : i \in DOMAIN ks})
=============================================================================
