------------------------------ MODULE Plotfile ------------------------------
(***************************************************************************)
(* The on-disk data model shared by every tool specification.              *)
(*                                                                         *)
(* A plotfile level is a level header (box index ranges in HEADER ORDER,   *)
(* one FabOnDisk entry <<file, offset>> per box, one min and one max row   *)
(* per box) plus binary files, each a SEQUENCE OF FABs at byte offsets.    *)
(* Offsets are abstract units: a FAB occupies HL + cells*ncomp units.      *)
(* A box's index range is identified with its number in the common mesh    *)
(* (two plotfiles on the same mesh use the same numbers).  A component     *)
(* array is named by a token <<src, level, box, field>>.                   *)
(*                                                                         *)
(* Two layers:                                                             *)
(*   - requirement operators work on Content(..), which forgets layout;    *)
(*   - implementation-shaped operators (FabAt, ScanFile, ..) work on the   *)
(*     byte-level picture and are used by the tool modules.                *)
(***************************************************************************)
EXTENDS Naturals, Integers, Sequences, FiniteSets, TLC, SequencesExt, FiniteSetsExt, Functions

HL == 1                          \* units occupied by one FAB header line
NoFab == [k |-> "nofab"]

Rng(s) == {s[i] : i \in DOMAIN s}
Max2(a, b) == IF a > b THEN a ELSE b
Min2(a, b) == IF a < b THEN a ELSE b

\* All sequences enumerating the finite set S without repetition
PermsOf(S) == {s \in [1..Cardinality(S) -> S] : Rng(s) = S}

\* Position of x in duplicate-free sequence s (0 if absent)
PosIn(s, x) == IF \E i \in DOMAIN s : s[i] = x THEN CHOOSE i \in DOMAIN s : s[i] = x ELSE 0

\* s[i] for every i in sequence of positions ps
Pick(s, ps) == [k \in DOMAIN ps |-> s[ps[k]]]

RECURSIVE SumSeq(_)
SumSeq(s) == IF s = <<>> THEN 0 ELSE Head(s) + SumSeq(Tail(s))

(***************************************************************************)
(* Layouts: which file holds which box, and in which order inside a file.  *)
(* The header order is fixed (1..nb); the on-disk order is the free        *)
(* variable.  File labels are ordered (the code iterates sorted names).    *)
(***************************************************************************)
FileFns(nb, MaxFile) == {fn \in [1..nb -> 1..MaxFile] : \E k \in 1..MaxFile : Rng(fn) = 1..k}

Layouts(nb, MaxFile) ==
  {[file |-> fn, disk |-> [f \in Rng(fn) |-> SelectSeq(p, LAMBDA b : fn[b] = f)]] :
      fn \in FileFns(nb, MaxFile), p \in PermsOf(1..nb)}

\* header order on disk, everything in file 1
PlainLayout(nb) == [file |-> [b \in 1..nb |-> 1], disk |-> (1 :> [b \in 1..nb |-> b])]

\* disk order differs from header order in at least one file
NonMono(lay) == \E f \in DOMAIN lay.disk : \E i, j \in DOMAIN lay.disk[f] :
                   i < j /\ lay.disk[f][i] > lay.disk[f][j]

(***************************************************************************)
(* FABs and binary files                                                   *)
(***************************************************************************)
Fab(idx, cells, comps) == [k |-> "fab", idx |-> idx, cells |-> cells, comps |-> comps]
FabSize(fab) == HL + fab.cells * Len(fab.comps)

\* offset of the j-th FAB of a file
StartOf(fabs, j) == SumSeq([i \in 1..(j - 1) |-> FabSize(fabs[i])])
FileLen(fabs) == StartOf(fabs, Len(fabs) + 1)

\* What a reader finds when it seeks to `off` and reads a header line
FabAt(fabs, off) ==
  IF \E j \in DOMAIN fabs : StartOf(fabs, j) = off
  THEN fabs[CHOOSE j \in DOMAIN fabs : StartOf(fabs, j) = off]
  ELSE NoFab

(***************************************************************************)
(* A level on disk                                                         *)
(*   idx   : box index-range ids in header order                           *)
(*   fod   : [b |-> [file, off]]                                           *)
(*   mm    : [b |-> sequence of min/max row tokens (one per field)]        *)
(*   files : [file label |-> Seq(Fab)]                                     *)
(***************************************************************************)
SrcLevel(src, lv, nf, cells, lay) ==
  LET nb == Len(lay.file)
      fabOf(b) == Fab(b, cells[b], [f \in 1..nf |-> <<src, lv, b, f>>])
      files == [f \in DOMAIN lay.disk |-> [j \in DOMAIN lay.disk[f] |-> fabOf(lay.disk[f][j])]]
  IN [idx |-> [b \in 1..nb |-> b],
      fod |-> [b \in 1..nb |-> [file |-> lay.file[b],
                                off  |-> StartOf(files[lay.file[b]], PosIn(lay.disk[lay.file[b]], b))]],
      mm  |-> [b \in 1..nb |-> [f \in 1..nf |-> <<"mm", src, lv, b, f>>]],
      files |-> files]

\* A whole source plotfile: fields is a sequence of names, lays a sequence (level 0 first)
SrcPlt(src, fields, cellsByLevel, lays) ==
  [fields |-> fields,
   lev |-> [l \in 1..Len(lays) |-> SrcLevel(src, l - 1, Len(fields), cellsByLevel[l], lays[l])]]

(***************************************************************************)
(* Well-formedness and layout-independent content                          *)
(***************************************************************************)
LevelWF(L, nf) ==
  /\ DOMAIN L.fod = DOMAIN L.idx /\ DOMAIN L.mm = DOMAIN L.idx
  /\ \A b \in DOMAIN L.idx :
        /\ L.fod[b].file \in DOMAIN L.files
        /\ LET fab == FabAt(L.files[L.fod[b].file], L.fod[b].off)
           IN fab # NoFab /\ fab.idx = L.idx[b] /\ Len(fab.comps) = nf
        /\ Len(L.mm[b]) = nf
  \* every FAB on disk is referenced exactly once
  /\ \A f \in DOMAIN L.files : \A j \in DOMAIN L.files[f] :
        Cardinality({b \in DOMAIN L.idx : L.fod[b].file = f
                                       /\ L.fod[b].off = StartOf(L.files[f], j)}) = 1

PltWF(P) == \A l \in DOMAIN P.lev : LevelWF(P.lev[l], Len(P.fields))

\* data and min/max rows per box in header order, layout forgotten
LevelContent(L) ==
  [b \in DOMAIN L.idx |->
     [idx |-> L.idx[b],
      comps |-> FabAt(L.files[L.fod[b].file], L.fod[b].off).comps,
      mm |-> L.mm[b]]]

Content(P) == [fields |-> P.fields, lev |-> [l \in DOMAIN P.lev |-> LevelContent(P.lev[l])]]

\* boxes of file f in header order / in offset order
BoxesOfFile(L, f) == SelectSeq([b \in DOMAIN L.idx |-> b], LAMBDA b : L.fod[b].file = f)
SortedByOffset(L, bs) ==
  CHOOSE s \in PermsOf(Rng(bs)) : \A i, j \in DOMAIN s : i < j => L.fod[s[i]].off <= L.fod[s[j]].off
FilesUsed(L) == {L.fod[b].file : b \in DOMAIN L.idx}
\* sorted sequence of the file labels in use (np.unique)
UniqueFiles(L) == SetToSortSeq(FilesUsed(L), LAMBDA a, b : a < b)

=============================================================================
