------------------------------ MODULE BufWriter ------------------------------
(***************************************************************************)
(* A buffered file object on a device that fails (C13, late faults).       *)
(*                                                                         *)
(* write() only hands bytes to the buffer; the device error (disk full,    *)
(* quota, file-size limit) is raised by the call that EMPTIES the buffer:  *)
(* a later write() that overfills it, flush(), or close().  A file object  *)
(* that the program never closes is closed by its finaliser when the last  *)
(* reference goes, and an exception raised there is discarded.  So whether *)
(* the caller of a tool learns about lost bytes depends on HOW the tool    *)
(* closes its files -- invisible to a fault model in which write() itself  *)
(* fails.                                                                  *)
(*                                                                         *)
(* CloseMode = "explicit"   with-block / close(): the code as it is        *)
(*           = "finaliser"  open(...) passed as an argument and dropped    *)
(*           = "raw-unchecked"  the file is opened UNBUFFERED: write() is  *)
(*                          the system call, which on a full device takes  *)
(*                          part of the bytes and RETURNS THE COUNT; the   *)
(*                          program does not look at it                    *)
(***************************************************************************)
EXTENDS Naturals, Sequences, TLC

CONSTANTS NWrites,      \* write() calls of the run
          Cap,          \* buffer capacity, in writes
          DevFailsAt,   \* the device accepts this many flushed writes, then fails (0 = never fails)
          CloseMode

VARIABLES pc, buffered, onDisk, lost, raised, calls
vars == <<pc, buffered, onDisk, lost, raised, calls>>

Init == pc = "writing" /\ buffered = 0 /\ onDisk = 0 /\ lost = FALSE /\ raised = FALSE /\ calls = 0

\* emptying the buffer: the device takes what it can
Drain(n) == IF DevFailsAt # 0 /\ onDisk + n > DevFailsAt THEN [disk |-> onDisk, fail |-> TRUE] ELSE [disk |-> onDisk + n, fail |-> FALSE]

Write ==
  /\ pc = "writing" /\ calls < NWrites
  /\ calls' = calls + 1
  /\ IF CloseMode = "raw-unchecked"
     THEN LET d == Drain(1) IN
          /\ onDisk' = d.disk /\ lost' = (lost \/ d.fail) /\ UNCHANGED <<buffered, raised, pc>>      \* a short count, ignored
     ELSE IF buffered + 1 > Cap
     THEN LET d == Drain(buffered) IN          \* the buffer is emptied first: here the error of EARLIER bytes surfaces
          /\ onDisk' = d.disk
          /\ IF d.fail THEN lost' = TRUE /\ raised' = TRUE /\ pc' = "failed" /\ buffered' = 0
             ELSE lost' = lost /\ raised' = raised /\ pc' = pc /\ buffered' = 1
     ELSE buffered' = buffered + 1 /\ UNCHANGED <<onDisk, lost, raised, pc>>

\* the program is done writing
Close ==
  /\ pc = "writing" /\ calls = NWrites
  /\ LET d == Drain(buffered) IN
     /\ onDisk' = d.disk /\ buffered' = 0
     /\ lost' = (lost \/ d.fail)
     \* close() / the end of a with-block raises; the finaliser swallows
     /\ raised' = (raised \/ (d.fail /\ CloseMode = "explicit"))
     /\ pc' = IF d.fail /\ CloseMode = "explicit" THEN "failed" ELSE "returned"
  /\ UNCHANGED calls

Next == Write \/ Close
Spec == Init /\ [][Next]_vars /\ WF_vars(Next)

\* the requirement of C13 on this writer: bytes lost => the caller gets an exception, never a normal return
LossIsReported == (pc = "returned") => ~lost
NothingLostSilently == lost => (raised \/ pc = "writing")
Terminates == <>(pc \in {"returned", "failed"})
=============================================================================
