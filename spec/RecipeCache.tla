----------------------------- MODULE RecipeCache -----------------------------
(***************************************************************************)
(* Which user recipe a cook evaluates (C11 / C12 process-level histories). *)
(*                                                                         *)
(* A user recipe is a python FILE.  Two files may have the same file name  *)
(* (recipe.py in two case directories) or one file may be edited between   *)
(* two cooks of one process.  Two caches stand between the file and the    *)
(* evaluation:                                                             *)
(*  - the interpreter's module table, keyed by module NAME (only consulted *)
(*    when the file is imported as a module instead of executed);          *)
(*  - chef's pathos pool, cached between cooks and NOT restarted for       *)
(*    two-argument recipes: its workers were forked during an earlier cook *)
(*    and hold that moment's module table.  A function pickled BY VALUE    *)
(*    (its module is not importable -- the code) travels with its code; a  *)
(*    function pickled BY NAME is looked up in the worker's own table.     *)
(* Requirement: every cook evaluates the file it was given.                *)
(*                                                                         *)
(* ImportPolicy = "exec-file" (the code) | "import-module" (mutant)        *)
(* Transport    = "by-value"  (the code) | "by-name" (mutant: the module   *)
(*                                          is registered in sys.modules)  *)
(***************************************************************************)
EXTENDS Naturals, Sequences, FiniteSets, TLC, Json

CONSTANTS MaxCooks, ImportPolicy, Transport

VARIABLES modtable, pool, hist, wrong
vvars == <<modtable, pool, hist, wrong>>

Files == {"A", "B"}          \* two recipe files with the same file name and different contents
None == "none"

Init == modtable = None /\ pool = None /\ hist = <<>> /\ wrong = FALSE

Cook(f, parallel) ==
  /\ Len(hist) < MaxCooks /\ ~wrong
  /\ LET imported == IF ImportPolicy = "import-module" /\ modtable # None THEN modtable ELSE f
         table1 == IF ImportPolicy = "import-module" \/ Transport = "by-name" THEN (IF ImportPolicy = "import-module" /\ modtable # None THEN modtable ELSE f)
                   ELSE modtable
         \* the pool is created by the first parallel cook and kept; its workers hold the module table of that moment
         pool1 == IF parallel /\ pool = None THEN table1 ELSE pool
         evaluated == IF ~parallel THEN imported
                      ELSE IF Transport = "by-name" THEN (IF pool1 = None THEN imported ELSE pool1)
                      ELSE imported
     IN /\ modtable' = table1
        /\ pool' = pool1
        /\ wrong' = (evaluated # f)
  /\ hist' = Append(hist, [file |-> f, parallel |-> parallel])

Next == \E f \in Files, par \in BOOLEAN : Cook(f, par)
Spec == Init /\ [][Next]_vvars

EveryCookEvaluatesItsOwnFile == ~wrong
Emit == Len(hist) = MaxCooks => PrintT(ToJson([hist |-> hist]))
=============================================================================
