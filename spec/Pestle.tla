------------------------------- MODULE Pestle -------------------------------
(***************************************************************************)
(* pestle: volume integral = every point of the domain counted once.       *)
(*                                                                         *)
(* Lattice cell = half a blocking-factor block, so that boxes made of 2 or *)
(* 3 blocks (4 or 6 lattice cells) at any block offset are representable   *)
(* and a coarse lattice cell is either entirely covered by the next level  *)
(* or not at all.                                                          *)
(* Requirement: IntegralCells / ExactlyOnce (Mesh.tla).                    *)
(* Implementation (mirrors compute_box_array + volume_integral): an        *)
(* occupancy map per level at resolution Rez; for a box of level l the     *)
(* mask of its cells NOT under a box of level l+1 is read off the map of   *)
(* level l+1; levels below the limit are summed through their masks, the   *)
(* limit level entirely.                                                   *)
(***************************************************************************)
EXTENDS Mesh

CONSTANTS N1s,          \* set of level-0 domain lengths along axis 1 (lattice cells)
          N2,           \* domain length along axis 2
          MaxLev, MaxFine,
          RezMode,      \* "gcd" (repaired code) | "min_extent" (mutant = original code)
          LimitMode     \* "upto" (repaired code) | "finest_only" (mutant = original code for limit > 0)

VARIABLES M, n1, lim, volfrac, pc, lv, counted
vvars == <<M, n1, lim, volfrac, pc, lv, counted>>

\* level-0 tilings along axis 1 with boxes of 4 or 6 lattice cells (2 or 3 blocks)
RECURSIVE Cuts(_)
Cuts(n) == IF n = 0 THEN {<<>>}
           ELSE (IF n >= 4 THEN {<<4>> \o s : s \in Cuts(n - 4)} ELSE {}) \cup
                (IF n >= 6 THEN {<<6>> \o s : s \in Cuts(n - 6)} ELSE {})
RECURSIVE Prefix(_, _)
Prefix(s, k) == IF k = 0 THEN 0 ELSE s[k] + Prefix(s, k - 1)
BaseTilings(n) == {[k \in DOMAIN s |-> Box(Prefix(s, k - 1), 0, Prefix(s, k) - 1, N2 - 1)] : s \in Cuts(n)}

BlockBoxes(Mc, l, D1, D2) ==
  {bx \in {Box(a, b, a + s1 - 1, b + s2 - 1) : a \in {x \in 0..(D1 - 1) : x % 2 = 0}, b \in {y \in 0..(D2 - 1) : y % 2 = 0},
                                               s1 \in {4, 6}, s2 \in {4}} :
      bx.hi[1] < D1 /\ bx.hi[2] < D2 /\ NestedIn(bx, Mc, l)}

MeshesFor(n) ==
  {<<t>> : t \in BaseTilings(n)} \cup
  (IF MaxLev >= 2 THEN UNION {{<<t, f1>> : f1 \in FineLevels(BlockBoxes(<<t>>, 1, 2 * n, 2 * N2), MaxFine)} : t \in BaseTilings(n)} ELSE {}) \cup
  (IF MaxLev >= 3 THEN UNION {UNION {{<<t, f1, f2>> : f2 \in FineLevels(BlockBoxes(<<t, f1>>, 2, 4 * n, 4 * N2), 1)}
                                      : f1 \in FineLevels(BlockBoxes(<<t>>, 1, 2 * n, 2 * N2), MaxFine)} : t \in BaseTilings(n)} ELSE {})

Init ==
  /\ n1 \in N1s /\ M \in MeshesFor(n1)
  /\ lim \in 0..(Len(M) - 1) /\ volfrac \in BOOLEAN
  /\ pc = "masks" /\ lv = 0 /\ counted = {}

-----------------------------------------------------------------------------
RECURSIVE GCD(_, _)
GCD(a, b) == IF b = 0 THEN a ELSE GCD(b, a % b)
RECURSIVE SetGCD(_)
SetGCD(S) == IF S = {} THEN 0 ELSE LET x == CHOOSE x \in S : TRUE IN GCD(x, SetGCD(S \ {x}))
Corners == UNION {UNION {{M[l][b].lo[1], M[l][b].lo[2], M[l][b].hi[1] + 1, M[l][b].hi[2] + 1} : b \in DOMAIN M[l]} : l \in DOMAIN M}
Extents == UNION {UNION {{Extent(M[l][b], 1), Extent(M[l][b], 2)} : b \in DOMAIN M[l]} : l \in DOMAIN M}
SetMin(S) == CHOOSE x \in S : \A y \in S : x <= y
Rez == IF RezMode = "gcd" THEN SetGCD(Corners) ELSE SetMin(Extents)

\* compute_box_array: map cell -> box number (the LAST box written wins), 0 if none
MapCell(l, mc) ==
  LET hits == {b \in DOMAIN M[l + 1] : /\ M[l + 1][b].lo[1] \div Rez <= mc[1] /\ mc[1] <= M[l + 1][b].hi[1] \div Rez
                                        /\ M[l + 1][b].lo[2] \div Rez <= mc[2] /\ mc[2] <= M[l + 1][b].hi[2] \div Rez}
  IN IF hits = {} THEN 0 ELSE CHOOSE b \in hits : \A b2 \in hits : b2 <= b

\* the covering mask of coarse cell c of box bx at level l (TRUE = counted), as volume_integral builds it:
\* the slice of the level l+1 map under the box, expanded by Rez/2, laid over the box from its low corner
MaskCounts(l, bx, c) ==
  LET start1 == (bx.lo[1] * 2) \div Rez
      start2 == (bx.lo[2] * 2) \div Rez
      \* position of c inside the box -> map cell of level l+1
      m1 == start1 + ((c[1] - bx.lo[1]) \div (Rez \div 2))
      m2 == start2 + ((c[2] - bx.lo[2]) \div (Rez \div 2))
  IN MapCell(l + 1, <<m1, m2>>) = 0

SumLevelMasked ==
  /\ pc = "masks"
  /\ IF lv < lim /\ LimitMode = "upto"
     THEN /\ counted' = counted \cup
               UNION {{<<lv, c>> : c \in {c2 \in CellsOf(M[lv + 1][b]) : MaskCounts(lv, M[lv + 1][b], c2)}} : b \in DOMAIN M[lv + 1]}
          /\ lv' = lv + 1 /\ pc' = "masks"
     ELSE counted' = counted /\ lv' = lv /\ pc' = "finest"
  /\ UNCHANGED <<M, n1, lim, volfrac>>

SumFinest ==
  /\ pc = "finest"
  /\ counted' = counted \cup {<<lim, c>> : c \in LevelCells(M, lim)}
  /\ pc' = "done"
  /\ UNCHANGED <<M, n1, lim, volfrac, lv>>

Next == SumLevelMasked \/ SumFinest
Spec == Init /\ [][Next]_vvars /\ WF_vvars(Next)

IntegralRefines == pc = "done" => counted = IntegralCells(M, lim)
\* a pixel lies in the footprint of exactly one counted cell: exactly one of its ancestors is counted
ExactlyOnce == pc = "done" =>
   \A p \in Pixels(n1, N2, lim) : Cardinality({l \in 0..lim : <<l, Ancestor(p, lim, l)>> \in counted}) = 1
\* the requirement itself is consistent: the cells it names tile the domain
SpecTiles == pc = "masks" /\ lv = 0 =>
   LET IC == IntegralCells(M, lim)
   IN \A p \in Pixels(n1, N2, lim) : Cardinality({l \in 0..lim : <<l, Ancestor(p, lim, l)>> \in IC}) = 1
Terminates == <>(pc = "done")
=============================================================================
