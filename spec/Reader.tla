------------------------------- MODULE Reader -------------------------------
(***************************************************************************)
(* The reader's indexing interface  pck[fsel][lv][bsel]  and level         *)
(* iteration  for box in pck[fsel][lv].                                    *)
(*                                                                         *)
(* Requirement layer: ReadSpec / IterSpec, read off Content(P).            *)
(* Implementation layer (mirrors plotfile_cooker.py):                      *)
(*   Select   resolve names to 0-based indices, validate by indexing the   *)
(*            field list (python / numpy index semantics)                  *)
(*   Stream   refuse lv > limit; negative lv counts from the finest level  *)
(*   ReadBox  seek(off); readline -> a FAB header only if `off` is the     *)
(*            start of a FAB; skip `first` whole components; read `count`  *)
(*            components; post-index                                       *)
(*   Iterate  one imap task per unique file (sorted); a task scans its     *)
(*            file sequentially until a header fails to parse (EOF);       *)
(*            results are consumed file after file                         *)
(***************************************************************************)
EXTENDS Plotfile, Pool

CONSTANTS
  PostIndex,      \* "step" (apply only the stride after reading start..stop) | "slice_again" (mutant)
  NegField,       \* "normalise" (negative field index counts from the end) | "raw" (mutant: seek backwards)
  NpIntBox        \* "int" (numpy integer box index treated as int) | "none" (mutant: returns nothing)

Err == [k |-> "err"]
NoneV == 99                       \* python None inside a slice
Garbage == <<"garbage">>

-----------------------------------------------------------------------------
(* Python index / slice semantics over a sequence of length n (0-based)    *)
PyIndex(i, n) == IF i >= 0 /\ i < n THEN i ELSE IF i < 0 /\ i + n >= 0 THEN i + n ELSE -1  \* -1 = IndexError

Clamp(x, lo, hi) == IF x < lo THEN lo ELSE IF x > hi THEN hi ELSE x

\* slice.indices(n) -> <<start, stop, step>>
SliceIndices(a, b, s, n) ==
  LET st == IF s = NoneV THEN 1 ELSE s
      adj(x) == IF x < 0 THEN x + n ELSE x
  IN IF st > 0
     THEN <<IF a = NoneV THEN 0 ELSE Clamp(adj(a), 0, n),
            IF b = NoneV THEN n ELSE Clamp(adj(b), 0, n), st>>
     ELSE <<IF a = NoneV THEN n - 1 ELSE Clamp(adj(a), -1, n - 1),
            IF b = NoneV THEN -1 ELSE Clamp(adj(b), -1, n - 1), st>>

\* list(range(a, b, s)) without recursion (levels of real plotfiles have hundreds of boxes)
RangeLen(a, b, s) == IF s > 0 THEN (IF a >= b THEN 0 ELSE (b - a + s - 1) \div s)
                     ELSE (IF a <= b THEN 0 ELSE (a - b + (-s) - 1) \div (-s))
RangeSeq(a, b, s) == [i \in 1..RangeLen(a, b, s) |-> a + (i - 1) * s]
\* list(range(*slice(a,b,s).indices(n)))  -- 0-based positions
PySlice(a, b, s, n) == LET t == SliceIndices(a, b, s, n) IN RangeSeq(t[1], t[2], t[3])

-----------------------------------------------------------------------------
(* Requirement layer                                                       *)

\* 0-based field positions selected, or Err.  `one` tells a single field (no trailing axis).
ResolveFields(names, fsel) ==
  LET n == Len(names) IN
  CASE fsel.k = "name" -> IF fsel.v \in Rng(names) THEN [one |-> TRUE, ps |-> <<PosIn(names, fsel.v) - 1>>] ELSE Err
    [] fsel.k = "int"  -> IF PyIndex(fsel.v, n) >= 0 THEN [one |-> TRUE, ps |-> <<PyIndex(fsel.v, n)>>] ELSE Err
    [] fsel.k = "ilist" -> IF \A i \in DOMAIN fsel.v : fsel.v[i] \in 0..(n - 1)
                           THEN [one |-> FALSE, ps |-> fsel.v] ELSE Err
    [] fsel.k = "nlist" -> IF \A i \in DOMAIN fsel.v : fsel.v[i] \in Rng(names)
                           THEN [one |-> FALSE, ps |-> [i \in DOMAIN fsel.v |-> PosIn(names, fsel.v[i]) - 1]] ELSE Err
    [] fsel.k = "slice" -> [one |-> FALSE, ps |-> PySlice(fsel.a, fsel.b, fsel.s, n)]

\* level number (0-based) or -1
ResolveLevel(nlev, lv) == IF lv >= nlev THEN -1 ELSE IF lv >= 0 THEN lv ELSE IF lv + nlev >= 0 THEN lv + nlev ELSE -1

\* [one, bs] with bs 1-based box numbers in requested order, or Err
ResolveBoxes(nb, bsel) ==
  CASE bsel.k \in {"int", "npint"} -> IF PyIndex(bsel.v, nb) >= 0 THEN [one |-> TRUE, bs |-> <<PyIndex(bsel.v, nb) + 1>>] ELSE Err
    [] bsel.k = "slice" -> [one |-> FALSE, bs |-> [i \in DOMAIN PySlice(bsel.a, bsel.b, bsel.s, nb) |->
                                                     PySlice(bsel.a, bsel.b, bsel.s, nb)[i] + 1]]
    [] bsel.k = "list" -> IF \A i \in DOMAIN bsel.v : PyIndex(bsel.v[i], nb) >= 0
                          THEN [one |-> FALSE, bs |-> [i \in DOMAIN bsel.v |-> PyIndex(bsel.v[i], nb) + 1]] ELSE Err
    [] bsel.k = "mask" -> IF Len(bsel.v) = nb
                          THEN [one |-> FALSE, bs |-> SelectSeq([b \in 1..nb |-> b], LAMBDA b : bsel.v[b])] ELSE Err

BoxData(C, l, b, fs) == [idx |-> C.lev[l + 1][b].idx,
                         comps |-> [j \in DOMAIN fs.ps |-> C.lev[l + 1][b].comps[fs.ps[j] + 1]],
                         scalar |-> fs.one]

ReadSpec(C, fsel, lv, bsel) ==
  LET fs == ResolveFields(C.fields, fsel)
      l  == ResolveLevel(Len(C.lev), lv)
  IN IF fs = Err \/ l < 0 THEN Err
     ELSE LET bx == ResolveBoxes(Len(C.lev[l + 1]), bsel)
          IN IF bx = Err THEN Err
             ELSE [k |-> "ok", one |-> bx.one,
                   boxes |-> [i \in DOMAIN bx.bs |-> BoxData(C, l, bx.bs[i], fs)]]

\* iteration: the bag of all boxes of the level (as a set of <<box, data>>, boxes are distinct)
IterSpec(C, fsel, lv) ==
  LET fs == ResolveFields(C.fields, fsel)
      l  == ResolveLevel(Len(C.lev), lv)
  IN IF fs = Err \/ l < 0 THEN Err
     ELSE [k |-> "ok", bag |-> {BoxData(C, l, b, fs) : b \in DOMAIN C.lev[l + 1]}]

-----------------------------------------------------------------------------
(* Implementation layer                                                    *)

\* LevelDataSelector.__init__ : farg in the form the stream uses
\*   [k |-> "int", v] | [k |-> "slice", a, b, s] | [k |-> "list", v]  or Err
ImplSelect(names, fsel) ==
  LET n == Len(names) IN
  CASE fsel.k = "name" -> IF fsel.v \in Rng(names) THEN [k |-> "int", v |-> PosIn(names, fsel.v) - 1] ELSE Err
    [] fsel.k = "int"  -> IF PyIndex(fsel.v, n) < 0 THEN Err
                          ELSE [k |-> "int", v |-> IF NegField = "normalise" THEN PyIndex(fsel.v, n) ELSE fsel.v]
    [] fsel.k = "ilist" -> IF \A i \in DOMAIN fsel.v : PyIndex(fsel.v[i], n) >= 0 THEN [k |-> "list", v |-> fsel.v] ELSE Err
    [] fsel.k = "nlist" -> IF \A i \in DOMAIN fsel.v : fsel.v[i] \in Rng(names)
                           THEN [k |-> "list", v |-> [i \in DOMAIN fsel.v |-> PosIn(names, fsel.v[i]) - 1]] ELSE Err
    [] fsel.k = "slice" -> fsel

\* components first+1 .. first+count of the FAB (1-based into comps); anything outside is garbage
Window(fab, first, count) ==
  [j \in 1..count |-> IF first + j \in DOMAIN fab.comps THEN fab.comps[first + j] ELSE Garbage]

\* mp_read_box_*_field
ImplReadBox(L, b, farg) ==
  LET fab == FabAt(L.files[L.fod[b].file], L.fod[b].off) IN
  IF fab = NoFab THEN Err
  ELSE LET nc == Len(fab.comps) IN
    CASE farg.k = "int" ->
           [idx |-> fab.idx, scalar |-> TRUE,
            comps |-> IF farg.v >= 0 THEN Window(fab, farg.v, 1) ELSE <<Garbage>>]
      [] farg.k = "slice" ->
           LET t == SliceIndices(farg.a, farg.b, farg.s, nc)
               cnt == t[2] - t[1]
               w == Window(fab, t[1], IF cnt > 0 THEN cnt ELSE 0)
               \* positions (0-based) kept by the post-indexing of the cnt components read
               keep == IF PostIndex = "step" THEN RangeSeq(0, cnt, t[3])
                       ELSE PySlice(farg.a, farg.b, farg.s, IF cnt > 0 THEN cnt ELSE 0)
           IN [idx |-> fab.idx, scalar |-> FALSE, comps |-> [j \in DOMAIN keep |-> w[keep[j] + 1]]]
      [] farg.k = "list" ->
           LET first == farg.v[1]
               diff == farg.v[Len(farg.v)] - first + 1
               w == Window(fab, first, IF diff > 0 THEN diff ELSE 0)
           IN IF diff <= 0 \/ \E j \in DOMAIN farg.v : farg.v[j] - first + 1 \notin DOMAIN w THEN Err
              ELSE [idx |-> fab.idx, scalar |-> FALSE,
                    comps |-> [j \in DOMAIN farg.v |-> w[farg.v[j] - first + 1]]]

\* LevelDataStream.__getitem__
ImplGetBoxes(L, bsel, farg) ==
  LET nb == Len(L.idx) IN
  CASE bsel.k = "int" -> IF PyIndex(bsel.v, nb) < 0 THEN Err
                         ELSE LET r == ImplReadBox(L, PyIndex(bsel.v, nb) + 1, farg)
                              IN IF r = Err THEN Err ELSE [k |-> "ok", one |-> TRUE, boxes |-> <<r>>]
    [] bsel.k = "npint" -> IF NpIntBox = "none" THEN [k |-> "nothing"]
                           ELSE IF PyIndex(bsel.v, nb) < 0 THEN Err
                           ELSE LET r == ImplReadBox(L, PyIndex(bsel.v, nb) + 1, farg)
                                IN IF r = Err THEN Err ELSE [k |-> "ok", one |-> TRUE, boxes |-> <<r>>]
    [] OTHER ->
         LET bx == ResolveBoxes(nb, bsel) IN
         IF bx = Err THEN Err
         ELSE LET rs == [i \in DOMAIN bx.bs |-> ImplReadBox(L, bx.bs[i], farg)]
              IN IF \E i \in DOMAIN rs : rs[i] = Err THEN Err
                 ELSE [k |-> "ok", one |-> FALSE, boxes |-> rs]

ImplRead(P, fsel, lv, bsel) ==
  LET farg == ImplSelect(P.fields, fsel)
      l == ResolveLevel(Len(P.lev), lv)
  IN IF farg = Err \/ l < 0 THEN Err ELSE ImplGetBoxes(P.lev[l + 1], bsel, farg)

\* mp_read_bfile_*_field : sequential scan of one binary file
ImplScanFile(fabs, farg) ==
  [j \in DOMAIN fabs |->
     LET fab == fabs[j]
         L1 == [idx |-> <<fab.idx>>, fod |-> <<[file |-> 1, off |-> 0]>>, files |-> (1 :> <<fab>>)]
     IN ImplReadBox(L1, 1, farg)]

=============================================================================
