-------------------------------- MODULE Chef --------------------------------
(***************************************************************************)
(* chef: apply a recipe to every box and write kept ++ new fields.         *)
(*                                                                         *)
(* Requirement layer: CookSpec -- per box the SET of (name, component)     *)
(* pairs: kept names with the input's tokens, recipe names with            *)
(* <<"new", j, level, box>> (the j-th recipe output evaluated on that      *)
(* box's input data), min/max rows = extrema of exactly those components.  *)
(* Implementation layer (mirrors chef.py): MkTree, WriteHeader, per level  *)
(* one task per unique file; the knife scans the file SEQUENTIALLY and     *)
(* writes kept ++ new for each FAB it meets; the parent maps the returned  *)
(* offsets / mins / maxs through the boxes of the file sorted by offset.   *)
(***************************************************************************)
EXTENDS Plotfile, Pool

CONSTANTS
  Names, MaxLev, MaxBox, MaxFile, W, SchedMode,
  NNewSet,       \* numbers of components a recipe may add, e.g. {1, 2} or {10} (a per-species recipe with 'all')
  NamesOrder,    \* "kept_first" (repaired code) | "new_first" (mutant = original code)
  MapOrder       \* "disk" (the code) | "header" (mutant)

VARIABLES inp, cells, nnew, kept, serial, pc, lv, tasks, call, res, out, sched
vvars == <<inp, cells, nnew, kept, serial, pc, lv, tasks, call, res, out, sched>>

ClassPattern == <<1, 2, 1, 2, 2, 1>>
CellsOf(nb) == [b \in 1..nb |-> ClassPattern[b] + 1]
NewNameTable == <<"new1", "new2", "new3", "new4", "new5", "new6", "new7", "new8", "new9", "new10">>
NewNames(n) == [j \in 1..n |-> NewNameTable[j]]
NoOut == [fields |-> <<>>, hdr |-> FALSE, lev |-> <<>>]

\* kept lists: ordered, duplicate free, over the known names and one unknown name
Cand == Rng(Names) \cup {"zz"}
\* ... plus every field kept, in header order and reversed (a kept list as long as the field list is where a "keep everything"
\* short cut would sit)
KeptLists == {<<>>, Names, Reverse(Names)}
             \cup {s \in UNION {[1..n -> Cand] : n \in 1..(IF Len(Names) >= 4 THEN 3 ELSE 2)} : \A i, j \in DOMAIN s : i # j => s[i] # s[j]}

-----------------------------------------------------------------------------
(* Requirement *)
KeptKnown(fields, ks) == SelectSeq(ks, LAMBDA v : v \in Rng(fields))
\* CookSpecG: the requirement with the uninterpreted recipe value NewTok(j, level, box) left as a parameter, so that
\* trace validation (OpTrace.tla) can bind it to the digest of the independently evaluated recipe
CookSpecG(C, n, ks, NewTok(_, _, _)) ==
  LET kn == KeptKnown(C.fields, ks)
      cols == [i \in DOMAIN kn |-> PosIn(C.fields, kn[i])]
  IN [names |-> Rng(kn) \cup Rng(NewNames(n)),
      lev |-> [l \in DOMAIN C.lev |->
                 [b \in DOMAIN C.lev[l] |->
                    [idx |-> C.lev[l][b].idx,
                     pairs |-> {<<kn[i], C.lev[l][b].comps[cols[i]]>> : i \in DOMAIN kn}
                               \cup {<<NewNames(n)[j], NewTok(j, l - 1, C.lev[l][b].idx)>> : j \in 1..n}]]]]
CookSpec(C, n, ks) == CookSpecG(C, n, ks, LAMBDA j, l, i : <<"new", j, l, i>>)

-----------------------------------------------------------------------------
(* Implementation *)
KeptCols == LET kn == KeptKnown(inp.fields, kept) IN [i \in DOMAIN kn |-> PosIn(inp.fields, kn[i])]
OutNames == IF NamesOrder = "kept_first" THEN KeptKnown(inp.fields, kept) \o NewNames(nnew)
            ELSE NewNames(nnew) \o KeptKnown(inp.fields, kept)

Init ==
  /\ \E nl \in 1..MaxLev : \E nbs \in [1..nl -> 1..MaxBox] :
       \E lays \in [1..nl -> UNION {Layouts(n, MaxFile) : n \in 1..MaxBox}] :
          /\ \A l \in 1..nl : Len(lays[l].file) = nbs[l]
          /\ cells = [l \in 1..nl |-> CellsOf(nbs[l])]
          /\ inp = SrcPlt("A", Names, cells, lays)
  /\ nnew \in NNewSet /\ kept \in KeptLists /\ serial \in BOOLEAN
  /\ pc = "start" /\ lv = 0 /\ tasks = <<>> /\ call = NoCall /\ res = <<>> /\ out = NoOut /\ sched = <<>>

MkTreeAndHeader ==
  /\ pc = "start"
  /\ out' = [fields |-> OutNames, hdr |-> TRUE,
             lev |-> [l \in DOMAIN inp.lev |-> [files |-> <<>>, cellh |-> FALSE]]]
  /\ pc' = "submit" /\ lv' = 0
  /\ UNCHANGED <<inp, cells, nnew, kept, serial, tasks, call, res, sched>>

SubmitLevel ==
  /\ pc = "submit"
  /\ LET L == inp.lev[lv + 1]
         fs == UniqueFiles(L)
     IN /\ tasks' = [k \in DOMAIN fs |->
                       [file |-> fs[k],
                        boxes |-> IF MapOrder = "disk" THEN SortedByOffset(L, BoxesOfFile(L, fs[k]))
                                  ELSE BoxesOfFile(L, fs[k])]]
        /\ call' = NewCall("imap", Len(fs))
        /\ res' = [k \in DOMAIN fs |-> <<>>]
  /\ pc' = "pool"
  /\ UNCHANGED <<inp, cells, nnew, kept, serial, lv, out, sched>>

Start(k) ==
  /\ pc = "pool" /\ CanStart(call, k, IF serial THEN 1 ELSE W)
  /\ ((SchedMode = "fifo" \/ serial) => \A j \in 1..(k - 1) : call.st[j] # "pend")
  /\ call' = DoStart(call, k)
  /\ UNCHANGED <<inp, cells, nnew, kept, serial, pc, lv, tasks, res, out, sched>>

\* the knife: sequential scan of the input file
Finish(k) ==
  /\ pc = "pool" /\ CanFinish(call, k)
  /\ ((SchedMode = "fifo" \/ serial) => \A j \in 1..(k - 1) : call.st[j] = "done")
  /\ LET L == inp.lev[lv + 1]
         fabs == L.files[tasks[k].file]
         w == [j \in DOMAIN fabs |->
                 Fab(fabs[j].idx, fabs[j].cells,
                     Pick(fabs[j].comps, KeptCols) \o [n \in 1..nnew |-> <<"new", n, lv, fabs[j].idx>>])]
     IN /\ out' = [out EXCEPT !.lev[lv + 1].files = @ @@ (tasks[k].file :> w)]
        /\ res' = [res EXCEPT ![k] = [j \in DOMAIN w |-> [off |-> StartOf(w, j),
                                                          mm |-> [c \in DOMAIN w[j].comps |-> <<"ext", w[j].comps[c]>>]]]]
  /\ call' = DoFinish(call, k)
  /\ sched' = Append(sched, k)
  /\ UNCHANGED <<inp, cells, nnew, kept, serial, pc, lv, tasks>>

GatherAndWriteCellH ==
  /\ pc = "pool" /\ AllDone(call)
  /\ LET L == inp.lev[lv + 1]
         r(b) == LET k == CHOOSE k \in DOMAIN tasks : b \in Rng(tasks[k].boxes)
                 IN res[k][PosIn(tasks[k].boxes, b)]
     IN out' = [out EXCEPT !.lev[lv + 1] =
                  [files |-> @.files, cellh |-> TRUE, idx |-> L.idx,
                   fod |-> [b \in DOMAIN L.idx |-> [file |-> L.fod[b].file, off |-> r(b).off]],
                   mm  |-> [b \in DOMAIN L.idx |-> r(b).mm]]]
  /\ call' = NoCall /\ tasks' = <<>> /\ res' = <<>>
  /\ IF lv + 1 < Len(inp.lev) THEN lv' = lv + 1 /\ pc' = "submit" ELSE lv' = lv /\ pc' = "done"
  /\ UNCHANGED <<inp, cells, nnew, kept, serial, sched>>

Next == MkTreeAndHeader \/ SubmitLevel \/ GatherAndWriteCellH \/ (\E k \in 1..MaxFile : Start(k) \/ Finish(k))
Spec == Init /\ [][Next]_vvars /\ WF_vvars(Next)

-----------------------------------------------------------------------------
OutPlt == [fields |-> out.fields,
           lev |-> [l \in DOMAIN out.lev |-> [idx |-> out.lev[l].idx, fod |-> out.lev[l].fod,
                                              mm |-> out.lev[l].mm, files |-> out.lev[l].files]]]
\* what the output says: per box the set of (name, component) and (name, min/max token)
OutPairs(l, b) == LET c == Content(OutPlt).lev[l][b]
                  IN {<<out.fields[i], c.comps[i]>> : i \in DOMAIN out.fields}
CookRefines == pc = "done" =>
  LET S == CookSpec(Content(inp), nnew, kept) IN
  /\ PltWF(OutPlt)
  /\ Rng(out.fields) = S.names /\ Len(out.fields) = Cardinality(S.names)
  /\ \A l \in DOMAIN S.lev : \A b \in DOMAIN S.lev[l] :
        /\ Content(OutPlt).lev[l][b].idx = S.lev[l][b].idx
        /\ OutPairs(l, b) = S.lev[l][b].pairs
        \* min/max rows are the extrema of the component stored at the same position
        /\ \A i \in DOMAIN out.fields :
              Content(OutPlt).lev[l][b].mm[i] = <<"ext", Content(OutPlt).lev[l][b].comps[i]>>
NoSharedWrites == pc = "pool" => \A j, k \in DOMAIN tasks : j # k => tasks[j].file # tasks[k].file
InputUnchanged == [][inp' = inp]_vvars
PoolOK == CallOK(call, W)
Terminates == <>(pc = "done")
=============================================================================
