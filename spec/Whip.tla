-------------------------------- MODULE Whip --------------------------------
(***************************************************************************)
(* whip: uniform covering grid of one field.                               *)
(*                                                                         *)
(* Requirement: every pixel of the finest selected level shows CoverSpec.  *)
(* Implementation (mirrors whip/cli.py): the grid starts as zeros; levels  *)
(* are processed coarse to fine; per level one imap_unordered task per     *)
(* binary file (largest file first), each returning (index range, data)    *)
(* of every box of the file; the parent writes the expanded boxes into the *)
(* grid as results ARRIVE; the pool of a level is closed before the next   *)
(* level starts (level barrier).                                           *)
(***************************************************************************)
EXTENDS Mesh, Pool

CONSTANTS N1, N2, MaxLev, MaxFine, W,
          Barrier     \* TRUE (the code) | FALSE (mutant: all levels' tasks in one pool)

VARIABLES M, nfiles, lim, pc, lv, tasks, call, grid, sched
vvars == <<M, nfiles, lim, pc, lv, tasks, call, grid, sched>>

Zero == <<-1, <<0, 0>>>>
FileOfBox(l, b) == ((b - 1) % nfiles[l + 1]) + 1

Meshes ==
  UNION {
    {<<t>> : t \in Tilings(N1, N2)} \cup
    (IF MaxLev >= 2 THEN
       UNION {{<<t, f1>> : f1 \in FineLevels(FineBoxes(<<t>>, 1, 2 * N1, 2 * N2, {2, 4}, {2, 4}), MaxFine)} : t \in Tilings(N1, N2)}
     ELSE {}) \cup
    (IF MaxLev >= 3 THEN
       UNION {UNION {{<<t, f1, f2>> : f2 \in FineLevels(FineBoxes(<<t, f1>>, 2, 4 * N1, 4 * N2, {4}, {2, 4}), 1)}
                      : f1 \in FineLevels(FineBoxes(<<t>>, 1, 2 * N1, 2 * N2, {2, 4}, {2, 4}), MaxFine)} : t \in Tilings(N1, N2)}
     ELSE {})}

Init ==
  /\ M \in Meshes
  /\ nfiles \in [1..Len(M) -> 1..3] /\ \A l \in 1..Len(M) : nfiles[l] <= Len(M[l])
  /\ lim \in 0..(Len(M) - 1)
  /\ pc = "level" /\ lv = 0 /\ tasks = <<>> /\ call = NoCall /\ sched = <<>>
  /\ grid = [p \in Pixels(N1, N2, lim) |-> Zero]

\* tasks of one level: one per file; the level of each task is kept for the no-barrier mutant
LevelTasks(l) == [f \in 1..nfiles[l + 1] |-> [lev |-> l, boxes |-> {b \in DOMAIN M[l + 1] : FileOfBox(l, b) = f}]]

SubmitLevel ==
  /\ pc = "level"
  /\ IF Barrier
     THEN tasks' = LevelTasks(lv)
     ELSE tasks' = LevelTasks(0) \o (IF lim >= 1 THEN LevelTasks(1) ELSE <<>>) \o (IF lim >= 2 THEN LevelTasks(2) ELSE <<>>)
  /\ call' = NewCall("imap_unordered", Len(tasks'))
  /\ pc' = "pool"
  /\ UNCHANGED <<M, nfiles, lim, lv, grid, sched>>

Start(k) == /\ pc = "pool" /\ CanStart(call, k, W) /\ call' = DoStart(call, k)
            /\ UNCHANGED <<M, nfiles, lim, pc, lv, tasks, grid, sched>>
Finish(k) == /\ pc = "pool" /\ CanFinish(call, k) /\ call' = DoFinish(call, k)
             /\ sched' = Append(sched, k)
             /\ UNCHANGED <<M, nfiles, lim, pc, lv, tasks, grid>>

\* the parent receives one file's boxes and writes their expanded regions
Deliver(k) ==
  /\ pc = "pool" /\ k \in Deliverable(call)
  /\ call' = DoDeliver(call, k)
  /\ LET l == tasks[k].lev
         hit(p) == {b \in tasks[k].boxes : InBox(M[l + 1][b], Ancestor(p, lim, l))}
     IN grid' = [p \in DOMAIN grid |-> IF hit(p) # {} THEN <<l, Ancestor(p, lim, l)>> ELSE grid[p]]
  /\ UNCHANGED <<M, nfiles, lim, pc, lv, tasks, sched>>

LevelDone ==
  /\ pc = "pool" /\ AllDelivered(call)
  /\ call' = NoCall /\ tasks' = <<>>
  /\ IF Barrier /\ lv < lim THEN lv' = lv + 1 /\ pc' = "level" ELSE lv' = lv /\ pc' = "done"
  /\ UNCHANGED <<M, nfiles, lim, grid, sched>>

Next == SubmitLevel \/ LevelDone \/ (\E k \in 1..9 : Start(k) \/ Finish(k) \/ Deliver(k))
Spec == Init /\ [][Next]_vvars /\ WF_vvars(Next)

FinalIsCover == pc = "done" => \A p \in DOMAIN grid : grid[p] = CoverSpec(M, lim, p)
\* boxes of one level never overlap, so arrival order inside a level cannot matter
NoOverlapWithinLevel == \A l \in 1..Len(M) : \A a, b \in DOMAIN M[l] : a # b => Disjoint(M[l][a], M[l][b])
\* a finer level is only written after every coarser file has been delivered
LevelsSequential == Barrier => (pc = "pool" => \A k \in DOMAIN tasks : tasks[k].lev = lv)
PoolOK == CallOK(call, W)
Terminates == <>(pc = "done")
=============================================================================
