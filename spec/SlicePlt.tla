------------------------------- MODULE SlicePlt -------------------------------
(***************************************************************************)
(* mandoline, plotfile-format output of a 3-D slice (C16).                 *)
(*                                                                         *)
(* Same lattice as Mandoline.tla (axis 1 = normal, positions in units,     *)
(* U(l) = 4 * 2^(F-l) per cell).  The 2-D plotfile keeps the levels apart: *)
(* per level the footprints of the boxes the plane crosses, each holding   *)
(* THAT LEVEL'S OWN data interpolated onto the plane.                      *)
(*                                                                         *)
(* Requirement: LevelAcceptable(l, t) per pixel of a crossed box;          *)
(*              the set of boxes written; every box in exactly one file.   *)
(* Implementation (mirrors interpolate_bylevel / write_cell_data_at_level):*)
(* per level and per side its own arrays (the original code shared one set *)
(* between all levels and both sides), crossed                             *)
(* boxes first, boxes within half a cell complete the undefined side, a    *)
(* side with no data at the level takes the other side's plane; boxes are  *)
(* split over files in chunks.                                             *)
(***************************************************************************)
EXTENDS Mesh

CONSTANTS N0, T0, MaxLev, MaxFine,
          ChunkRule     \* "ceil" (repaired code) | "floor" (original code)

VARIABLES M, pos, lim, pc, lv, left, right, boxes
vvars == <<M, pos, lim, pc, lv, left, right, boxes>>

F == Len(M) - 1
U(l) == 4 * Pow2(F - l)
Centre(l, i) == U(l) * i + U(l) \div 2
NCells(l) == N0 * Pow2(l)
None == [s |-> <<-9, 0>>, n |-> -999]
Side(s, n) == [s |-> s, n |-> n]

Meshes ==
  UNION {
    {<<t>> : t \in Tilings(N0, T0)} \cup
    (IF MaxLev >= 2 THEN
       UNION {{<<t, f1>> : f1 \in FineLevels(FineBoxes(<<t>>, 1, 2 * N0, 2 * T0, {2, 4}, {2, 4}), MaxFine)} : t \in Tilings(N0, T0)}
     ELSE {}) \cup
    (IF MaxLev >= 3 THEN
       UNION {UNION {{<<t, f1, f2>> : f2 \in FineLevels(FineBoxes(<<t, f1>>, 2, 4 * N0, 4 * T0, {4}, {4}), 1)}
                      : f1 \in FineLevels(FineBoxes(<<t>>, 1, 2 * N0, 2 * T0, {4}, {2, 4}), MaxFine)} : t \in Tilings(N0, T0)}
     ELSE {})}

PixOf(l) == 0..(T0 * Pow2(l) - 1)              \* in-plane cells of level l (a box's data is stored at its own level)

Init ==
  /\ M \in Meshes /\ lim \in 0..(Len(M) - 1)
  /\ pos \in 0..(N0 * 4 * Pow2(Len(M) - 1))
  /\ pc = "level" /\ lv = 0
  /\ left = [l \in 0..lim |-> [t \in 0..(T0 * Pow2(l) - 1) |-> None]]
  /\ right = [l \in 0..lim |-> [t \in 0..(T0 * Pow2(l) - 1) |-> None]]
  /\ boxes = [l \in 0..lim |-> <<>>]

-----------------------------------------------------------------------------
(* Requirement *)
Crossed(l, b) == U(l) * M[l + 1][b].lo[1] <= pos /\ pos <= U(l) * (M[l + 1][b].hi[1] + 1)
CrossedBoxes(l) == SelectSeq([b \in DOMAIN M[l + 1] |-> b], LAMBDA b : Crossed(l, b))
StoredL(l, t) == {i \in 0..(NCells(l) - 1) : Covered(M, l, <<i, t>>)}
\* samples of every level <= lim in the column of level-l cell t
AnyStored(l, t) == UNION {{<<k, i>> : i \in {j \in 0..(NCells(k) - 1) :
                              IF k <= l THEN Covered(M, k, <<j, t \div Pow2(l - k)>>)
                              ELSE \E c \in (t * Pow2(k - l))..((t + 1) * Pow2(k - l) - 1) : Covered(M, k, <<j, c>>)}} : k \in 0..lim}
LevelAcceptable(l, t) ==
  LET S == StoredL(l, t)
      below == {i \in S : Centre(l, i) <= pos}
      above == {i \in S : Centre(l, i) >= pos}
      a == IF below = {} THEN -1 ELSE CHOOSE i \in below : \A j \in below : j <= i
      b == IF above = {} THEN -1 ELSE CHOOSE i \in above : \A j \in above : i <= j
  IN IF a >= 0 /\ b >= 0 /\ b - a <= 1
     THEN {IF Centre(l, a) = pos THEN <<<<l, a>>, <<l, a>>>> ELSE IF Centre(l, b) = pos THEN <<<<l, b>>, <<l, b>>>> ELSE <<<<l, a>>, <<l, b>>>>}
     ELSE \* the level has data on one side only (domain face, edge of the refined region): the statement cannot be met
          \* with own data alone; nearest sample, own-level extrapolation, or bracketing with another level are accepted
          LET n == IF a >= 0 /\ (b < 0 \/ b - a > 1) /\ (b < 0 \/ pos - Centre(l, a) <= Centre(l, b) - pos) THEN a ELSE b
          IN {<<<<l, n>>, <<l, n>>>>}
             \cup (IF n - 1 \in S THEN {<<<<l, n - 1>>, <<l, n>>>>} ELSE {})
             \cup (IF n + 1 \in S THEN {<<<<l, n>>, <<l, n + 1>>>>} ELSE {})
             \cup {<<<<l, n>>, o>> : o \in {o2 \in AnyStored(l, t) : Centre(o2[1], o2[2]) >= pos /\ Centre(l, n) <= pos}}
             \cup {<<o, <<l, n>>>> : o \in {o2 \in AnyStored(l, t) : Centre(o2[1], o2[2]) <= pos /\ Centre(l, n) >= pos}}

-----------------------------------------------------------------------------
(* Implementation *)
Selected(l) == SelectSeq([b \in DOMAIN M[l + 1] |-> b],
                 LAMBDA b : /\ 2 * U(l) * M[l + 1][b].lo[1] - U(l) <= 2 * pos
                            /\ 2 * pos <= 2 * U(l) * (M[l + 1][b].hi[1] + 1) + U(l))
SliceBox(l, b) ==
  LET lo == M[l + 1][b].lo[1]
      hi == M[l + 1][b].hi[1]
  IN IF pos > Centre(l, hi) THEN <<hi, -1>>
     ELSE IF pos < Centre(l, lo) THEN <<-1, lo>>
     ELSE IF \E i \in lo..hi : Centre(l, i) = pos THEN LET i == CHOOSE i \in lo..hi : Centre(l, i) = pos IN <<i, i>>
     ELSE LET il == CHOOSE i \in lo..hi : Centre(l, i) < pos /\ \A j \in (i + 1)..hi : Centre(l, j) > pos IN <<il, il + 1>>

RECURSIVE FoldL(_, _, _, _, _, _)
FoldL(l, bs, L, R, DL, DR) ==
  IF bs = <<>> THEN <<L, R, DL, DR>>
  ELSE LET b == Head(bs)
           bx == M[l + 1][b]
           c == SliceBox(l, b)
           foot(t) == bx.lo[2] <= t /\ t <= bx.hi[2]
           wl(t) == foot(t) /\ c[1] >= 0 /\ (Crossed(l, b) \/ (t \in DR /\ t \notin DL))
           wr(t) == foot(t) /\ c[2] >= 0 /\ (Crossed(l, b) \/ (t \in DL /\ t \notin DR))
       IN FoldL(l, Tail(bs),
                [t \in DOMAIN L |-> IF wl(t) THEN Side(<<l, c[1]>>, Centre(l, c[1])) ELSE L[t]],
                [t \in DOMAIN R |-> IF wr(t) THEN Side(<<l, c[2]>>, Centre(l, c[2])) ELSE R[t]],
                DL \cup {t \in DOMAIN L : wl(t)}, DR \cup {t \in DOMAIN R : wr(t)})

ReduceLevel ==
  /\ pc = "level"
  /\ LET sel == Selected(lv)
         ordered == SelectSeq(sel, LAMBDA b : Crossed(lv, b)) \o SelectSeq(sel, LAMBDA b : ~Crossed(lv, b))
         r == FoldL(lv, ordered, left[lv], right[lv], {}, {})
         \* a side with no data at this level takes the other side's plane
         L2 == [t \in DOMAIN r[1] |-> IF t \in r[4] /\ t \notin r[3] THEN r[2][t] ELSE r[1][t]]
         R2 == [t \in DOMAIN r[2] |-> IF t \in r[3] /\ t \notin r[4] THEN r[1][t] ELSE r[2][t]]
     IN /\ left' = [left EXCEPT ![lv] = L2]
        /\ right' = [right EXCEPT ![lv] = R2]
  /\ boxes' = [boxes EXCEPT ![lv] = CrossedBoxes(lv)]
  /\ IF lv < lim THEN lv' = lv + 1 /\ pc' = "level" ELSE lv' = lv /\ pc' = "done"
  /\ UNCHANGED <<M, pos, lim>>

Next == ReduceLevel
Spec == Init /\ [][Next]_vvars /\ WF_vvars(Next)

\* what a pixel of level l finally holds, as a normalised pair
OutPair(l, t) == IF left[l][t].n # right[l][t].n THEN <<left[l][t].s, right[l][t].s>> ELSE <<right[l][t].s, right[l][t].s>>
NormPair(p) == IF p[1] = None.s \/ p[2] = None.s THEN p
               ELSE IF Centre(p[1][1], p[1][2]) = pos THEN <<p[1], p[1]>>
               ELSE IF Centre(p[2][1], p[2][2]) = pos THEN <<p[2], p[2]>> ELSE p
ByLevelRefines == pc = "done" =>
   \A l \in 0..lim : \A k \in DOMAIN boxes[l] :
      \A t \in M[l + 1][boxes[l][k]].lo[2]..M[l + 1][boxes[l][k]].hi[2] :
         NormPair(OutPair(l, t)) \in LevelAcceptable(l, t)
BoxesWritten == pc = "done" => \A l \in 0..lim : boxes[l] = CrossedBoxes(l)
SpecNonEmpty == pc = "level" /\ lv = 0 =>
   \A l \in 0..lim : \A k \in DOMAIN CrossedBoxes(l) :
      \A t \in M[l + 1][CrossedBoxes(l)[k]].lo[2]..M[l + 1][CrossedBoxes(l)[k]].hi[2] : LevelAcceptable(l, t) # {}

\* write_cell_data_at_level: n boxes over nfiles files; nfiles + 1 file names are available
Chunk(n, nfiles) == IF ChunkRule = "ceil" THEN (IF n = 0 THEN 1 ELSE (n + nfiles - 1) \div nfiles) ELSE n \div nfiles
NChunks(n, c) == (n + c - 1) \div c
ChunkingKeepsAll == \A n \in 1..11 : \A nf \in 1..5 :
   /\ Chunk(n, nf) >= 1
   /\ NChunks(n, Chunk(n, nf)) <= nf + 1
Terminates == <>(pc = "done")
=============================================================================
