------------------------------ MODULE ChefCache ------------------------------
(***************************************************************************)
(* Process-level state behind chef's parallel mode (C11 / C12 histories).  *)
(*                                                                         *)
(* chef keeps, as module globals, one placeholder solution array per box   *)
(* SHAPE of the plotfile being cooked; the pathos pool is cached between   *)
(* calls, and its worker processes see the globals as they were when the   *)
(* pool was FORKED.  A task for a box whose shape the workers do not know  *)
(* fails (KeyError); a task whose shape they know from an EARLIER plotfile *)
(* silently uses that plotfile's mechanism and pressure.                   *)
(* Requirement: every cook of every history succeeds with its own state.   *)
(***************************************************************************)
EXTENDS Naturals, Sequences, FiniteSets, TLC, Json

CONSTANTS MaxCooks,
          ClearOnRebuild    \* TRUE (repaired code): rebuilding the globals drops the cached pool | FALSE (original)

VARIABLES globals, pool, hist, failed
vvars == <<globals, pool, hist, failed>>

Inputs == {"P", "Q"}                         \* two plotfiles with different box shapes
ShapesOf(i) == IF i = "P" THEN {"s1"} ELSE {"s2", "s3"}
NoPool == [k |-> "none"]

Init == globals = [owner |-> "none", shapes |-> {}] /\ pool = NoPool /\ hist = <<>> /\ failed = FALSE

\* Chef(...) : the constructor rebuilds the globals; cook() in serial uses them directly, in parallel
\* through the (possibly cached) pool
Cook(i, parallel) ==
  /\ Len(hist) < MaxCooks /\ ~failed
  /\ globals' = [owner |-> i, shapes |-> ShapesOf(i)]
  /\ LET p0 == IF ClearOnRebuild THEN NoPool ELSE pool
         p1 == IF parallel /\ p0 = NoPool THEN [k |-> "pool", owner |-> i, shapes |-> ShapesOf(i)] ELSE p0
     IN /\ pool' = p1
        /\ failed' = (parallel /\ (~(ShapesOf(i) \subseteq p1.shapes) \/ p1.owner # i))
  /\ hist' = Append(hist, [input |-> i, parallel |-> parallel])

Next == \E i \in Inputs, par \in BOOLEAN : Cook(i, par)
Spec == Init /\ [][Next]_vvars

EveryCookUsesItsOwnState == ~failed
Emit == Len(hist) = MaxCooks => PrintT(ToJson([hist |-> hist]))
=============================================================================
