------------------------------ MODULE ChefCache ------------------------------
(***************************************************************************)
(* Process-level state behind chef's parallel mode (C11 / C12 histories).  *)
(*                                                                         *)
(* chef keeps, as module globals, one placeholder solution array per box   *)
(* SHAPE of the plotfile being cooked; the pathos pool is cached between   *)
(* calls, and its worker processes see the globals as they were when the   *)
(* pool was FORKED.  A task for a box whose shape the workers do not know  *)
(* fails (KeyError); a task whose shape they know from an EARLIER plotfile *)
(* silently uses that plotfile's mechanism and pressure.                   *)
(* Requirement: every cook of every history succeeds with its own state.   *)
(***************************************************************************)
EXTENDS Naturals, Sequences, FiniteSets, TLC, Json

CONSTANTS MaxCooks,
          ClearPolicy    \* when rebuilding the globals drops the cached pool:
                         \*   "always"     (repaired code)
                         \*   "never"      (mutant = original code)
                         \*   "new_shapes" (mutant: only when the plotfile has a box shape the previous globals lacked)

VARIABLES globals, pool, hist, failed
vvars == <<globals, pool, hist, failed>>

\* two plotfiles, the box shapes of the first among those of the second; two settings of the thermodynamic state
\* (pressure / mechanism) that the constructor bakes into the globals next to the per-shape arrays
Inputs == {"P", "Q"}
Params == {1, 2}
ShapesOf(i) == IF i = "P" THEN {"s1"} ELSE {"s1", "s2"}
NoPool == [k |-> "none"]

Init == globals = [owner |-> <<"none", 0>>, shapes |-> {}] /\ pool = NoPool /\ hist = <<>> /\ failed = FALSE

\* Chef(...) : the constructor rebuilds the globals; cook() in serial uses them directly, in parallel
\* through the (possibly cached) pool, whose workers hold the globals of the moment they were forked
Cook(i, p, parallel) ==
  /\ Len(hist) < MaxCooks /\ ~failed
  /\ globals' = [owner |-> <<i, p>>, shapes |-> ShapesOf(i)]
  /\ LET clear == \/ ClearPolicy = "always"
                  \/ (ClearPolicy = "new_shapes" /\ ~(ShapesOf(i) \subseteq globals.shapes))
         p0 == IF clear THEN NoPool ELSE pool
         p1 == IF parallel /\ p0 = NoPool THEN [k |-> "pool", owner |-> <<i, p>>, shapes |-> ShapesOf(i)] ELSE p0
     IN /\ pool' = p1
        /\ failed' = (parallel /\ (~(ShapesOf(i) \subseteq p1.shapes) \/ p1.owner # <<i, p>>))
  /\ hist' = Append(hist, [input |-> i, param |-> p, parallel |-> parallel])

Next == \E i \in Inputs, p \in Params, par \in BOOLEAN : Cook(i, p, par)
Spec == Init /\ [][Next]_vvars

EveryCookUsesItsOwnState == ~failed
Emit == Len(hist) = MaxCooks => PrintT(ToJson([hist |-> hist]))
=============================================================================
