------------------------------- MODULE Kitchen -------------------------------
(***************************************************************************)
(* The kitchen: a map from directory names to plotfiles, and tools chained *)
(* on it.  Used for C14 (tool outputs are tool inputs; pipelines equal the *)
(* composed pure operations).                                              *)
(*                                                                         *)
(* All three writers are box-wise, so the layout-free content of a         *)
(* directory is, per field, a symbolic TERM over the source fields:        *)
(*    <<"src", P, i>>               field i of generated plotfile P        *)
(*    <<"cook", t1, t2>>            recipe(new1) applied to the first two  *)
(*                                  fields of its input (terms t1, t2)     *)
(* plus the number of levels and the header style facts the next reader    *)
(* has to cope with.  The harness evaluates a term on every box.           *)
(***************************************************************************)
EXTENDS Naturals, Sequences, FiniteSets, TLC

CONSTANTS MaxOps, NLev,         \* NLev: levels of the generated inputs
          WithK                 \* TRUE: a plotfile written by chk2plt ("K", on the checkpoint's own mesh) is among the inputs

VARIABLES disk, hist, busy
vvars == <<disk, hist, busy>>

Rng(s) == {s[i] : i \in DOMAIN s}
PosIn(s, x) == IF \E i \in DOMAIN s : s[i] = x THEN CHOOSE i \in DOMAIN s : s[i] = x ELSE 0
Absent == [k |-> "absent"]
Plt(fields, terms, nlev, style) == [k |-> "plt", fields |-> fields, terms |-> terms, nlev |-> nlev, style |-> style, mesh |-> "m"]
Dirs == {"A", "B", "K", "d1", "d2", "d3", "d4"}
KFields == <<"x_velocity", "y_velocity", "z_velocity", "density", "Y(H2)", "Y(O2)", "rhoh", "temp", "RhoRT">>
NewDir(n) == IF n = 1 THEN "d1" ELSE IF n = 2 THEN "d2" ELSE IF n = 3 THEN "d3" ELSE "d4"

Init ==
  /\ disk = [d \in Dirs |->
               IF d = "A" THEN Plt(<<"a", "b">>, <<<<"src", "A", 1>>, <<"src", "A", 2>>>>, NLev, "amrex")
               ELSE IF d = "B" THEN Plt(<<"c", "d">>, <<<<"src", "B", 1>>, <<"src", "B", 2>>>>, NLev, "amrex")
               ELSE IF d = "K" /\ WithK THEN [Plt(KFields, [i \in DOMAIN KFields |-> <<"src", "K", i>>], NLev, "chk2plt") EXCEPT !.mesh = "mk"]
               ELSE Absent]
  /\ hist = <<>> /\ busy = FALSE

-----------------------------------------------------------------------------
(* The pure operations (requirement layer) *)
Strain(x, vars, L) ==
  LET names == IF vars = <<"all">> THEN x.fields ELSE SelectSeq(vars, LAMBDA v : v \in Rng(x.fields))
  IN [Plt(names, [i \in DOMAIN names |-> x.terms[PosIn(x.fields, names[i])]], L + 1,
          \* colander writes an empty refinement-ratio line when a single level is kept
          IF L = 0 THEN "blank-ratio" ELSE "kitchen") EXCEPT !.mesh = x.mesh]

Combine(x, y) ==
  LET f2 == SelectSeq(y.fields, LAMBDA v : v \notin Rng(x.fields))
  IN IF x.nlev # y.nlev \/ x.mesh # y.mesh \/ f2 = <<>> THEN Absent
     ELSE [Plt(x.fields \o f2, x.terms \o [i \in DOMAIN f2 |-> y.terms[PosIn(y.fields, f2[i])]], x.nlev, "kitchen") EXCEPT !.mesh = x.mesh]

Cook(x, kept) ==
  LET kn == SelectSeq(kept, LAMBDA v : v \in Rng(x.fields))
  IN [Plt(kn \o <<"new1">>,
          [i \in DOMAIN kn |-> x.terms[PosIn(x.fields, kn[i])]] \o <<<<"cook", x.terms[1], x.terms[2]>>>>,
          x.nlev, IF x.nlev = 1 THEN "blank-ratio" ELSE "kitchen") EXCEPT !.mesh = x.mesh]

-----------------------------------------------------------------------------
(* Tool invocations: each writes a fresh directory *)
Present == {d \in Dirs : disk[d] # Absent}
Target == NewDir(Len(hist) + 1)

VarChoices(x) == {<<"all">>, <<x.fields[1]>>} \cup
                 (IF Len(x.fields) >= 2 THEN {<<x.fields[Len(x.fields)], x.fields[1]>>} ELSE {})
\* keeping a field that already carries the recipe's output name would write two fields of the same name: a user
\* error, outside the statement (the tool does not refuse it; see AllValidInputs)
KeptChoices(x) == {<<>>, SelectSeq(<<x.fields[1]>>, LAMBDA v : v # "new1"), SelectSeq(x.fields, LAMBDA v : v # "new1")}

InvokeColander(s, vars, L) ==
  /\ Len(hist) < MaxOps /\ s \in Present /\ vars \in VarChoices(disk[s]) /\ L \in {0, disk[s].nlev - 1}
  /\ disk' = [disk EXCEPT ![Target] = Strain(disk[s], vars, L)]
  /\ hist' = Append(hist, [op |-> "colander", src |-> s, vars |-> vars, L |-> L, out |-> Target])
  /\ UNCHANGED busy

InvokeCombine(s1, s2) ==
  /\ Len(hist) < MaxOps /\ s1 \in Present /\ s2 \in Present /\ s1 # s2
  /\ Combine(disk[s1], disk[s2]) # Absent
  /\ disk' = [disk EXCEPT ![Target] = Combine(disk[s1], disk[s2])]
  /\ hist' = Append(hist, [op |-> "combine", src |-> s1, src2 |-> s2, out |-> Target])
  /\ UNCHANGED busy

InvokeChef(s, kept) ==
  /\ Len(hist) < MaxOps /\ s \in Present /\ Len(disk[s].fields) >= 2 /\ kept \in KeptChoices(disk[s])
  /\ disk' = [disk EXCEPT ![Target] = Cook(disk[s], kept)]
  /\ hist' = Append(hist, [op |-> "chef", src |-> s, kept |-> kept, out |-> Target])
  /\ UNCHANGED busy

Next == \E s \in Dirs :
           \/ \E vars \in UNION {VarChoices(disk[d]) : d \in Present}, L \in 0..(NLev - 1) : InvokeColander(s, vars, L)
           \/ \E s2 \in Dirs : InvokeCombine(s, s2)
           \/ \E kept \in UNION {KeptChoices(disk[d]) : d \in Present} : InvokeChef(s, kept)
Spec == Init /\ [][Next]_vvars

-----------------------------------------------------------------------------
(* Invariants *)
\* every directory ever written is a plotfile with at least one field, no duplicate names,
\* one term per field, 1..NLev levels: i.e. a valid input for every tool
AllValidInputs == \A d \in Present :
   /\ Len(disk[d].fields) >= 1 /\ Len(disk[d].terms) = Len(disk[d].fields)
   /\ \A i, j \in DOMAIN disk[d].fields : i # j => disk[d].fields[i] # disk[d].fields[j]
   /\ disk[d].nlev \in 1..NLev
\* inputs of an operation are never changed by it
NothingOverwritten == [][\A d \in Dirs : disk[d] # Absent => disk'[d] = disk[d]]_vvars
\* lemmas of the statement
StrainAllIsIdentity == \A d \in Present :
   LET y == Strain(disk[d], <<"all">>, disk[d].nlev - 1)
   IN y.fields = disk[d].fields /\ y.terms = disk[d].terms /\ y.nlev = disk[d].nlev /\ y.mesh = disk[d].mesh
CookThenCombineAddsOneField == \A d \in Present : Len(disk[d].fields) >= 2 /\ "new1" \notin Rng(disk[d].fields) =>
   LET z == Combine(disk[d], Cook(disk[d], <<>>))
   IN z.fields = disk[d].fields \o <<"new1">> /\ z.terms = disk[d].terms \o <<<<"cook", disk[d].terms[1], disk[d].terms[2]>>>>
=============================================================================
