-------------------------------- MODULE Plate --------------------------------
(***************************************************************************)
(* mandoline on a 2-D plotfile ("plate"): flatten to the covering grid of  *)
(* the finest selected level.                                              *)
(*                                                                         *)
(* Requirement: CoverSpec per pixel, the level for 'grid_level'.           *)
(* Implementation (mirrors Mandoline.plate / plate_box): per level a map   *)
(* (pool or serial) over ALL boxes of the level in header order, each      *)
(* returning its data expanded to the finest resolution; the parent writes *)
(* the results level after level, box after box, into arrays that were     *)
(* allocated uninitialised -- so every pixel must be written at least once.*)
(* The requested field list (any order, repeats, grid_level anywhere) only *)
(* labels the arrays: array k of the output belongs to the k-th requested  *)
(* name, whatever the order the fields have on disk.                       *)
(***************************************************************************)
EXTENDS Mesh, Pool

CONSTANTS N1, N2, MaxLev, MaxFine, W,
          FieldLists     \* requested field lists: sequences over 1..NFld (fields), 0 (grid_level), 99 ('all')

VARIABLES M, lim, serial, flist, pc, lv, call, planes, grid, glev
vvars == <<M, lim, serial, flist, pc, lv, call, planes, grid, glev>>

Uninit == <<-9, <<0, 0>>>>

Meshes ==
  UNION {
    {<<t>> : t \in Tilings(N1, N2)} \cup
    (IF MaxLev >= 2 THEN
       UNION {{<<t, f1>> : f1 \in FineLevels(FineBoxes(<<t>>, 1, 2 * N1, 2 * N2, {2, 4}, {2, 4}), MaxFine)} : t \in Tilings(N1, N2)}
     ELSE {}) \cup
    (IF MaxLev >= 3 THEN
       UNION {UNION {{<<t, f1, f2>> : f2 \in FineLevels(FineBoxes(<<t, f1>>, 2, 4 * N1, 4 * N2, {4}, {2, 4}), 1)}
                      : f1 \in FineLevels(FineBoxes(<<t>>, 1, 2 * N1, 2 * N2, {2, 4}, {2, 4}), MaxFine)} : t \in Tilings(N1, N2)}
     ELSE {})}

Init ==
  /\ M \in Meshes /\ lim \in 0..(Len(M) - 1) /\ serial \in BOOLEAN /\ flist \in FieldLists
  /\ pc = "read" /\ lv = 0 /\ call = NoCall /\ planes = <<>>
  /\ grid = [p \in Pixels(N1, N2, lim) |-> Uninit]
  /\ glev = [p \in Pixels(N1, N2, lim) |-> -9]

\* one map call per level over the boxes in header order; results come back in that order
ReadLevel ==
  /\ pc = "read"
  /\ call' = NewCall("map", Len(M[lv + 1]))
  /\ pc' = "pool"
  /\ UNCHANGED <<M, lim, serial, flist, lv, planes, grid, glev>>
Start(k) == /\ pc = "pool" /\ CanStart(call, k, IF serial THEN 1 ELSE W)
            /\ (serial => \A j \in 1..(k - 1) : call.st[j] = "done")
            /\ call' = DoStart(call, k) /\ UNCHANGED <<M, lim, serial, flist, pc, lv, planes, grid, glev>>
Finish(k) == /\ pc = "pool" /\ CanFinish(call, k) /\ call' = DoFinish(call, k)
             /\ UNCHANGED <<M, lim, serial, flist, pc, lv, planes, grid, glev>>
Gather ==
  /\ pc = "pool" /\ AllDone(call)
  /\ planes' = Append(planes, [b \in DOMAIN M[lv + 1] |-> [lev |-> lv, box |-> b]])
  /\ call' = NoCall
  /\ IF lv < lim THEN lv' = lv + 1 /\ pc' = "read" ELSE lv' = 0 /\ pc' = "broadcast"
  /\ UNCHANGED <<M, lim, serial, flist, grid, glev>>

\* levels sequentially, finer data overwrites coarser data
Broadcast ==
  /\ pc = "broadcast"
  /\ LET hit(p) == \E b \in DOMAIN M[lv + 1] : InBox(M[lv + 1][b], Ancestor(p, lim, lv))
     IN /\ grid' = [p \in DOMAIN grid |-> IF hit(p) THEN <<lv, Ancestor(p, lim, lv)>> ELSE grid[p]]
        /\ glev' = [p \in DOMAIN glev |-> IF hit(p) THEN lv ELSE glev[p]]
  /\ IF lv < lim THEN lv' = lv + 1 /\ pc' = "broadcast" ELSE lv' = lv /\ pc' = "done"
  /\ UNCHANGED <<M, lim, serial, flist, call, planes>>

Next == ReadLevel \/ Gather \/ Broadcast \/ (\E k \in 1..8 : Start(k) \/ Finish(k))
Spec == Init /\ [][Next]_vvars /\ WF_vvars(Next)

PlateIsCover == pc = "done" => \A p \in DOMAIN grid : grid[p] = CoverSpec(M, lim, p) /\ glev[p] = CoverLevel(M, lim, p)
NoUninit == pc = "done" => \A p \in DOMAIN grid : grid[p] # Uninit /\ glev[p] # -9
PoolOK == CallOK(call, W)
Terminates == <>(pc = "done")
=============================================================================
