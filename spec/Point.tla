-------------------------------- MODULE Point --------------------------------
(***************************************************************************)
(* Point queries  pck[fsel](x, y, z)  at interior cell centres.            *)
(*                                                                         *)
(* Positions are integers: one unit = half a cell of the finest level, the *)
(* domain starts at Origin (units).  The centre of cell i of level l is    *)
(* Origin + U(l) * i + U(l)/2 with U(l) = 2 * 2^(F-l).                     *)
(* Requirement: the stored value of that cell (the finest level covering   *)
(* it); outside the domain: refused.                                       *)
(* Implementation (mirrors LevelDataSelector.__call__): finest level with  *)
(* a box containing the point (closed bounds), finest level whose box      *)
(* contains it between its outermost cell centres, finest level with a box *)
(* within half a cell; when the first two agree the box is read and the    *)
(* value is interpolated at  (point - low corner)/dx - 0.5 - box low index.*)
(***************************************************************************)
EXTENDS Mesh

CONSTANTS N1, N2, MaxLev, MaxFine, Origins,
          OriginMode,    \* "subtract" (repaired code) | "ignore" (mutant = original code)
          MaxQ           \* 1 | 2: number of queries made on ONE selector object (the answer to a query must not
                         \* depend on the queries made before it)

VARIABLES M, origin, qlev, qcell, outside, pc, result, asked
vvars == <<M, origin, qlev, qcell, outside, pc, result, asked>>

F == Len(M) - 1
U(l) == 2 * Pow2(F - l)
Centre(l, i) == U(l) * i + U(l) \div 2         \* relative to the domain low corner

Meshes ==
  UNION {
    {<<t>> : t \in Tilings(N1, N2)} \cup
    (IF MaxLev >= 2 THEN
       UNION {{<<t, f1>> : f1 \in FineLevels(FineBoxes(<<t>>, 1, 2 * N1, 2 * N2, {4, 6}, {4}), MaxFine)} : t \in Tilings(N1, N2)}
     ELSE {}) \cup
    (IF MaxLev >= 3 THEN
       UNION {UNION {{<<t, f1, f2>> : f2 \in FineLevels(FineBoxes(<<t, f1>>, 2, 4 * N1, 4 * N2, {4}, {4}), 1)}
                      : f1 \in FineLevels(FineBoxes(<<t>>, 1, 2 * N1, 2 * N2, {4, 6}, {4}), MaxFine)} : t \in Tilings(N1, N2)}
     ELSE {})}

Interior(bx, c) == bx.lo[1] < c[1] /\ c[1] < bx.hi[1] /\ bx.lo[2] < c[2] /\ c[2] < bx.hi[2]
\* cells in the statement's domain: finest level covering them, at least one cell inside their box
Queryable(Mm) == UNION {{<<l, c>> : c \in {c2 \in LevelCells(Mm, l) :
                            /\ Interior(Mm[l + 1][BoxAt(Mm, l, c2)], c2)
                            /\ \A k \in (l + 1)..(Len(Mm) - 1) : \A ch \in Footprint(l, c2, k) : ~Covered(Mm, k, ch)}}
                        : l \in 0..(Len(Mm) - 1)}

Init ==
  /\ M \in Meshes /\ origin \in Origins
  /\ \/ (outside = FALSE /\ \E q \in Queryable(M) : qlev = q[1] /\ qcell = q[2])
     \/ (outside = TRUE /\ qlev = 0 /\ qcell \in {<<-1, 0>>, <<N1, 0>>, <<0, -1>>, <<0, N2>>, <<N1 + 5, N2 + 5>>})
  /\ pc = "query" /\ result = <<"none">> /\ asked = <<>>

\* absolute position (units) of the query point along axis d
Pos(d) == origin + Centre(qlev, qcell[d])
\* box bounds (units, absolute): [origin + U*lo, origin + U*(hi+1)]
Lo(l, bx, d) == origin + U(l) * bx.lo[d]
Hi(l, bx, d) == origin + U(l) * (bx.hi[d] + 1)
Exact(l) == {b \in DOMAIN M[l + 1] : \A d \in {1, 2} : Lo(l, M[l + 1][b], d) <= Pos(d) /\ Pos(d) <= Hi(l, M[l + 1][b], d)}
Inner(l) == {b \in DOMAIN M[l + 1] : \A d \in {1, 2} : Lo(l, M[l + 1][b], d) + U(l) \div 2 <= Pos(d)
                                                          /\ Pos(d) <= Hi(l, M[l + 1][b], d) - U(l) \div 2}
Outer(l) == {b \in DOMAIN M[l + 1] : \A d \in {1, 2} : 2 * Lo(l, M[l + 1][b], d) - U(l) \div 1 <= 2 * Pos(d)
                                                          /\ 2 * Pos(d) <= 2 * Hi(l, M[l + 1][b], d) + U(l)}
Finest(S(_)) == IF \E l \in 0..F : S(l) # {} THEN CHOOSE l \in 0..F : S(l) # {} /\ \A k \in (l + 1)..F : S(k) = {} ELSE -1

Query ==
  /\ pc = "query"
  /\ LET le == Finest(Exact)
         li == Finest(Inner)
         lo == Finest(Outer)
     IN IF le = -1 THEN result' = <<"err">>              \* IndexError: no box contains the point
        ELSE IF li = le
        THEN IF Cardinality(Inner(li)) # 1 \/ lo # li \/ Cardinality(Exact(le)) # 1 \/ Cardinality(Outer(lo)) # 1
             THEN result' = <<"err">>                    \* assertion
             ELSE LET b == CHOOSE b \in Inner(li) : TRUE
                      \* index of the point in level-li cells, as the code computes it (in half units to stay integral)
                      base(d) == IF OriginMode = "subtract" THEN Pos(d) - origin ELSE Pos(d)
                      \* (base/U - 1/2) - lo  is integral iff base - U/2 is a multiple of U
                      loc(d) == base(d) - U(li) \div 2 - U(li) * M[li + 1][b].lo[d]
                  IN IF \A d \in {1, 2} : loc(d) % U(li) = 0 /\ loc(d) >= 0 /\ loc(d) \div U(li) <= M[li + 1][b].hi[d] - M[li + 1][b].lo[d]
                     THEN result' = <<"cell", li, <<M[li + 1][b].lo[1] + loc(1) \div U(li), M[li + 1][b].lo[2] + loc(2) \div U(li)>>>>
                     ELSE result' = <<"offgrid">>        \* interpolated between cells or outside the box
        ELSE result' = <<"multibox">>                    \* CASE 2 of the code: not reached for interior centres
  /\ asked' = Append(asked, [lev |-> qlev, cell |-> qcell, outside |-> outside])
  /\ pc' = IF Len(asked) + 1 < MaxQ /\ ~outside THEN "next" ELSE "done"
  /\ UNCHANGED <<M, origin, qlev, qcell, outside>>

\* the same selector object is asked about another cell (same in-plane column, to keep the instance small)
AskAgain ==
  /\ pc = "next"
  /\ \E q \in Queryable(M) : q[2][2] = qcell[2] /\ <<q[1], q[2]>> # <<qlev, qcell>> /\ qlev' = q[1] /\ qcell' = q[2]
  /\ pc' = "query"
  /\ UNCHANGED <<M, origin, outside, result, asked>>

Next == Query \/ AskAgain
Spec == Init /\ [][Next]_vvars /\ WF_vvars(Next)

PointRefines == pc \in {"done", "next"} =>
   IF outside THEN result = <<"err">> ELSE result = <<"cell", qlev, qcell>>
=============================================================================
