------------------------------ MODULE Mandoline ------------------------------
(***************************************************************************)
(* mandoline: axis-aligned slices of 3-D plotfiles (C07) and their         *)
(* plotfile-format output (C16).                                           *)
(*                                                                         *)
(* Lattice: axis 1 = the slice normal, axis 2 = one in-plane axis (the     *)
(* harness extrudes the other in-plane axis).  Positions along the normal  *)
(* are integers; a cell of level l is U(l) = 4 * 2^(F-l) units wide (F the *)
(* finest level of the plotfile), so cell centres, faces, and both         *)
(* half-cell gaps beside every face are distinct integer positions.        *)
(* A sample is <<level, normal index>>; the column is given by the pixel.  *)
(*                                                                         *)
(* Requirement layer: Acceptable(..) per pixel -- bracketing, tightness    *)
(* where unambiguous, no uninitialised memory, grid level.                 *)
(* Implementation layer (mirrors mandoline.py / blades.py): box selection  *)
(* by closed interval [+ Ext half cells], slice_box's four cases, the      *)
(* level-then-header-order reduction into left / right arrays allocated    *)
(* UNINITIALISED, the two domain-face rules, interpolation.                *)
(***************************************************************************)
EXTENDS Mesh

CONSTANTS N0, T0, MaxLev, MaxFine,
          Ext,          \* 0: only boxes whose closed extent contains the plane (original code)
                        \* 1: also boxes within half a cell, unconditionally (a tempting but wrong repair)
                        \* 2: also boxes within half a cell, but a box the plane does not cross only completes, pixel
                        \*    by pixel, the side that the crossed boxes of ITS OWN level left undefined (repaired code)
          FaceLevel     \* TRUE (repaired code): the domain-face rules also copy the grid level | FALSE (original)

VARIABLES M, pos, lim, pc, lv, left, right, out
vvars == <<M, pos, lim, pc, lv, left, right, out>>

F == Len(M) - 1
U(l) == 4 * Pow2(F - l)
Centre(l, i) == U(l) * i + U(l) \div 2
NCells(l) == N0 * Pow2(l)                      \* cells of level l along the normal
Uninit == [s |-> <<-9, 0>>, n |-> -999, g |-> -9]
Side(s, n, g) == [s |-> s, n |-> n, g |-> g]   \* sample, its normal position, level recorded for grid_level

Meshes ==
  UNION {
    {<<t>> : t \in Tilings(N0, T0)} \cup
    (IF MaxLev >= 2 THEN
       UNION {{<<t, f1>> : f1 \in FineLevels(FineBoxes(<<t>>, 1, 2 * N0, 2 * T0, {2, 4}, {2, 4}), MaxFine)} : t \in Tilings(N0, T0)}
     ELSE {}) \cup
    (IF MaxLev >= 3 THEN
       UNION {UNION {{<<t, f1, f2>> : f2 \in FineLevels(FineBoxes(<<t, f1>>, 2, 4 * N0, 4 * T0, {4}, {4}), 1)}
                      : f1 \in FineLevels(FineBoxes(<<t>>, 1, 2 * N0, 2 * T0, {4}, {2, 4}), MaxFine)} : t \in Tilings(N0, T0)}
     ELSE {})}

Pix == 0..(T0 * Pow2(lim) - 1)                 \* in-plane pixels at the finest selected level
Col(t, l) == t \div Pow2(lim - l)              \* in-plane cell of level l under pixel t

Init ==
  /\ M \in Meshes /\ lim \in 0..(Len(M) - 1)
  /\ pos \in (-1)..(N0 * 4 * Pow2(Len(M) - 1) + 1)
  /\ pc = "check" /\ lv = 0
  /\ left = [t \in 0..(T0 * Pow2(lim) - 1) |-> Uninit] /\ right = [t \in 0..(T0 * Pow2(lim) - 1) |-> Uninit]
  /\ out = <<"none">>

-----------------------------------------------------------------------------
(* Requirement layer *)
DomHi == N0 * U(0)
\* stored samples of level l in the column of pixel t
Stored(l, t) == {i \in 0..(NCells(l) - 1) : Covered(M, l, <<i, Col(t, l)>>)}
\* boxes of level l over pixel t that meet the plane (closed extent)
Meets(l, t) == {b \in DOMAIN M[l + 1] : /\ M[l + 1][b].lo[2] <= Col(t, l) /\ Col(t, l) <= M[l + 1][b].hi[2]
                                        /\ U(l) * M[l + 1][b].lo[1] <= pos /\ pos <= U(l) * (M[l + 1][b].hi[1] + 1)}
\* (a) bracketing pairs <<l-sample, r-sample>> over all levels <= lim
Bracket(t) ==
  LET S == UNION {{<<l, i>> : i \in Stored(l, t)} : l \in 0..lim}
      nrm(s) == Centre(s[1], s[2])
  IN {<<a, b>> \in S \X S :
        \/ (nrm(a) <= pos /\ pos <= nrm(b) /\ (a = b => nrm(a) = pos))
        \* beyond the outermost cell centre of the domain (at that sample's level): the single nearest sample
        \/ (a = b /\ pos > Centre(a[1], NCells(a[1]) - 1) /\ a[2] = NCells(a[1]) - 1)
        \/ (a = b /\ pos < Centre(a[1], 0) /\ a[2] = 0)}
\* (b) the unambiguous case: the finest level with a box crossed by the plane at t has, in this column, samples on
\*     both sides of the plane in adjacent cells
TightLevel(t) == IF \E l \in 0..lim : Meets(l, t) # {}
                 THEN CHOOSE l \in 0..lim : Meets(l, t) # {} /\ \A k \in (l + 1)..lim : Meets(k, t) = {} ELSE -1
TightPair(t) ==
  LET l == TightLevel(t) IN
  IF l < 0 THEN <<>>
  ELSE \* level l's own samples in this column (possibly of two boxes facing each other) bracket the plane with
       \* two ADJACENT cells, or one of them lies exactly on it
       LET S == Stored(l, t)
           below == {i \in S : Centre(l, i) <= pos}
           above == {i \in S : Centre(l, i) >= pos}
       IN IF below = {} \/ above = {} THEN <<>>
          ELSE LET il == CHOOSE i \in below : \A j \in below : j <= i
                   ir == CHOOSE i \in above : \A j \in above : i <= j
               IN IF ir - il > 1 THEN <<>>
                  ELSE IF Centre(l, il) = pos THEN <<<<l, il>>, <<l, il>>>>
                  ELSE IF Centre(l, ir) = pos THEN <<<<l, ir>>, <<l, ir>>>>
                  ELSE <<<<l, il>>, <<l, ir>>>>
Acceptable(t) == IF TightPair(t) # <<>> THEN {TightPair(t)} ELSE Bracket(t)
\* (d) levels that have a box at t meeting the plane
GridLevels(t) == {l \in 0..lim : Meets(l, t) # {}}
InDomain == 0 <= pos /\ pos <= DomHi

-----------------------------------------------------------------------------
(* Implementation layer *)
CheckPos ==
  /\ pc = "check"
  /\ IF InDomain THEN pc' = "level" /\ out' = out ELSE pc' = "done" /\ out' = <<"err">>
  /\ UNCHANGED <<M, pos, lim, lv, left, right>>

\* compute_mpinput_3d: selected boxes of level l, in header order (2 * pos vs 2 * bounds -/+ Ext * U/2 ... in half units)
Selected(l) == SelectSeq([b \in DOMAIN M[l + 1] |-> b],
                 LAMBDA b : /\ 2 * U(l) * M[l + 1][b].lo[1] - (IF Ext > 0 THEN U(l) ELSE 0) <= 2 * pos
                            /\ 2 * pos <= 2 * U(l) * (M[l + 1][b].hi[1] + 1) + (IF Ext > 0 THEN U(l) ELSE 0))
MeetsPlane(l, b) == U(l) * M[l + 1][b].lo[1] <= pos /\ pos <= U(l) * (M[l + 1][b].hi[1] + 1)

\* slice_box: <<left contribution, right contribution>>, each a normal index or -1 (None)
SliceBox(l, b) ==
  LET lo == M[l + 1][b].lo[1]
      hi == M[l + 1][b].hi[1]
  IN IF pos > Centre(l, hi) THEN <<hi, -1>>
     ELSE IF pos < Centre(l, lo) THEN <<-1, lo>>
     ELSE IF \E i \in lo..hi : Centre(l, i) = pos THEN LET i == CHOOSE i \in lo..hi : Centre(l, i) = pos IN <<i, i>>
     ELSE LET il == CHOOSE i \in lo..hi : Centre(l, i) < pos /\ \A j \in (i + 1)..hi : Centre(l, j) > pos IN <<il, il + 1>>

\* reducemp_data_ortho: one level; fold over the selected boxes.  WL / WR: pixels whose left / right side has
\* been defined at THIS level by a box the plane crosses.
RECURSIVE Fold(_, _, _, _, _, _)
Fold(l, bs, L, R, WL, WR) ==
  IF bs = <<>> THEN <<L, R>>
  ELSE LET b == Head(bs)
           bx == M[l + 1][b]
           c == SliceBox(l, b)
           crossed == MeetsPlane(l, b)
           foot(t) == bx.lo[2] <= Col(t, l) /\ Col(t, l) <= bx.hi[2]
           lastc == Centre(l, NCells(l) - 1)
           firstc == Centre(l, 0)
       IN IF crossed \/ Ext < 2
          THEN LET over(t) == foot(t)
                   L1 == [t \in DOMAIN L |-> IF over(t) /\ c[1] >= 0 THEN Side(<<l, c[1]>>, Centre(l, c[1]), l) ELSE L[t]]
                   \* "slice plane after the last grid point": the left plane also becomes the right plane
                   faceR(t) == over(t) /\ c[1] >= 0 /\ Centre(l, c[1]) = lastc
                   R1 == [t \in DOMAIN R |-> IF faceR(t) THEN Side(<<l, c[1]>>, Centre(l, c[1]), IF FaceLevel THEN l ELSE R[t].g) ELSE R[t]]
                   R2 == [t \in DOMAIN R |-> IF over(t) /\ c[2] >= 0 THEN Side(<<l, c[2]>>, Centre(l, c[2]), l) ELSE R1[t]]
                   faceL(t) == over(t) /\ c[2] >= 0 /\ Centre(l, c[2]) = firstc
                   L2 == [t \in DOMAIN L |-> IF faceL(t) THEN Side(<<l, c[2]>>, Centre(l, c[2]), IF FaceLevel THEN l ELSE L1[t].g) ELSE L1[t]]
               IN Fold(l, Tail(bs), L2, R2,
                       WL \cup {t \in DOMAIN L : (over(t) /\ c[1] >= 0) \/ faceL(t)},
                       WR \cup {t \in DOMAIN R : (over(t) /\ c[2] >= 0) \/ faceR(t)})
          ELSE \* a box within half a cell of the plane: completes only the side the crossed boxes of its level left undefined
               LET needL(t) == foot(t) /\ c[1] >= 0 /\ t \in WR /\ t \notin WL
                   needR(t) == foot(t) /\ c[2] >= 0 /\ t \in WL /\ t \notin WR
                   L1 == [t \in DOMAIN L |-> IF needL(t) THEN Side(<<l, c[1]>>, Centre(l, c[1]), l) ELSE L[t]]
                   R1 == [t \in DOMAIN R |-> IF needR(t) THEN Side(<<l, c[2]>>, Centre(l, c[2]), l) ELSE R[t]]
               IN Fold(l, Tail(bs), L1, R1, WL, WR)

ReduceLevel ==
  /\ pc = "level"
  /\ LET sel == Selected(lv)
         ordered == IF Ext = 2 THEN SelectSeq(sel, LAMBDA b : MeetsPlane(lv, b)) \o SelectSeq(sel, LAMBDA b : ~MeetsPlane(lv, b))
                    ELSE sel
         r == Fold(lv, ordered, left, right, {}, {})
     IN left' = r[1] /\ right' = r[2]
  /\ IF lv < lim THEN lv' = lv + 1 /\ pc' = "level" ELSE lv' = lv /\ pc' = "interp"
  /\ UNCHANGED <<M, pos, lim, out>>

\* interpolation: where the two normals differ, lerp(left, right); elsewhere the right sample
Interp ==
  /\ pc = "interp"
  /\ out' = [t \in DOMAIN left |->
               [l |-> IF left[t].n # right[t].n THEN left[t].s ELSE right[t].s,
                r |-> right[t].s,
                \* a side never written is garbage: its normal may by chance equal anything; the value is garbage anyway
                uninit |-> left[t].s = Uninit.s \/ right[t].s = Uninit.s,
                g |-> IF left[t].g < right[t].g THEN left[t].g ELSE right[t].g,
                guninit |-> left[t].g = -9 \/ right[t].g = -9]]
  /\ pc' = "done"
  /\ UNCHANGED <<M, pos, lim, lv, left, right>>

Next == CheckPos \/ ReduceLevel \/ Interp
Spec == Init /\ [][Next]_vvars /\ WF_vvars(Next)

-----------------------------------------------------------------------------
\* a pair with a sample exactly on the plane interpolates to that sample's value
NormPair(p) == IF Centre(p[1][1], p[1][2]) = pos THEN <<p[1], p[1]>>
               ELSE IF Centre(p[2][1], p[2][2]) = pos THEN <<p[2], p[2]>> ELSE p
Refused == pc = "done" /\ out = <<"err">>
SliceRefines == pc = "done" =>
   IF ~InDomain THEN out = <<"err">>
   ELSE /\ out # <<"err">>
        /\ \A t \in DOMAIN out : /\ ~out[t].uninit
                                 /\ NormPair(<<out[t].l, out[t].r>>) \in Acceptable(t)
NoUninit == (pc = "done" /\ InDomain) => \A t \in DOMAIN out : ~out[t].uninit /\ ~out[t].guninit
GridLevelOK == (pc = "done" /\ InDomain) => \A t \in DOMAIN out : out[t].guninit \/ out[t].g \in GridLevels(t)
\* the requirement is satisfiable everywhere in the domain
SpecNonEmpty == (pc = "check" /\ InDomain) => \A t \in Pix : Acceptable(t) # {}
Terminates == <>(pc = "done")
=============================================================================
