----------------------------- MODULE Descriptors -----------------------------
(***************************************************************************)
(* File descriptors as a bounded resource of ONE reader task that walks a  *)
(* binary file box by box (whip's per-file reader, the reader's per-file   *)
(* iterators, taste's walks, pestle's workers).                            *)
(*                                                                         *)
(* HandlePolicy = "per-file"  (the code): the file is opened once, every   *)
(*      box is read through that descriptor, it is closed when the walk    *)
(*      ends;                                                              *)
(*              = "per-box"   (mutant: a memory map / a second open per    *)
(*      box that lives as long as the returned array): one more descriptor *)
(*      per box until the task returns.                                    *)
(* OnError = "propagate" (the code since fix ab80582) | "end-of-file"      *)
(*      (the old catch-all: any error while reading a box ends the walk).  *)
(*                                                                         *)
(* Requirement: every box of the file is delivered, or the task fails      *)
(* visibly; the number of descriptors held does not depend on the number   *)
(* of boxes.                                                               *)
(***************************************************************************)
EXTENDS Naturals, Sequences, FiniteSets, TLC

CONSTANTS NBoxes, Limit, HandlePolicy, OnError
VARIABLES pc, held, delivered, outcome
vars == <<pc, held, delivered, outcome>>

Init == pc = "open" /\ held = 0 /\ delivered = 0 /\ outcome = "running"

Open == /\ pc = "open"
        /\ IF held + 1 > Limit THEN outcome' = "error" /\ pc' = "done" /\ UNCHANGED <<held, delivered>>
           ELSE held' = held + 1 /\ pc' = "walk" /\ UNCHANGED <<delivered, outcome>>
ReadBox ==
  /\ pc = "walk" /\ delivered < NBoxes
  /\ IF HandlePolicy = "per-box" /\ held + 1 > Limit
     THEN \* the per-box map cannot be created
          IF OnError = "propagate" THEN outcome' = "error" /\ pc' = "done" /\ UNCHANGED <<held, delivered>>
          ELSE pc' = "close" /\ UNCHANGED <<held, delivered, outcome>>          \* taken for the end of the file
     ELSE /\ delivered' = delivered + 1
          /\ held' = IF HandlePolicy = "per-box" THEN held + 1 ELSE held
          /\ UNCHANGED <<pc, outcome>>
EndOfFile == pc = "walk" /\ delivered = NBoxes /\ pc' = "close" /\ UNCHANGED <<held, delivered, outcome>>
Close == pc = "close" /\ held' = 0 /\ outcome' = "returned" /\ pc' = "done" /\ UNCHANGED delivered
Next == Open \/ ReadBox \/ EndOfFile \/ Close
Spec == Init /\ [][Next]_vars /\ WF_vars(Next)

AllOrError == pc = "done" => (outcome = "error" \/ delivered = NBoxes)
BoundedHandles == held <= 1           \* whatever NBoxes is
Succeeds == (pc = "done" /\ Limit >= 1) => outcome = "returned"
Terminates == <>(pc = "done")
=============================================================================
