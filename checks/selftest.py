"""
./check --selftest [names...]

Vacuity / binding guards:
  (1) mutant constants -- for every model, the constant values that reproduce a defective design
      (most of them are the ORIGINAL code before its `fix:` commit) must make TLC report a
      violation of the named invariant; the repaired values must not.  This shows the invariants
      can fail, i.e. the bounded models exercise them.
  (2) binding -- a deliberately corrupted expectation must be rejected by the replay comparer
      (C05 and C01), i.e. the harness really compares what the code produced.
Exit 0 when every guard behaves, 1 otherwise.
"""
import copy
import sys

from harness import core, tlc

ALLK = ('{"DeleteFile","Truncate","Extend","InsertData","RemoveData","FabIdx","FabNComp","CellHIdx","DropBoxLine",'
        '"DropFodLine","GarbleBox","GarbleFod","NFieldsLine","FodFile","FodOffset","BoxBound"}')


def mc(module, consts, invs, defs=None, props=None, spec=None):
    c = {"CONSTANTS": consts, "INVARIANTS": invs}
    if spec:
        c["SPECIFICATION"] = spec
    else:
        c["INIT"], c["NEXT"] = "Init", "Next"
    if defs:
        c["DEFS"] = defs
    if props:
        c["PROPERTIES"] = props
    return module, c


def guards():
    G = []

    def add(name, module_cfg, expect):
        G.append((name, module_cfg, expect))
    # session 4: refinement ratios as data, descriptors as a bounded resource
    rf = dict(ResolutionRule='"none"', IndexRule='"own-dx"', MaxJumps=3, N0s="{4, 5}")
    rinv = ["HeaderWellFormed", "AcceptsWellFormed", "PointIndexRight"]
    add("Refine: the code's rules", ("MC_Refine", {"INIT": "Init", "NEXT": "Next", "CONSTANTS": rf, "INVARIANTS": rinv}), None)
    add("Refine: product rule accepted", ("MC_Refine", {"INIT": "Init", "NEXT": "Next", "CONSTANTS": dict(rf, ResolutionRule='"product"'), "INVARIANTS": rinv}), None)
    add("Refine: resolution ratio**level", ("MC_Refine", {"INIT": "Init", "NEXT": "Next", "CONSTANTS": dict(rf, ResolutionRule='"power-of-last"'), "INVARIANTS": rinv}),
        "AcceptsWellFormed")
    add("Refine: index from level-0 cells * 2**level", ("MC_Refine", {"INIT": "Init", "NEXT": "Next", "CONSTANTS": dict(rf, IndexRule='"pow2-of-level0"'), "INVARIANTS": rinv}),
        "PointIndexRight")
    sm = dict(StartMethod='"spawn"', Transport='"by-task"', Requests="{0, 1, 2}")
    add("StartMethod: request in the task (spawn)", ("StartMethod", {"SPECIFICATION": "Spec", "CONSTANTS": sm, "INVARIANTS": ["WorkerSeesRequest"]}), None)
    add("StartMethod: request in a global (fork)", ("StartMethod", {"SPECIFICATION": "Spec", "CONSTANTS": dict(sm, StartMethod='"fork"', Transport='"by-global"'),
                                                                    "INVARIANTS": ["WorkerSeesRequest"]}), None)
    add("StartMethod: request in a global (spawn)", ("StartMethod", {"SPECIFICATION": "Spec", "CONSTANTS": dict(sm, Transport='"by-global"'),
                                                                     "INVARIANTS": ["WorkerSeesRequest"]}), "WorkerSeesRequest")
    ds = dict(NBoxes=6, Limit=3, HandlePolicy='"per-file"', OnError='"propagate"')
    dinv = ["AllOrError", "BoundedHandles", "Succeeds"]
    add("Descriptors: one handle per file", ("Descriptors", {"SPECIFICATION": "Spec", "CONSTANTS": ds, "INVARIANTS": dinv, "PROPERTIES": ["Terminates"]}), None)
    add("Descriptors: one handle per box", ("Descriptors", {"SPECIFICATION": "Spec", "CONSTANTS": dict(ds, HandlePolicy='"per-box"'), "INVARIANTS": dinv}), "BoundedHandles")
    add("Descriptors: per box, error taken for end of file", ("Descriptors", {"SPECIFICATION": "Spec", "CONSTANTS": dict(ds, HandlePolicy='"per-box"', OnError='"end-of-file"'),
                                                                         "INVARIANTS": ["AllOrError"]}), "AllOrError")
    r01 = dict(MaxLev=1, MaxBox=2, MaxFile=2, FMode='"all"', BMode='"few"', Mode='"read"', W=2,
               PostIndex='"step"', NegField='"normalise"', NpIntBox='"int"')
    N3 = {"Names": '<<"a","b","c">>'}
    add("C01 repaired", mc("MC_C01", r01, ["ReadRefines"], N3), None)
    add("C01 slice applied twice", mc("MC_C01", dict(r01, PostIndex='"slice_again"'), ["ReadRefines"], N3), "ReadRefines")
    add("C01 raw negative field index", mc("MC_C01", dict(r01, NegField='"raw"'), ["ReadRefines"], N3), "ReadRefines")
    add("C01 numpy int box index", mc("MC_C01", dict(r01, NpIntBox='"none"', BMode='"all"', FMode='"few"'), ["ReadRefines"], N3), "ReadRefines")
    r05 = dict(MaxLev=1, MaxBox=3, MaxFile=3, MaxVars=1, W=2, SchedMode='"all"', Gather='"by_task"')
    N2 = {"Names": '<<"a","b">>'}
    add("C05 repaired", mc("MC_C05", r05, ["StrainRefines"], N2), None)
    add("C05 gather by arrival", mc("MC_C05", dict(r05, Gather='"by_arrival"'), ["StrainRefines"], N2), "StrainRefines")
    t = dict(NF=2, MaxBox=2, MaxFile=2, MaxCorrupt=2, Kinds='{"CellHIdx","FodOffset"}', CheckFirstHeader="TRUE", SortOffsets="TRUE",
             EOFRule="TRUE", ExactNext="TRUE", OptMode='"default"', DataCheckBroken="TRUE")
    tinv = ["AcceptsWellFormed", "RejectsDamaged", "AcceptedIsReadable"]
    add("Taste repaired (pairs)", mc("MC_Taste", t, tinv), None)
    add("Taste first header unchecked", mc("MC_Taste", dict(t, CheckFirstHeader="FALSE"), tinv), "RejectsDamaged")
    add("Taste no end-of-file rule", mc("MC_Taste", dict(t, EOFRule="FALSE", MaxCorrupt=1, Kinds='{"Extend"}'), tinv), "RejectsDamaged")
    add("Taste first header unchecked (cut header)", mc("MC_Taste", dict(t, CheckFirstHeader="FALSE", MaxCorrupt=1, Kinds='{"HeadCut"}'), tinv), "RejectsDamaged")
    add("Taste positions instead of header bytes (values moved between two FABs)", mc("MC_Taste", dict(t, ExactNext="FALSE", MaxCorrupt=1, Kinds='{"DataShift"}'), tinv), "RejectsDamaged")
    add("Taste header bytes compared (values moved between two FABs)", mc("MC_Taste", dict(t, MaxCorrupt=1, Kinds='{"DataShift"}'), tinv), None)
    add("Taste header-order walk", mc("MC_Taste", dict(t, SortOffsets="FALSE", MaxCorrupt=0, Kinds="{}", MaxBox=3), tinv), "AcceptsWellFormed")
    r06 = dict(MaxLev=1, MaxBox=3, MaxFile=2, MaxBox2=1, W=2, SchedMode='"fifo"', MapOrder='"disk"', ModeAssign='"assign"')
    F = {"F1": '<<"a","b">>', "F2": '<<"a","c">>'}
    add("C06 repaired", mc("MC_C06", r06, ["CombineRefines", "RefusedWritesNothing"], F), None)
    add("C06 header-order offset map", mc("MC_C06", dict(r06, MapOrder='"header"'), ["CombineRefines"], F), "CombineRefines")
    add("C06 byoffset never chosen", mc("MC_C06", dict(r06, ModeAssign='"compare"'), ["CombineRefines"], F), "CombineRefines")
    r07 = dict(N0=4, T0=2, MaxLev=2, MaxFine=1, Ext=2, FaceLevel="TRUE", EmitMod=1, EmitRes=0)
    i07 = ["SliceRefines", "NoUninit", "GridLevelOK"]
    add("C07 repaired", mc("MC_C07", r07, i07), None)
    add("C07 no half-cell neighbours", mc("MC_C07", dict(r07, Ext=0), i07), "SliceRefines")
    add("C07 unconditional neighbours", mc("MC_C07", dict(r07, Ext=1), i07), "SliceRefines")
    add("C07 face rule without grid level", mc("MC_C07", dict(r07, FaceLevel="FALSE"), ["NoUninit"]), "NoUninit")
    r09 = dict(N1s="{8,10}", N2=4, MaxLev=2, MaxFine=2, RezMode='"gcd"', LimitMode='"upto"')
    add("C09 repaired", mc("MC_C09", r09, ["IntegralRefines", "ExactlyOnce"]), None)
    add("C09 map at smallest extent", mc("MC_C09", dict(r09, RezMode='"min_extent"'), ["IntegralRefines", "ExactlyOnce"]), "IntegralRefines")
    add("C09 finest level only", mc("MC_C09", dict(r09, LimitMode='"finest_only"'), ["IntegralRefines"]), "IntegralRefines")
    r10 = dict(N1=3, N2=2, MaxLev=2, MaxFine=1, W=2, Barrier="TRUE")
    add("C10 repaired", mc("MC_C10", r10, ["FinalIsCover", "LevelsSequential"]), None)
    add("C10 no level barrier", mc("MC_C10", dict(r10, Barrier="FALSE"), ["FinalIsCover"]), "FinalIsCover")
    r11 = dict(MaxLev=1, MaxBox=3, MaxFile=2, W=2, SchedMode='"fifo"', NamesOrder='"kept_first"', MapOrder='"disk"', NNewSet="{1,2}")
    add("C11 repaired", mc("MC_C11", r11, ["CookRefines"], N3), None)
    add("C11 new names first", mc("MC_C11", dict(r11, NamesOrder='"new_first"'), ["CookRefines"], N3), "CookRefines")
    add("C11 header-order offset map", mc("MC_C11", dict(r11, MapOrder='"header"'), ["CookRefines"], N3), "CookRefines")
    cc = dict(MaxCooks=2, ClearPolicy='"always"')
    add("ChefCache repaired", mc("ChefCache", cc, ["EveryCookUsesItsOwnState"]), None)
    add("ChefCache pool never dropped", mc("ChefCache", dict(cc, ClearPolicy='"never"'), ["EveryCookUsesItsOwnState"]), "EveryCookUsesItsOwnState")
    add("ChefCache pool dropped for new shapes only", mc("ChefCache", dict(cc, ClearPolicy='"new_shapes"'), ["EveryCookUsesItsOwnState"]), "EveryCookUsesItsOwnState")
    for t in ("colander", "taste", "chk2plt", "mandoline"):
        add("Cli %s repaired" % t, mc("MC_Cli", dict(SpeciesType='"str"', OnlyTool='"%s"' % t), ["MCRefines"]), None)
    add("Cli chk2plt species declared int", mc("MC_Cli", dict(SpeciesType='"int"', OnlyTool='"chk2plt"'), ["MCRefines"]), "MCRefines")
    cs = dict(NS=4, MaxSel=3, IndexMode='"list"')
    add("ChefSel index list (the code)", mc("ChefSel", cs, ["OwnName"]), None)
    add("ChefSel consecutive block read as a slice", mc("ChefSel", dict(cs, IndexMode='"slice_if_block"'), ["OwnName"]), "OwnName")
    add("ChefSel sorted indexes", mc("ChefSel", dict(cs, IndexMode='"sorted"'), ["OwnName"]), "OwnName")
    add("FieldKeys first free number (the code)", mc("MC_Keys", dict(Alphabet='{"a","b","a_2"}', MaxFields=3, Numbering='"first-free"'), ["KeysRefine"]), None)
    add("FieldKeys numbered by occurrence count", mc("MC_Keys", dict(Alphabet='{"a","b","a_2"}', MaxFields=3, Numbering='"count"'), ["KeysRefine"]), "KeysRefine")
    add("BufWriter files closed explicitly", mc("BufWriter", dict(NWrites=3, Cap=4, DevFailsAt=1, CloseMode='"explicit"'), ["LossIsReported"], spec="Spec"), None)
    add("BufWriter file left to its finaliser", mc("BufWriter", dict(NWrites=3, Cap=4, DevFailsAt=1, CloseMode='"finaliser"'), ["LossIsReported"], spec="Spec"), "LossIsReported")
    add("PathRes path opened as typed (the code)", mc("PathRes", dict(Canon='"none"'), ["SpellingsAreEquivalent", "OpensWhatWasNamed"]), None)
    add("PathRes path canonicalised with abspath before opening", mc("PathRes", dict(Canon='"abspath"'), ["OpensWhatWasNamed"]), "OpensWhatWasNamed")
    pe = dict(Dirs='{"a","b"}', MaxSteps=4)
    add("PoolEnv a pool per call (the code)", mc("PoolEnv", dict(pe, PoolPolicy='"per-call"'), ["DataOfTheNamedPlotfile"], spec="Spec"), None)
    add("PoolEnv one pool kept for the life of the process", mc("PoolEnv", dict(pe, PoolPolicy='"persistent"'), ["DataOfTheNamedPlotfile"], spec="Spec"), "DataOfTheNamedPlotfile")
    rc = dict(MaxCooks=3)
    add("RecipeCache file executed, function sent by value (the code)", mc("RecipeCache", dict(rc, ImportPolicy='"exec-file"', Transport='"by-value"'), ["EveryCookEvaluatesItsOwnFile"]), None)
    add("RecipeCache file imported as a module", mc("RecipeCache", dict(rc, ImportPolicy='"import-module"', Transport='"by-value"'), ["EveryCookEvaluatesItsOwnFile"]), "EveryCookEvaluatesItsOwnFile")
    add("RecipeCache function sent by name to a cached pool", mc("RecipeCache", dict(rc, ImportPolicy='"exec-file"', Transport='"by-name"'), ["EveryCookEvaluatesItsOwnFile"]), "EveryCookEvaluatesItsOwnFile")
    add("MenuOpts one test per display (the code)", mc("MenuOpts", dict(Dispatch='"independent"'), ["EveryDisplayShown"]), None)
    add("MenuOpts if / elif chain", mc("MenuOpts", dict(Dispatch='"first-only"'), ["EveryDisplayShown"]), "EveryDisplayShown")
    add("BufWriter unbuffered file, count ignored", mc("BufWriter", dict(NWrites=5, Cap=2, DevFailsAt=3, CloseMode='"raw-unchecked"'), ["LossIsReported"], spec="Spec"), "LossIsReported")
    add("PoolLife pool kept referenced", mc("PoolLife", dict(N=2, KeepRef="TRUE"), ["NoWedge"], props=["CallerFinishes"], spec="Spec"), None)
    add("PoolLife empty job, pool dropped", mc("PoolLife", dict(N=0, KeepRef="FALSE"), ["NoWedge"], spec="Spec"), "NoWedge")
    add("PoolLife workers faster than the task handler", mc("PoolLife", dict(N=2, KeepRef="FALSE"), ["NoWedge"], spec="Spec"), "NoWedge")
    r12 = dict(MaxN=3, MaxW=3, Gather='"by_task"')
    add("C12 repaired", mc("MC_C12", r12, ["ScheduleFree"]), None)
    add("C12 gather by arrival", mc("MC_C12", dict(r12, Gather='"by_arrival"'), ["ScheduleFree"]), "ScheduleFree")
    r13 = dict(Norm='"abspath"', PropagateFault="TRUE", OutRoot='"out"')
    i13 = ["DefaultBeside", "WritesUnderOutput", "InputsUntouched", "FailureVisible"]
    add("C13 repaired", mc("MC_C13", r13, i13, spec="Spec"), None)
    add("C13 raw path text", mc("MC_C13", dict(r13, Norm='"none"'), i13, spec="Spec"), "DefaultBeside")
    add("C13 normpath only ('.' and '..')", mc("MC_C13", dict(r13, Norm='"normpath"'), i13, spec="Spec"), "DefaultBeside")
    add("C13 swallowed fault", mc("MC_C13", dict(r13, PropagateFault="FALSE"), i13, spec="Spec"), "FailureVisible")
    add("C13 writes into the input", mc("MC_C13", dict(r13, OutRoot='"in1"'), i13, spec="Spec"), "WritesUnderOutput")
    r16 = dict(N0=3, T0=2, MaxLev=2, MaxFine=1, ChunkRule='"ceil"', EmitMod=1, EmitRes=0)
    add("C16 repaired", mc("MC_C16", r16, ["ByLevelRefines", "BoxesWritten", "ChunkingKeepsAll"]), None)
    add("C16 floor chunking", mc("MC_C16", dict(r16, ChunkRule='"floor"'), ["ChunkingKeepsAll"]), "ChunkingKeepsAll")
    r17 = dict(NS=2, MaxLev=1, MaxBox=2, MaxFile=2, W=2, SchedMode='"fifo"', MapOrder='"disk"')
    add("C17 repaired", mc("MC_C17", r17, ["ConvertRefines"]), None)
    add("C17 header-order box map", mc("MC_C17", dict(r17, MapOrder='"header"'), ["ConvertRefines"]), "ConvertRefines")
    add("C18 repaired", mc("MC_C18", dict(MaxFields=3, Parity='"mod2"'), ["ListedOnce", "RowPerField"]), None)
    add("C18 floor-division parity", mc("MC_C18", dict(MaxFields=3, Parity='"floordiv"'), ["RowPerField"]), "RowPerField")
    r19 = dict(N1=6, N2=4, MaxLev=2, MaxFine=1, OriginMode='"subtract"', MaxQ=1)
    O = {"Origins": "{0,6,-10}"}
    add("C19 repaired", mc("MC_C19", r19, ["PointRefines"], O), None)
    add("C19 origin ignored", mc("MC_C19", dict(r19, OriginMode='"ignore"'), ["PointRefines"], O), "PointRefines")
    return G


def binding():
    """Corrupted expectations must be rejected by the replay."""
    out = []
    core.import_repo()
    from checks import c05, c01
    chk = core.Check("selftest", "quick", 0)
    try:
        r = tlc.run("MC_C05", c05.tlc_cfg(dict(Names='<<"a","b","c">>', MaxLev=1, MaxBox=2, MaxFile=2, MaxVars=2, W=2,
                                               SchedMode='"fifo"', Gather='"by_task"')), timeout=600)
        sc = [s for s in r.emitted if len(s["expect"]["fields"]) == 2 and len(s["levels"][0]["cells"]) == 2][0]
        ok = c05.run_scenario(chk, sc, 1) is None
        bad = copy.deepcopy(sc)
        b0 = bad["expect"]["lev"][0]
        b0[0]["comps"], b0[1]["comps"] = b0[1]["comps"], b0[0]["comps"]
        rej = c05.run_scenario(chk, bad, 1) is not None
        out.append(("C05 replay accepts the true expectation", ok))
        out.append(("C05 replay rejects swapped boxes in the expectation", rej))
        bad2 = copy.deepcopy(sc)
        bad2["expect"]["lev"][0][0]["mm"] = list(reversed(bad2["expect"]["lev"][0][0]["mm"]))
        out.append(("C05 replay rejects swapped min/max columns", c05.run_scenario(chk, bad2, 1) is not None))
        r = tlc.run("MC_C01", c01.cfg('<<"a","b","c">>', MaxLev=1, MaxBox=2, MaxFile=2, FMode='"few"', BMode='"few"', Mode='"read"', W=2), timeout=600)
        w = c01.World(chk)
        sc = [s for s in r.emitted if s["expect"].get("k") == "ok" and len(s["expect"]["boxes"]) == 2][0]
        out.append(("C01 replay accepts the true expectation", c01.run_read(chk, w, sc, 3, 5, "wild") is None))
        bad = copy.deepcopy(sc)
        bad["expect"]["boxes"].reverse()
        out.append(("C01 replay rejects reversed box order", c01.run_read(chk, w, bad, 3, 5, "wild") is not None))
        # code -> spec: a recorded operation history is accepted by OpTrace.tla, and rejected (with the failing clause named)
        # once a single recorded field is corrupted
        from harness import optrace
        lines = None
        for hseed in range(1, 60):
            lines, _ = optrace.record_history(chk, hseed, ["strain"], 1, ndims=3, big=True, nops=2)
            st = [ln for ln in lines if ln["ev"] == "Strain" and ln["R"]["k"] == "ok" and len(ln["R"]["fields"]) >= 2
                  and len(ln["R"]["lev"][0]) >= 2]
            if st:
                break
        out.append(("OpTrace accepts a recorded history", optrace.validate(chk, lines, "selftest") == []))

        def corrupted(fn):
            c = copy.deepcopy(lines)
            fn([ln for ln in c if ln["ev"] == "Strain" and ln["R"]["k"] == "ok" and len(ln["R"]["fields"]) >= 2 and len(ln["R"]["lev"][0]) >= 2][0])
            return [v[3] for v in optrace.validate(chk, c, "selftest")]

        def swap_comps(ln):
            b = ln["R"]["lev"][0][0]["comps"]
            b[0], b[1] = b[1], b[0]

        def swap_boxes(ln):
            L = ln["R"]["lev"][0]
            L[0]["comps"], L[1]["comps"] = L[1]["comps"], L[0]["comps"]

        def mm(ln):
            ln["R"]["lev"][0][0]["mm"][0] = "0x0.0p+0/0x0.0p+0"

        def src_changed(ln):
            ln["S"]["lev"][0][0]["comps"][0] = "0000000000000000:1x1x1"
        out.append(("OpTrace rejects swapped components (box-data)", corrupted(swap_comps)[:1] == ["box-data"]))
        out.append(("OpTrace rejects swapped boxes (box-data)", corrupted(swap_boxes)[:1] == ["box-data"]))
        out.append(("OpTrace rejects a wrong min/max entry", corrupted(mm)[:1] == ["min-max-rows"]))
        out.append(("OpTrace rejects a modified source", "input-modified" in corrupted(src_changed)))
        out.append(("OpTrace rejects a dropped field", corrupted(lambda ln: ln["R"]["fields"].pop())[:1] == ["fields"]))
        # CoverTrace: recorded covering grids are accepted; one corrupted pixel / grid level / row is rejected with its clause
        from harness import covertrace
        cl = [covertrace.record(chk, 4000 + k, "plate", k + 1) for k in range(4)]
        out.append(("CoverTrace accepts recorded flattenings", covertrace.validate(chk, cl, "selftest") == []))
        c2 = copy.deepcopy(cl)
        c2[0]["grid"][0][0] = [0, 1, 1] if c2[0]["grid"][0][0] != [0, 1, 1] else [0, 0, 0]
        c2[1]["glev"][-1][-1] += 1
        c2[2]["grid"] = c2[2]["grid"][:-1]
        got = sorted(covertrace.validate(chk, c2, "selftest"))
        out.append(("CoverTrace rejects a wrong pixel, a wrong grid level, a missing row",
                    got == [(1, "pixel-is-not-the-covering-cell"), (2, "grid-level-is-not-the-covering-level"), (3, "grid-shape")]))
    finally:
        chk.cleanup()
    return out


def main(argv):
    failed = 0
    only = set(argv)
    for name, (module, cfg), expect in guards():
        if only and not any(o in name for o in only):
            continue
        r = tlc.run(module, cfg, timeout=1800)
        if r.error:
            print("SELFTEST %-40s MACHINERY-ERROR %s" % (name, r.error[:200]))
            failed += 1
            continue
        ok = (r.violated == expect) if expect else (r.violated is None)
        print("SELFTEST %-40s %s (TLC: %s, %d states)" % (name, "ok" if ok else "UNEXPECTED", r.violated or "no violation", r.distinct))
        failed += 0 if ok else 1
    if not only or "binding" in only:
        for name, ok in binding():
            print("SELFTEST %-40s %s" % (name, "ok" if ok else "UNEXPECTED"))
            failed += 0 if ok else 1
    print("selftest: %d unexpected" % failed)
    return 1 if failed else 0
