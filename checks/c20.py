"""C20 -- whatever taste accepts, the reader can read completely and consistently (see c04.py)."""
from checks import c04


def run(chk, replay):
    c04.run_prop(chk, replay, "C20")
    if not replay:
        # the working directory changes between validations: what the validator accepted is what the reader reads (PoolEnv.tla)
        from harness import poolenv
        poolenv.tool_phase(chk, "taste-read")
        # hierarchies with refinement ratios 2 / 4 / mixed (Refine.tla): accepted => every box reads completely
        from harness import refine
        refine.phase(chk, "read")
