"""C20 -- whatever taste accepts, the reader can read completely and consistently (see c04.py)."""
from checks import c04


def run(chk, replay):
    c04.run_prop(chk, replay, "C20")
