"""
C06 -- combine merges fields box by box, independent of either input's file layout.

Decider: TLC checks Combine.tla (validation, mode choice, the three workers, gather through
map_bfile_offsets, level-header rewrite) against CombineSpec for every pair of independently
laid out inputs on a common mesh x field selections, and for mismatched pairs (refusal before
anything is written); every behaviour is emitted and replayed into the real combine().
"""
import os
import random

from harness import alpha, compare, core, gamma, shims, tlc, util
from harness import spell

F1, F2 = '<<"a","b">>', '<<"a","c">>'
INV = ["CombineRefines", "RefusedWritesNothing", "NoSharedWrites", "PoolOK", "Emit"]


F1L, F2L = '<<"a","b","c","d">>', '<<"a","e","f","g">>'


def cfg(f1=F1, f2=F2, **c):
    base = dict(W=2, SchedMode='"fifo"', MapOrder='"disk"', ModeAssign='"assign"')
    base.update(c)
    return {"INIT": "Init", "NEXT": "Next", "DEFS": {"F1": f1, "F2": f2}, "CONSTANTS": base,
            "INVARIANTS": INV, "PROPERTIES": ["InputsUnchanged"]}


def models(tier):
    if tier == "quick":
        return [("pairs, one level", cfg(MaxLev=1, MaxBox=3, MaxFile=2, MaxBox2=1)),
                ("pairs, two levels", cfg(MaxLev=2, MaxBox=2, MaxFile=2, MaxBox2=2)),
                ("schedules", cfg(MaxLev=1, MaxBox=2, MaxFile=2, MaxBox2=1, SchedMode='"all"')),
                ("selections of four-field inputs", cfg(F1L, F2L, MaxLev=1, MaxBox=1, MaxFile=1, MaxBox2=1))]
    return [("selections of four-field inputs", cfg(F1L, F2L, MaxLev=1, MaxBox=2, MaxFile=2, MaxBox2=1)),
            ("pairs, one level, 3 files", cfg(MaxLev=1, MaxBox=3, MaxFile=3, MaxBox2=1)),
            ("pairs, two levels", cfg(MaxLev=2, MaxBox=3, MaxFile=2, MaxBox2=2)),
            ("schedules", cfg(MaxLev=2, MaxBox=3, MaxFile=3, MaxBox2=1, SchedMode='"all"', W=3))]


def build_pair(sc, ndims=3):
    level_classes = [[c - 1 for c in cl] for cl in sc["cells"]]
    dom, lv_boxes = gamma.mesh_from_classes(level_classes, ndims)

    def mk(src, fields, desc):
        levels = []
        for l, D in enumerate(desc):
            boxes = []
            for idx in D["idx"]:
                if idx >= 90:
                    b = dict(lv_boxes[l][idx - 90 - 1])
                    b = {"lo": [b["lo"][0] + 100] + list(b["lo"][1:]), "hi": [b["hi"][0] + 100] + list(b["hi"][1:])}
                else:
                    b = lv_boxes[l][idx - 1]
                boxes.append(b)
            pos = {idx: i + 1 for i, idx in enumerate(D["idx"])}
            disk = D["disk"]
            if isinstance(disk, list):
                disk = {str(i + 1): v for i, v in enumerate(disk)}
            disk = {f: [pos[i] for i in v] for f, v in disk.items()}
            levels.append({"boxes": boxes, "file": list(D["file"]), "disk": disk})
        return {"src": src, "ndims": ndims, "fields": list(fields), "time": 0.75, "dom": dom, "levels": levels}
    return mk("A", sc["f1"], sc["in1"]), mk("B", sc["f2"], sc["in2"])


def pyvars(v, as_string):
    if v == ["None"]:
        return None
    return " ".join(v) if as_string else list(v)


def reorder_expect(exp, obs_fields):
    """The statement fixes the two groups and their order, not the order inside a group."""
    n1 = exp["n1"]
    ef = list(exp["fields"])
    if len(obs_fields) != len(ef) or len(set(obs_fields)) != len(obs_fields):
        return None
    if set(obs_fields[:n1]) != set(ef[:n1]) or set(obs_fields[n1:]) != set(ef[n1:]):
        return None
    perm = [ef.index(f) for f in obs_fields]
    out = {"fields": list(obs_fields), "lev": []}
    for boxes in exp["lev"]:
        out["lev"].append([{"idx": b["idx"], "comps": [b["comps"][p] for p in perm],
                            "mm": [b["mm"][p] for p in perm]} for b in boxes])
    return out


def run_scenario(chk, sc, cfgseed, as_string=False, flavour="sched", workers=None):
    from amr_kitchen import PlotfileCooker
    from amr_kitchen.combine import combine
    from amr_kitchen.taste import Taster
    rng = random.Random(cfgseed)
    cfg_ = gamma.Config.draw(rng, ndims=3, payload=rng.choice(["wild", "tame"]))
    # concrete field names (prefix pairs, parentheses; with a blank only when the selections are given as lists: the string form
    # is split at blanks and commas); a name the two inputs share stays shared
    allnames = list(sc["f1"]) + [n for n in sc["f2"] if n not in sc["f1"]]
    nm = gamma.names_map(cfgseed, allnames, blanks=not as_string)
    ren = lambda names: [n if n == "None" else nm[n] for n in names]
    exp0 = sc["expect"]
    sc = dict(sc, f1=ren(sc["f1"]), f2=ren(sc["f2"]), v1=ren(sc["v1"]), v2=ren(sc["v2"]),
              expect=(dict(exp0, fields=ren(exp0["fields"])) if exp0.get("k") == "ok" else exp0))
    ap1, ap2 = build_pair(sc)
    d = chk.tmp_reuse()
    os.makedirs(d)
    p1, p2, out = os.path.join(d, "first"), os.path.join(d, "second"), os.path.join(d, "out")
    # one pair in four has level-header rows that are not the extrema of the data: the output's rows are assembled from the INPUTS' rows
    stale = (lambda lv, mins, maxs: ({b: [v - 0.5 for v in r] for b, r in mins.items()}, {b: [v + 0.25 for v in r] for b, r in maxs.items()})) \
        if cfgseed % 4 == 1 else None
    reg = gamma.write_plotfile(p1, ap1, cfg_, mm_override=stale)
    gamma.write_plotfile(p2, ap2, cfg_, reg, mm_override=stale)
    A1, A2 = alpha.abstract(p1, reg), alpha.abstract(p2, reg)
    if alpha.wellformed(A1) or alpha.wellformed(A2):
        raise core.MachineryError("gamma/alpha self-check failed")
    before = (alpha.tree_digest(p1), alpha.tree_digest(p2))
    plan, pos = {}, 0
    for l in range(len(sc["in1"])):
        n = len(set(sc["in1"][l]["file"]))
        plan[l + 1] = sc["sched"][pos:pos + n]
        pos += n
    exc = None
    t1, t2 = spell.of(p1, cfgseed)[0], spell.of(p2, cfgseed // 7)[0]        # the inputs as a user may type them (PathRes.tla)
    before = (alpha.tree_digest(p1), alpha.tree_digest(p2))
    with shims.fs_audit() as audit:
        try:
            with shims.pool_shim(shims.Scheduler(plan=plan, workers=workers), flavour), core.quiet():
                if as_string and cfgseed % 2 == 0:
                    # the same request typed on the command line (names as one blank-separated string, an explicit output)
                    import sys
                    from amr_kitchen.combine import cli as combine_cli
                    argv = ["combine", "-p1", t1, "-p2", t2, "-o", out]
                    for flag, v_ in (("-v1", pyvars(sc["v1"], True)), ("-v2", pyvars(sc["v2"], True))):
                        if v_ is not None:
                            argv += [flag, v_]
                    old_argv = sys.argv
                    sys.argv = argv
                    try:
                        combine_cli.main()
                    except SystemExit as e:
                        if e.code not in (None, 0):
                            raise RuntimeError("combine exited with status %r" % (e.code,))
                    finally:
                        sys.argv = old_argv
                else:
                    combine(PlotfileCooker(t1), PlotfileCooker(t2), pltout=out,
                            vars1=pyvars(sc["v1"], as_string), vars2=pyvars(sc["v2"], as_string))
        except Exception as e:
            exc = e
        events = list(audit.events)
    if (alpha.tree_digest(p1), alpha.tree_digest(p2)) != before:
        return "an input plotfile was modified"
    exp = sc["expect"]
    if exp["k"] == "refused":
        if exc is None:
            return "inputs that must be refused (%s) were combined" % sc["rel"]
        if os.path.exists(out) or events:
            return "refused with %s but something was written first: %r" % (type(exc).__name__, events[:3])
        return None
    if exc is not None:
        return "combine raised %s: %s" % (type(exc).__name__, str(exc)[:200])
    Aout = alpha.abstract(out, reg)
    wf = alpha.wellformed(Aout)
    if wf:
        return "output is not a well-formed plotfile: %s" % "; ".join(wf[:3])
    Cout = alpha.content(Aout)
    e2 = reorder_expect(exp, list(Cout["fields"]))
    if e2 is None:
        return "fields %r, expected the selected fields of the first %r then of the second %r" % (
            Cout["fields"], exp["fields"][:exp["n1"]], exp["fields"][exp["n1"]:])
    C1, C2 = alpha.content(A1), alpha.content(A2)
    diff = compare.compare_content(e2, Cout, {"A": ap1, "B": ap2}, {"A": C1, "B": C2})
    if diff:
        return diff
    diff = compare.compare_meta(Cout, C1, len(sc["in1"]))
    if diff:
        return diff
    try:
        with shims.pool_shim(shims.Scheduler()), core.quiet():
            good = bool(Taster(out, nofail=True, verbose=0))
    except Exception as e:
        return "taste raised on the output: %r" % e
    if not good:
        return "taste rejects the output"
    return None


def run(chk, replay):
    _run(chk, replay)
    if not replay:
        # the working directory changes between runs on plotfiles typed under a relative name (PoolEnv.tla)
        from harness import poolenv
        poolenv.tool_phase(chk, "combine")


def _run(chk, replay):
    chk.rule = ("behaviours of Combine.tla emitted by TLC: (layout of first) x (independent layout of second) x selections x "
                "mesh relation (same / fewer boxes / shifted box / fewer levels) x completion order; signature = (relation, mode "
                "chosen by the model, levels, mono/non-mono of each input, selection classes, finish class, argument form); "
                "trivial = same mesh, byfile, both mono, None/None")
    chk.assumptions = ["alpha/gamma self-checked per input", "scheduled in-process pool for map/imap"]
    if replay:
        s = replay["scenario"]
        v = run_scenario(chk, s["sc"], s["cfgseed"], s.get("as_string", False))
        chk.executed("replay")
        if v:
            chk.violation(s["sigs"], v, s)
        return
    scenarios = []
    for what, c in models(chk.tier):
        r = chk.add_tlc(tlc.run("MC_C06", c, timeout=2400), what)
        if r.violated:
            chk.note_drift("TLC: %s violated in model '%s' (Combine.tla's implementation layer does not refine CombineSpec)" % (r.violated, what))
        scenarios += r.emitted
    if not scenarios:
        raise core.MachineryError("TLC emitted no behaviours")
    cap = 1500 if chk.tier == "quick" else 25000
    chosen = util.select(scenarios, cap, chk.rng)
    chk.exhaustive = len(chosen) == len(scenarios)
    for i, sc in enumerate(chosen):
        as_string = i % 3 == 2
        cfgseed = chk.rng.randrange(1 << 30)
        v = run_scenario(chk, sc, cfgseed, as_string)
        sigs = util.sig_str(sc["sig"], "str" if as_string else "list")
        s = sc["sig"]
        triv = s[0] == "same" and s[1] == "byfile" and s[4] == "first-mono" and s[5] == "second-mono" and s[6] == "None" and s[7] == "None"
        chk.executed(sigs, not triv, sample={"in1": sc["in1"], "in2": sc["in2"], "v1": sc["v1"], "v2": sc["v2"],
                                             "rel": sc["rel"], "sched": sc["sched"]})
        chk.traces += 1
        if v:
            chk.violation(sigs, v, {"sc": sc, "cfgseed": cfgseed, "as_string": as_string, "sigs": sigs})
    if chk.tier == "thorough":
        sub = [s for s in scenarios if s["expect"]["k"] == "ok"]
        chk.rng.shuffle(sub)
        for sc in sub[:30]:
            for w in (1, 2, 4):
                cfgseed = chk.rng.randrange(1 << 30)
                v = run_scenario(chk, sc, cfgseed, False, flavour="gated", workers=w)
                chk.executed(util.sig_str(sc["sig"], "gated-w%d" % w))
                chk.traces += 1
                if v:
                    chk.violation(util.sig_str(sc["sig"], "gated"), v, {"sc": sc, "cfgseed": cfgseed, "sigs": "gated"})
    # code -> spec: combines recorded on large generated pairs with independent layouts (Combine!CombineSpec in OpTrace.tla);
    # a strain in between changes the level count / field sets so that refusals and name clashes occur
    from harness import optrace
    optrace.phase(chk, ["combine", "combine", "combine", "strain"], "combine on large inputs", 60, 600, twod=False, nops=4)
    # the command line layer (spec/Cli.tla): every subset of the tool's options typed to the real main(), API intercepted
    from harness import cli
    cli.phase(chk, "combine")
