"""C03 -- taste accepts every well-formed plotfile under every option combination (see c04.py)."""
from checks import c04


def run(chk, replay):
    c04.run_prop(chk, replay, "C03")
    if not replay:
        # the command line layer (spec/Cli.tla): every subset of taste's options typed to the real main(), API intercepted
        from harness import cli
        cli.phase(chk, "taste")
