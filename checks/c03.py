"""C03 -- taste accepts every well-formed plotfile under every option combination (see c04.py)."""
from checks import c04


def run(chk, replay):
    c04.run_prop(chk, replay, "C03")
