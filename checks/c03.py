"""C03 -- taste accepts every well-formed plotfile under every option combination (see c04.py)."""
from checks import c04


def run(chk, replay):
    if replay and replay["scenario"].get("real_history"):
        return real_history_phase(chk)
    c04.run_prop(chk, replay, "C03")
    if not replay:
        # the command line layer (spec/Cli.tla): every subset of taste's options typed to the real main(), API intercepted
        from harness import cli
        cli.phase(chk, "taste")
        real_history_phase(chk)
        # headers with repeated names and names that look like generated keys (FieldKeys.tla) are well-formed too
        from harness import keys
        keys.phase(chk, "taste")
        # the working directory changes between validations of plotfiles typed under a relative name (PoolEnv.tla)
        from harness import poolenv
        poolenv.tool_phase(chk, "taste")
        # hierarchies with refinement ratio 4 and with MIXED ratios, three and four levels deep (Refine.tla), every option set
        from harness import refine
        refine.phase(chk, "taste")


def real_history_phase(chk):
    """Validations of well-formed plotfiles as a HISTORY in one process with genuine pools: absolute path, then the same relative
    name from different working directories (checks/c03_real.py).  Every one must report good."""
    import json
    import os
    import random
    import subprocess
    import sys
    from checks.c02 import rand_layout
    from harness import core, gamma
    rng = random.Random(chk.seed + 31)
    root = chk.tmp()
    for run in ("run1", "run2"):
        classes = [[rng.randint(1, 3) for _ in range(rng.randint(2, 4))] for _ in range(2)]
        cfg_ = gamma.Config.draw(rng, ndims=3, payload="tame")
        ap = gamma.make_ap(run, ["a", "b"], classes, [rand_layout(rng, len(c)) for c in classes], ndims=3, time=cfg_.time)
        os.makedirs(os.path.join(root, run))
        gamma.write_plotfile(os.path.join(root, run, "plt00020"), ap, cfg_)
    budget = 60
    try:
        p = subprocess.run([sys.executable, os.path.join(os.path.dirname(os.path.abspath(__file__)), "c03_real.py"), core.REPO, root, str(budget)],
                           stdout=subprocess.PIPE, stderr=subprocess.PIPE, text=True, timeout=600)
        out = p.stdout
    except subprocess.TimeoutExpired as e:
        out = e.stdout.decode() if isinstance(e.stdout, bytes) else (e.stdout or "")
    recs = [json.loads(ln) for ln in out.split("\n") if ln.startswith("{")]
    if not recs:
        raise core.MachineryError("the real-pool child of C03 produced no record")
    for i, rec in enumerate(recs):
        sig = "real-pool-history/%s/%s/%s" % (rec["how"], "nofail" if rec["nofail"] else "fail", "".join("1" if o else "0" for o in rec["opts"]))
        chk.executed(sig, True)
        chk.traces += 1
        if rec.get("hang") or not rec.get("good"):
            chk.violation(sig, "validation %d of a history in one process (real pools; %s path of %s/plt00020, options hdr/shape/data/coords = %r, "
                          "nofail=%r): a well-formed plotfile %s" % (i + 1, "relative" if rec["how"] == "rel" else "absolute", rec["run"], rec["opts"],
                                                                     rec["nofail"], "is never answered" if rec.get("hang") else
                                                                     "is reported bad (%s)" % rec.get("exc", "evaluates false")),
                          {"real_history": True}, klass="real-pool-history")
            break
