"""
C05 -- colander output holds exactly the kept fields and levels, bit for bit.

Decider: TLC checks Colander.tla (implementation-shaped actions over Pool) against the
requirement operator StrainSpec for every input layout, variable list, level limit and pool
schedule within the bounds, and emits every behaviour; each behaviour is replayed into the
real Colander (gamma -> real code under the scheduled pool -> alpha) and the produced
directory is compared with StrainSpec's value.  The real Taster must accept the output.
"""
import os

from harness import alpha, compare, core, gamma, shims, tlc, util
from harness import spell

NAMES3 = '<<"a","b","c">>'
NAMES4 = '<<"a","b","c","d">>'

BASE_INV = ["StrainRefines", "NoSharedWrites", "PoolOK", "Emit"]


def models(tier):
    if tier == "quick":
        return [
            ("content", dict(Names=NAMES3, MaxLev=2, MaxBox=2, MaxFile=2, MaxVars=2, W=2,
                             SchedMode='"fifo"', Gather='"by_task"'), 1),
            # variable lists as long as the field list (every permutation of all the fields, unknown names mixed in)
            ("content-vars3", dict(Names=NAMES3, MaxLev=1, MaxBox=2, MaxFile=2, MaxVars=3, W=2,
                                   SchedMode='"fifo"', Gather='"by_task"'), 1),
            ("schedules", dict(Names='<<"a","b">>', MaxLev=1, MaxBox=3, MaxFile=3, MaxVars=1, W=2,
                               SchedMode='"all"', Gather='"by_task"'), 1),
            # every ordered selection of up to three out of FOUR fields (contiguous in the file or not, in any order)
            ("selections of a four-field input", dict(Names=NAMES4, MaxLev=1, MaxBox=1, MaxFile=1, MaxVars=3, W=2,
                                                      SchedMode='"fifo"', Gather='"by_task"'), 1),
        ]
    return [
        ("content", dict(Names=NAMES4, MaxLev=2, MaxBox=3, MaxFile=2, MaxVars=2, W=2,
                         SchedMode='"fifo"', Gather='"by_task"'), 1),
        ("content-vars3", dict(Names=NAMES3, MaxLev=1, MaxBox=3, MaxFile=3, MaxVars=3, W=2,
                               SchedMode='"fifo"', Gather='"by_task"'), 1),
        ("schedules", dict(Names='<<"a","b">>', MaxLev=2, MaxBox=3, MaxFile=3, MaxVars=1, W=3,
                           SchedMode='"all"', Gather='"by_task"'), 1),
    ]


def tlc_cfg(consts):
    c = dict(consts)
    names = c.pop("Names")
    return {"INIT": "Init", "NEXT": "Next", "DEFS": {"Names": names}, "CONSTANTS": c,
            "INVARIANTS": BASE_INV, "PROPERTIES": ["InputUnchanged"]}


def run_scenario(chk, sc, cfgseed, ndims=3, payload="wild", flavour="sched", workers=None):
    """Replay one TLC behaviour into the real code.  Returns None or a violation description."""
    from amr_kitchen.colander import Colander
    from amr_kitchen.taste import Taster
    import random
    rng = random.Random(cfgseed)
    cfg = gamma.Config.draw(rng, ndims=ndims, payload=payload, numfmt="g6" if cfgseed % 4 == 0 else "repr")
    # concrete field names (prefix pairs, parentheses, blanks ...): the scenario's names are abstract
    nm = gamma.names_map(cfgseed, list(sc["fields"]))
    ren = lambda names: [n if n == "all" else nm[n] for n in names]
    sc = dict(sc, fields=ren(sc["fields"]), vars=ren(sc["vars"]), expect=dict(sc["expect"], fields=ren(sc["expect"]["fields"])))
    ap = compare.ap_from_scenario("A", sc["fields"], sc["levels"], ndims=ndims)
    d = chk.tmp_reuse()
    os.makedirs(d)
    src = os.path.join(d, "in")
    out = os.path.join(d, "out")
    # one input in four has level-header rows that are not the extrema of its data: the output's rows are the INPUT's rows
    stale = (lambda lv, mins, maxs: ({b: [v - 0.5 for v in r] for b, r in mins.items()}, {b: [v + 0.25 for v in r] for b, r in maxs.items()})) \
        if cfgseed % 4 == 1 else None
    reg = gamma.write_plotfile(src, ap, cfg, mm_override=stale)
    if cfgseed % 5 == 2:
        gamma.add_stale_files(src, ap, cfg, cfgseed)        # left-overs of an earlier, larger plotfile in the same directory
    before = alpha.tree_digest(src)
    Ain = alpha.abstract(src, reg)
    if alpha.wellformed(Ain):
        raise core.MachineryError("gamma wrote a plotfile alpha finds malformed: %r" % alpha.wellformed(Ain)[:2])
    # pool schedule: `sched` is the concatenation of the Finish orders of the levels
    plan, pos = {}, 0
    for l in range(sc["lim"] + 1):
        n = len(set(sc["levels"][l]["file"]))
        plan[l + 1] = sc["sched"][pos:pos + n]
        pos += n
    sched = shims.Scheduler(plan=plan, workers=workers)
    try:
        with shims.pool_shim(sched, flavour), core.quiet():
            cld = Colander(plotfile=spell.of(src, cfgseed)[0], limit_level=sc["lim"], output=out, variables=list(sc["vars"]))
            cld.strain()
    except Exception as e:
        return "colander raised %s: %s" % (type(e).__name__, str(e)[:200])
    if alpha.tree_digest(src) != before:
        return "the input plotfile was modified"
    Aout = alpha.abstract(out, reg)
    wf = alpha.wellformed(Aout)
    if wf:
        return "output is not a well-formed plotfile: %s" % "; ".join(wf[:3])
    Cout, Cin = alpha.content(Aout), alpha.content(Ain)
    diff = compare.compare_content(sc["expect"], Cout, {"A": ap}, {"A": Cin})
    if diff:
        return diff
    diff = compare.compare_meta(Cout, Cin, sc["lim"] + 1)
    if diff:
        return diff
    try:
        with shims.pool_shim(shims.Scheduler()), core.quiet():
            good = bool(Taster(out, nofail=True, verbose=0))
    except Exception as e:
        return "taste raised on the output: %r" % e
    if not good:
        return "taste rejects the output"
    return None


def run(chk, replay):
    _run(chk, replay)
    if not replay:
        # the working directory changes between runs on plotfiles typed under a relative name (PoolEnv.tla)
        from harness import poolenv
        poolenv.tool_phase(chk, "colander")


def _run(chk, replay):
    chk.rule = ("behaviours of Colander.tla emitted by TLC (input layout x variable list x level limit "
                "x pool completion order), each replayed into the real Colander; a signature is "
                "(levels, limit, variable-list class, per-level (files, mono/non-mono disk order), "
                "finish-order class, ndims); non-trivial = anything but (1 level, 'all'/'every', "
                "1 file mono, fifo)")
    chk.assumptions = ["alpha/gamma are correct (self-checked: alpha(gamma(P)) well-formed and token-exact)",
                       "in-process scheduled pool = real pool semantics for map (pickled args/results)"]
    if replay:
        sc = replay["scenario"]
        v = run_scenario(chk, sc["sc"], sc["cfgseed"], sc["ndims"], sc["payload"])
        chk.executed(str(sc["sc"]["sig"]))
        if v:
            chk.violation(util.sig_str(sc["sc"]["sig"], sc["ndims"]), v, sc)
        return
    scenarios = []
    for what, consts, _ in models(chk.tier):
        r = chk.add_tlc(tlc.run("MC_C05", tlc_cfg(consts), timeout=900), what)
        if r.violated:
            chk.note_drift("TLC: %s violated in model '%s' (implementation layer of Colander.tla "
                           "no longer refines StrainSpec)" % (r.violated, what))
        scenarios += r.emitted
    if not scenarios:
        raise core.MachineryError("TLC emitted no behaviours")
    chk.exhaustive = True
    cap = 700 if chk.tier == "quick" else 6000
    chosen = util.select(scenarios, cap, chk.rng)
    if len(chosen) < len(scenarios):
        chk.exhaustive = False
    for i, sc in enumerate(chosen):
        ndims = 2 if i % 3 == 1 else 3
        payload = "wild" if i % 2 == 0 else "tame"
        cfgseed = chk.rng.randrange(1 << 30)
        v = run_scenario(chk, sc, cfgseed, ndims, payload)
        sig = util.sig_str(sc["sig"], ndims)
        trivial = (sc["sig"][0] == 1 and sc["sig"][2] in ("all", "every") and
                   sc["sig"][3] == [[1, "mono"]] and sc["sig"][4] == "fifo-finish")
        chk.executed(sig, not trivial, sample={"vars": sc["vars"], "lim": sc["lim"], "levels": sc["levels"],
                                               "sched": sc["sched"], "ndims": ndims})
        chk.traces += 1
        if v:
            chk.violation(sig, v, {"sc": sc, "cfgseed": cfgseed, "ndims": ndims, "payload": payload})
    # thorough: real worker processes with forced start/finish orders
    if chk.tier == "thorough":
        sub = [s for s in scenarios if s["sig"][4] == "reordered-finish"]
        chk.rng.shuffle(sub)
        for sc in sub[:40]:
            for w in (1, 2, 3):
                cfgseed = chk.rng.randrange(1 << 30)
                v = run_scenario(chk, sc, cfgseed, 3, "wild", flavour="gated", workers=w)
                chk.executed(util.sig_str(sc["sig"], 3) + "/gated-w%d" % w)
                chk.traces += 1
                if v:
                    chk.violation(util.sig_str(sc["sig"], 3) + "/gated", v,
                                  {"sc": sc, "cfgseed": cfgseed, "ndims": 3, "payload": "wild"})
    # code -> spec: strains recorded on large generated plotfiles and the assets (Colander!StrainSpec in OpTrace.tla)
    from harness import optrace
    optrace.phase(chk, ["strain"], "colander on large inputs", 60, 600, assets=["example_plt_3d", "example_plt_2d", "plt1_Y"], nops=3)
    # the command line layer (spec/Cli.tla): every subset of the tool's options typed to the real main(), API intercepted
    from harness import cli
    cli.phase(chk, "colander")
