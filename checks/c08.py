"""
C08 -- mandoline 2D flattening equals the finest-level covering grid exactly.

Decider: TLC checks Plate.tla (per-level map over the boxes, level-after-level broadcast into
uninitialised arrays) against CoverSpec for every 2-D mesh / limit / serial-parallel within the
bounds and emits each scenario with CoverSpec per pixel; each is replayed into the real
Mandoline (fformat='return') with numpy.empty poisoned, bit-exact comparison, coordinates.
"""
import os
import random

import numpy as np

from harness import alpha, core, gamma, lattice, shims, tlc, util
from harness import spell

INV = ["PlateIsCover", "NoUninit", "PoolOK", "Emit"]
SENTINEL = 1.2345e300


FEW = '{<<1>>, <<3, 1>>, <<99>>, <<0>>, <<2, 0>>}'
PERMS4 = ("{<<1>>, <<99>>, <<0, 3>>} \\cup {s \\in [1..4 -> 1..4] : \\A i, j \\in 1..4 : i # j => s[i] # s[j]} "
          "\\cup {s \\in [1..3 -> 0..4] : TRUE} \\cup {<<2, 0, 4, 3, 1>>, <<5, 4, 3, 2, 1>>, <<1, 5>>}")
ALL4 = PERMS4 + " \\cup [1..4 -> 1..4]"
NAMES = ["f1", "f2", "f3", "f4", "f5"]


def models(tier):
    def cfg(flists, **c):
        base = dict(W=2)
        base.update(c)
        return {"INIT": "Init", "NEXT": "Next", "DEFS": {"FieldLists": flists}, "CONSTANTS": base, "INVARIANTS": INV}
    if tier == "quick":
        return [("2 levels", cfg(FEW, N1=3, N2=2, MaxLev=2, MaxFine=2)), ("3 levels", cfg(FEW, N1=2, N2=1, MaxLev=3, MaxFine=1)),
                ("field lists (all permutations of 4, all triples incl. grid_level and repeats)", cfg(PERMS4, N1=2, N2=1, MaxLev=2, MaxFine=1))]
    return [("2 levels", cfg(FEW, N1=4, N2=2, MaxLev=2, MaxFine=2)), ("3 levels", cfg(FEW, N1=2, N2=2, MaxLev=3, MaxFine=2)),
            ("field lists (every sequence of 4)", cfg(ALL4, N1=2, N2=1, MaxLev=2, MaxFine=1))]


def names_of(flist):
    if flist == [99]:
        return ["all"]
    return ["grid_level" if f == 0 else NAMES[f - 1] for f in flist]


def run_scenario(chk, sc, cfgseed, fields, axes):
    from amr_kitchen.mandoline import Mandoline
    rng = random.Random(cfgseed)
    # every third configuration states its geometry with six significant digits (rounded cell sizes whose ratios are not exact)
    cfg_ = gamma.Config.draw(rng, ndims=2, payload="tame", numfmt="g6" if cfgseed % 3 == 0 else "repr")
    lat = lattice.Lattice(sc["mesh"], sc["n1"], sc["n2"], axes=axes, ndims=2,
                          # cells per lattice cell: drawn; at least three cells along each axis of the level-0 domain (the tool derives
                          # the cell size of its coordinate grids from the second and third grid points)
                          scale=max([3, 2, 4, 1][cfgseed % 4], -(-3 // min(sc["n1"], sc["n2"]))))
    ap = lat.ap("A", NAMES, files_of=lambda lv, b: rng.randint(1, 2),
                shuffle=lambda lv, f, v: rng.sample(v, len(v)))
    flds = lattice.Fields(lat, cfgseed, payload="wild" if cfgseed % 2 else "tame")
    d = chk.tmp_reuse()
    os.makedirs(d)
    src = os.path.join(d, "plt2d")
    gamma.write_plotfile(src, ap, cfg_, values=flds.values)
    if cfgseed % 5 == 2:
        gamma.add_stale_files(src, ap, cfg_, cfgseed)       # left-overs of an earlier, larger plotfile in the same directory
    before = alpha.tree_digest(src)
    lim = sc["lim"]
    try:
        with shims.pool_shim(shims.Scheduler(default="random", rng=rng)), shims.poison([SENTINEL, -SENTINEL, float("nan")][cfgseed % 3]), core.quiet():
            out = Mandoline(spell.of(src, cfgseed)[0], fields=list(fields), limit_level=lim, serial=bool(sc["serial"]), verbose=0).slice(fformat="return")
    except Exception as e:
        return "mandoline raised %s: %s" % (type(e).__name__, str(e)[:200])
    if alpha.tree_digest(src) != before:
        return "the input plotfile was modified"
    if not isinstance(out, dict):
        return "fformat='return' gave %r" % type(out).__name__
    shape = lat.level_shape(lim)          # physical (nx, ny)
    a1, a2 = axes
    dx = gamma.level_dx(cfg_, 2, lim)
    for name, ax in (("x", 0), ("y", 1)):
        glo, ghi = gamma.geo(ap, cfg_)
        want = np.array([glo[ax] + dx[ax] * (k + 0.5) for k in range(shape[ax])])
        got = np.asarray(out.get(name))
        # rounded header numbers are not consistent with each other to better than their last digit
        atol = 1e-12 * abs(dx[ax]) if cfg_.numfmt == "repr" else 2e-5 * max(abs(glo[ax]), abs(ghi[ax]), ghi[ax] - glo[ax])
        if got.shape != want.shape or not np.allclose(got, want, rtol=1e-12, atol=atol):
            return "coordinate grid %s = %r, cell centres are %r" % (name, got, want)
    names = list(NAMES) if fields == ["all"] else [f for f in fields if f != "grid_level"]
    want_grid = fields == ["all"] or "grid_level" in fields
    E = sc["expect"]

    def cover(i1, i2):
        return E[str(i1)][str(i2)]
    targets = [(n, ap["fields"].index(n) + 1) for n in names] + ([("grid_level", None)] if want_grid else [])
    for name, fi in targets:
        if name not in out:
            return "field %r missing from the returned data" % name
        arr = np.asarray(out[name])
        # orientation: (ny, nx) [the tool's convention] or (nx, ny); both accepted if consistent
        orient = []
        if arr.shape == (shape[1], shape[0]):
            orient.append("yx")
        if arr.shape == (shape[0], shape[1]):
            orient.append("xy")
        if not orient:
            return "field %r has shape %r for a %r grid" % (name, arr.shape, tuple(shape))
        errs = []
        for o in orient:
            err = None
            for ix in range(shape[0]):
                for iy in range(shape[1]):
                    phys = [ix, iy]
                    l, cell = cover(phys[a1] // lat.scale, phys[a2] // lat.scale)
                    if fi is None:
                        want = float(l)
                    else:
                        f = 2 ** (lim - l)
                        want = float(flds.level(l, fi)[ix // f, iy // f])
                    got = float(arr[iy, ix] if o == "yx" else arr[ix, iy])
                    if not (got == want or (got != got and want != want)) or \
                            (got == want and np.signbit(got) != np.signbit(want)):
                        err = "pixel (x=%d, y=%d) of %r is %r, the covering level %d stores %r" % (ix, iy, name, got, l, want)
                        break
                if err:
                    break
            errs.append(err)
        if all(errs):
            return errs[0]
    return None


def run(chk, replay):
    chk.rule = ("scenarios of Plate.tla emitted by TLC (2-D mesh x limit x serial/parallel), replayed with field lists "
                "{one, several, all, grid_level, mixed}, both axis assignments, random layouts, wild payloads, poisoned numpy.empty; "
                "signature = (levels, limit, boxes per level, serial, field-list, axes); trivial = one level, one box")
    chk.assumptions = ["orientation of the returned 2-D arrays is accepted as (ny, nx) or (nx, ny) when consistent with x / y"]
    if replay:
        s = replay["scenario"]
        v = run_scenario(chk, s["sc"], s["cfgseed"], s["fields"], tuple(s["axes"]))
        chk.executed("replay")
        if v:
            chk.violation(s["sigs"], v, s)
        return
    scenarios = []
    for what, c in models(chk.tier):
        r = chk.add_tlc(tlc.run("MC_C08", c, timeout=2400), what)
        if r.violated:
            chk.note_drift("TLC: %s violated in model '%s'" % (r.violated, what))
        scenarios += r.emitted
    if not scenarios:
        raise core.MachineryError("TLC emitted no scenarios")
    cap = 700 if chk.tier == "quick" else 10000
    chosen = util.select(scenarios, cap, chk.rng)
    chk.exhaustive = len(chosen) == len(scenarios)
    for i, sc in enumerate(chosen):
        fields = names_of(sc["flist"])
        axes = (0, 1) if (i // 5) % 2 == 0 else (1, 0)
        cfgseed = chk.rng.randrange(1 << 30)
        v = run_scenario(chk, sc, cfgseed, fields, axes)
        sigs = util.sig_str(sc["sig"], fields, axes)
        triv = sc["sig"][0] == 1 and sc["sig"][2] == [1]
        chk.executed(sigs, not triv, sample={"mesh": sc["mesh"], "lim": sc["lim"], "serial": sc["serial"],
                                             "fields": fields, "axes": axes})
        chk.traces += 1
        if v:
            chk.violation(sigs, v, {"sc": sc, "cfgseed": cfgseed, "fields": fields, "axes": axes, "sigs": sigs})
    # the command line layer (spec/Cli.tla): mandoline's options, also typed with the value zero
    from harness import cli
    cli.phase(chk, "mandoline")
    # the working directory changes between flattenings of plotfiles typed under a relative name (PoolEnv.tla)
    from harness import poolenv
    poolenv.tool_phase(chk, "mandoline2d")
    # hierarchies whose levels refine by 4, or by different ratios from one jump to the next (Refine.tla): a level's cells are
    # Fac(l) = the PRODUCT of the ratios below it per level-0 cell
    from harness import refine
    refine.phase(chk, "plate")
    # code -> spec at scale: recorded runs on random nested meshes (up to 4 levels, 64 x 64 pixels) judged by CoverTrace.tla
    from harness import covertrace
    covertrace.phase(chk, "plate")
