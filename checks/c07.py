"""
C07 -- mandoline 3D slices interpolate the right samples at every pixel.

Decider: TLC checks Mandoline.tla (box selection, slice_box's four cases, level-then-header
reduction into left/right arrays allocated uninitialised, domain-face rules, interpolation) on
an integer lattice where cell centres, faces and both half-cell gaps beside every face are
distinct positions, against the per-pixel requirement Acceptable (bracketing by stored samples;
the tight pair where unambiguous; no uninitialised memory; grid level), for every mesh x every
lattice position (incl. the two just outside the domain) x every limit, and emits scenarios
with the acceptable sample pairs per pixel; each emitted scenario is replayed into the real
Mandoline with numpy.empty poisoned, every normal axis / axis assignment, non-zero origin and
anisotropic cells, random, affine-along-normal and constant-along-normal fields.
"""
import os
import random

import numpy as np

from harness import alpha, compare, core, gamma, lattice, shims, tlc, util
from harness import spell

INV = ["SpecNonEmpty", "SliceRefines", "NoUninit", "GridLevelOK", "Emit"]
SENTINELS = [4.4e299, -4.4e299, float("nan")]
FIELDS = ["u", "aff", "cst", "w"]


def cfg(emod, eres, **c):
    base = dict(Ext=2, FaceLevel="TRUE", EmitMod=emod, EmitRes=eres)
    base.update(c)
    return {"INIT": "Init", "NEXT": "Next", "CONSTANTS": base, "INVARIANTS": INV}


def models(tier, seed):
    if tier == "quick":
        return [("2 levels", cfg(23, seed % 23, N0=4, T0=2, MaxLev=2, MaxFine=1)),
                ("2 levels, two fine boxes (stacked / side by side / overhanging)", cfg(7, seed % 7, N0=3, T0=2, MaxLev=2, MaxFine=2)),
                ("3 levels", cfg(61, seed % 61, N0=3, T0=2, MaxLev=3, MaxFine=1))]
    return [("2 levels, 2 fine boxes", cfg(9, seed % 9, N0=4, T0=2, MaxLev=2, MaxFine=2)),
            ("3 levels", cfg(5, seed % 5, N0=3, T0=2, MaxLev=3, MaxFine=1))]


def build(chk, sc, cfgseed, axes, ext0=None, scale=None):
    rng = random.Random(cfgseed)
    # extent of the extruded axis and cells per lattice cell across the plane: drawn, so that no fixed size hides a size rule
    if ext0 is None:
        ext0 = [3, 4, 5][cfgseed % 3]
    if scale is None:
        # (at least three cells along each in-plane axis: the tool derives the cell size of its grids from grid points 2 and 3)
        scale = (1, [2, 3][(cfgseed // 3) % 2])
    cfg_ = gamma.Config.draw(rng, ndims=3, payload="tame")
    lat = lattice.Lattice(sc["mesh"], sc["n0"], sc["t0"], axes=axes, ext0=ext0, ext_cut=True, scale=scale)
    cn = axes[0]

    def affine(lv, shape):
        dx = gamma.level_dx(cfg_, 3, lv)[cn]
        idx = np.arange(shape[cn])
        coord = cfg_.origin[cn] + dx * (idx + 0.5)
        sh = [1, 1, 1]
        sh[cn] = shape[cn]
        return np.broadcast_to((3.0 * coord - 2.0).reshape(sh), shape).copy()

    def const(lv, shape):
        base = gamma.token_array(cfgseed, ("cst", lv), int(np.prod(shape)), "tame").reshape(shape)
        sl = [slice(None)] * 3
        sl[cn] = slice(0, 1)
        return np.broadcast_to(base[tuple(sl)], shape).copy()
    flds = lattice.Fields(lat, cfgseed, payload="tame", special={2: affine, 3: const})
    if cfgseed % 4 == 1:
        # SPECIAL SAMPLES in the last field: a few cells hold +inf or a value near the largest double.  A convex combination
        # of +inf and a finite sample is +inf, of two huge samples of opposite sign is finite (a difference of samples is not)
        for lv in range(len(sc["mesh"])):
            a = flds.level(lv, 4)
            r = np.random.default_rng(cfgseed + lv)
            pick = r.random(a.shape)
            a[pick < 0.06] = np.inf
            a[(pick >= 0.06) & (pick < 0.10)] = 1.5e308
            a[(pick >= 0.10) & (pick < 0.14)] = -1.5e308
    ap = lat.ap("A", FIELDS, files_of=lambda lv, b: rng.randint(1, 2), shuffle=lambda lv, f, v: rng.sample(v, len(v)))
    d = os.path.join(chk.tmp_reuse(), "plt00300")
    os.makedirs(os.path.dirname(d))
    gamma.write_plotfile(d, ap, cfg_, values=flds.values)
    if cfgseed % 5 == 2:
        gamma.add_stale_files(d, ap, cfg_, cfgseed)         # left-overs of an earlier, larger plotfile in the same directory
    return d, cfg_, lat, flds


def special_near(flds, cfg_, lim, fi, axes, pA, pB, lpix, pos):
    """Is a sample of ANY level <= lim within two cells of the plane, in the column through in-plane cell (pA, pB) of level
    lpix, infinite or huge?  (A box edge takes its outer neighbour from the coarser level.)"""
    cn, aA, aB = axes
    for l in range(lim + 1):
        col = flds.level(l, fi)
        dx = gamma.level_dx(cfg_, 3, l)[cn]
        c = int(np.floor((pos - cfg_.origin[cn]) / dx - 0.5))
        q = [0, 0, 0]
        q[aA], q[aB] = (pA * 2 ** l) // 2 ** lpix, (pB * 2 ** l) // 2 ** lpix
        for i in range(c - 1, c + 3):
            if 0 <= i < col.shape[cn]:
                q[cn] = i
                if not abs(float(col[tuple(q)])) < 1e300:
                    return True
    return False


def phys_pos(cfg_, lat, sc, cn, cfgseed=0):
    F = len(sc["mesh"]) - 1
    dxF = gamma.level_dx(cfg_, 3, F)[cn]
    pos = cfg_.origin[cn] + sc["pos"] * dxF / 4.0
    top = sc["n0"] * sc["unit"]
    if sc["pos"] < 0 or sc["pos"] > top:
        # a lattice position OUTSIDE the domain stands for every real position outside it: a quarter of a cell away (the lattice
        # point itself), or at the edge of the predicate -- the next double beyond the face the header states, a few parts in
        # 1e-7 / 1e-6 of the domain width or of the face's own magnitude beyond it (a tolerant comparison would let it in)
        lo = cfg_.q(cfg_.origin[cn])
        hi = cfg_.q(cfg_.origin[cn] + cfg_.dx0[cn] * lat.dom()[cn])
        face, sgn = (lo, -1.0) if sc["pos"] < 0 else (hi, 1.0)
        how = cfgseed % 4
        if how == 1:
            pos = float(np.nextafter(face, sgn * np.inf))
        elif how == 2:
            pos = face + sgn * 1e-7 * (hi - lo)
        elif how == 3:
            pos = face + sgn * 3e-6 * max(abs(face), 1e-3 * (hi - lo))
        if not (pos < lo or pos > hi):
            raise core.MachineryError("outside position %r is not outside [%r, %r]" % (pos, lo, hi))
    return pos


def run_scenario(chk, sc, cfgseed, axes, serial, fields, default_pos=False):
    from amr_kitchen.mandoline import Mandoline
    d, cfg_, lat, flds = build(chk, sc, cfgseed, axes)
    cn, aA, aB = axes
    lim = sc["lim"]
    pos = phys_pos(cfg_, lat, sc, cn, cfgseed)
    before = alpha.tree_digest(d)
    try:
        with shims.pool_shim(shims.Scheduler(default="random", rng=random.Random(cfgseed))), shims.poison(SENTINELS[cfgseed % 3]), core.quiet():
            m = Mandoline(spell.of(d, cfgseed)[0], fields=list(fields), limit_level=lim, serial=serial, verbose=0)
            if cfgseed % 3 == 0:
                # a HISTORY on one object: an earlier slice along another normal (at its default position); what it leaves
                # on the object (axes, position, arrays) must not reach the slice that is judged
                m.slice(normal=aA, fformat="return")
            out = m.slice(normal=cn, pos=None if default_pos else pos, fformat="return")
        exc = None
    except Exception as e:
        exc = e
    if alpha.tree_digest(d) != before:
        return "the input plotfile was modified"
    exp = sc["expect"]
    if exp == ["err"]:
        if exc is None:
            return "slice position %r outside the domain was accepted" % pos
        return None
    if exc is not None:
        return "slice(normal=%d, pos=%r) raised %s: %s" % (cn, pos, type(exc).__name__, str(exc)[:200])
    cx, cy = [i for i in range(3) if i != cn]
    shape = lat.level_shape(lim)
    names = [f for f in fields if f != "grid_level"]
    if fields == ["all"]:
        names = list(FIELDS)
    want_grid = "grid_level" in fields or fields == ["all"]
    F = len(sc["mesh"]) - 1
    unit = gamma.level_dx(cfg_, 3, F)[cn] / 4.0

    def centre(l, i):
        return cfg_.origin[cn] + gamma.level_dx(cfg_, 3, l)[cn] * (i + 0.5)
    for name in names + (["grid_level"] if want_grid else []):
        if name not in out:
            return "field %r missing from the returned slice" % name
        arr = np.asarray(out[name])
        if arr.shape != (shape[cy], shape[cx]):
            return "slice of %r has shape %r, the level-%d plane grid is %r" % (name, arr.shape, lim, (shape[cy], shape[cx]))
        fi = FIELDS.index(name) + 1 if name != "grid_level" else None
        for tp in range(shape[aA]):
            t = tp // lat.scale2                      # lattice pixel of this concrete pixel
            E = exp[str(t)] if isinstance(exp, dict) else exp[t]
            for k in range(shape[aB]):
                pix = [0, 0, 0]
                pix[aA], pix[aB] = tp, k
                got = float(arr[pix[cy], pix[cx]])
                if fi is None:
                    if got not in [float(g) for g in E["glev"]]:
                        return "grid_level at pixel (%d,%d) is %r, levels with a box crossed by the plane there: %r (pos unit %d)" % (
                            tp, k, got, E["glev"], sc["pos"])
                    continue
                ok, cands = False, []
                for a, b in E["acc"]:
                    vals = []
                    for (l, i) in (a, b):
                        f = 2 ** (lim - l)
                        idx = [0, 0, 0]
                        idx[cn], idx[aA], idx[aB] = i, tp // f, k // f
                        vals.append(float(flds.level(l, fi)[tuple(idx)]))
                    if a == b:
                        want = vals[0]
                        # a plane within rounding of the cell centres: the neighbouring sample enters with a weight of rounding
                        # size, which an infinite or huge neighbour turns into anything -- not judged
                        if special_near(flds, cfg_, lim, fi, axes, tp, k, lim, pos):
                            want = float("nan")
                    else:
                        na, nb = centre(*a), centre(*b)
                        want = (vals[0] * (nb - pos) + vals[1] * (pos - na)) / (nb - na)
                    cands.append(want)
                    if compare.close_ext(got, want, 1e-9 * max(1.0, abs(vals[0]), abs(vals[1]))):
                        ok = True
                        break
                if not ok:
                    return ("pixel (%d,%d) of %r is %r; interpolating the stored samples that bracket the plane gives %r "
                            "(position unit %d of %d, limit %d)" % (tp, k, name, got, cands[:3], sc["pos"], sc["n0"] * sc["unit"], lim))
    return None


def klass_of(sc):
    return None


def run(chk, replay):
    _run(chk, replay)
    if not replay:
        # the working directory changes between slices of plotfiles typed under a relative name (PoolEnv.tla)
        from harness import poolenv
        poolenv.tool_phase(chk, "mandoline-return")
        # hierarchies whose levels refine by 4, or by different ratios from one jump to the next (Refine.tla)
        from harness import refine
        refine.phase(chk, "slice")


def _run(chk, replay):
    chk.rule = ("scenarios of Mandoline.tla emitted by TLC (mesh x every lattice position x limit; a hash-selected residue class "
                "chosen by the seed), replayed with every assignment of (normal, in-plane, extruded) axes, serial/parallel, field "
                "lists with random / affine-along-normal / constant-along-normal fields and grid_level, poisoned numpy.empty; "
                "signature = (levels, limit, in/out of domain, per-level set of slice_box cases incl. gap and domain-face classes, "
                "axes, serial); trivial = single level with the plane strictly between two cell centres")
    chk.assumptions = ["tolerance 1e-9 relative to the samples involved",
                       "|origin|/dx <= 100 so that np.isclose's relative tolerance cannot merge neighbouring grid points"]
    if replay:
        s = replay["scenario"]
        v = run_scenario(chk, s["sc"], s["cfgseed"], tuple(s["axes"]), s["serial"], s["fields"], s.get("default_pos", False))
        chk.executed("replay")
        if v:
            chk.violation(s["sigs"], v, s)
        return
    scenarios = []
    for what, c in models(chk.tier, chk.seed):
        r = chk.add_tlc(tlc.run("MC_C07", c, timeout=3000), what)
        if r.violated:
            chk.note_drift("TLC: %s violated in model '%s' (Mandoline.tla's implementation layer does not refine the requirement)" % (r.violated, what))
        scenarios += r.emitted
    if not scenarios:
        raise core.MachineryError("TLC emitted no scenarios")
    cap = 900 if chk.tier == "quick" else 12000
    chosen = util.select(scenarios, cap, chk.rng)
    chk.exhaustive = False
    perms = [(0, 1, 2), (1, 2, 0), (2, 0, 1), (0, 2, 1), (1, 0, 2), (2, 1, 0)]
    # field lists in header order and NOT in header order (names must stay on their own samples)
    fsets = [["u", "aff"], ["all"], ["cst", "grid_level"], ["aff", "w", "grid_level"], ["w", "u"], ["cst", "grid_level", "aff", "u"],
             ["u", "cst", "aff", "w"], ["aff", "aff", "w"]]
    for i, sc in enumerate(chosen):
        axes = perms[i % 6]
        serial = i % 2 == 0
        fields = fsets[i % len(fsets)]
        cfgseed = chk.rng.randrange(1 << 30)
        # the default position is the domain centre: scenarios at the centre are also run without a position
        dflt = sc["pos"] * 2 == sc["n0"] * sc["unit"] and i % 2 == 0
        v = run_scenario(chk, sc, cfgseed, axes, serial, fields, default_pos=dflt)
        sigs = util.sig_str(sc["sig"], axes, serial, "default-pos" if dflt else "pos")
        s = sc["sig"]
        lv0 = s[3]["0"] if isinstance(s[3], dict) else s[3][0]
        triv = s[0] == 1 and lv0[0] == ["between-centres"]
        chk.executed(sigs, not triv, sample={"mesh": sc["mesh"], "pos_unit": sc["pos"], "lim": sc["lim"], "axes": axes,
                                             "serial": serial, "fields": fields})
        chk.traces += 1
        if v:
            chk.violation(sigs, v, {"sc": sc, "cfgseed": cfgseed, "axes": axes, "serial": serial, "fields": fields, "sigs": sigs,
                                    "default_pos": dflt}, klass=klass_of(sc))
    # the command line layer (spec/Cli.tla): every subset of the tool's options typed to the real main(), API intercepted
    from harness import cli
    cli.phase(chk, "mandoline")
