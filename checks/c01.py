"""
C01 -- box data read through the indexing interface is exactly what is on disk.
C15 -- level iteration yields every box exactly once, whatever the schedule (shares the model).

Decider: TLC checks Reader.tla / MC_C01.tla (implementation-shaped ImplRead / ImplScanFile vs the
requirement operators ReadSpec / IterSpec) for every layout x field selector x level x box
selector (and, for iteration, every completion order of the per-file tasks), and emits every
scenario with ReadSpec's value; each scenario is replayed into the real PlotfileCooker and the
returned arrays are mapped back to tokens by digest.
"""
import json
import os
import random

import numpy as np

from harness import alpha, compare, core, gamma, shims, tlc, util

NONEV = 99
INV = ["ReadRefines", "IterRefines", "PoolOK", "Emit"]
FIXED = dict(PostIndex='"step"', NegField='"normalise"', NpIntBox='"int"')


def cfg(names, **c):
    consts = dict(FIXED)
    consts.update(c)
    return {"INIT": "Init", "NEXT": "Next", "DEFS": {"Names": names}, "CONSTANTS": consts,
            "INVARIANTS": INV}


def models(tier, mode):
    N3, N4 = '<<"a","b","c">>', '<<"a","b","c","d">>'
    m = '"%s"' % mode
    if mode == "read":
        if tier == "quick":
            return [("fields x layouts", cfg(N3, MaxLev=2, MaxBox=2, MaxFile=2, FMode='"all"', BMode='"few"', Mode=m, W=2)),
                    ("boxes x layouts", cfg(N3, MaxLev=1, MaxBox=3, MaxFile=2, FMode='"few"', BMode='"all"', Mode=m, W=2))]
        return [("fields x layouts", cfg(N4, MaxLev=2, MaxBox=3, MaxFile=2, FMode='"all"', BMode='"few"', Mode=m, W=2)),
                ("boxes x layouts", cfg(N3, MaxLev=2, MaxBox=3, MaxFile=3, FMode='"few"', BMode='"all"', Mode=m, W=2)),
                ("fields x boxes", cfg(N3, MaxLev=1, MaxBox=2, MaxFile=2, FMode='"all"', BMode='"all"', Mode=m, W=2))]
    if tier == "quick":
        return [("iteration", cfg(N3, MaxLev=1, MaxBox=3, MaxFile=3, FMode='"all"', BMode='"few"', Mode=m, W=2))]
    return [("iteration", cfg(N3, MaxLev=2, MaxBox=4, MaxFile=3, FMode='"few"', BMode='"few"', Mode=m, W=3)),
            ("iteration-fields", cfg(N4, MaxLev=1, MaxBox=3, MaxFile=3, FMode='"all"', BMode='"few"', Mode=m, W=2))]


def py_none(v):
    return None if v == NONEV else v


def py_fsel(f):
    k = f["k"]
    if k in ("name", "int"):
        return f["v"]
    if k in ("ilist", "nlist"):
        return list(f["v"])
    if k == "slice":
        return slice(py_none(f["a"]), py_none(f["b"]), py_none(f["s"]))
    raise core.MachineryError("unknown fsel %r" % f)


def py_bsel(b, variant=0):
    k = b["k"]
    if k == "int":
        return b["v"]
    if k == "npint":
        return np.int64(b["v"])
    if k == "slice":
        return slice(py_none(b["a"]), py_none(b["b"]), py_none(b["s"]))
    if k == "list":
        return np.array(b["v"], dtype=int) if variant == 1 else list(b["v"])
    if k == "mask":
        return np.array(b["v"], dtype=bool) if variant == 1 else [bool(x) for x in b["v"]]
    raise core.MachineryError("unknown bsel %r" % b)


def with_names(sc, cfgseed):
    """The scenario with its abstract field names replaced by concrete ones (gamma.names_map): prefix pairs, parentheses,
    blanks; the unknown name becomes a proper prefix of a known one."""
    nm = gamma.names_map(cfgseed, list(sc["fields"]))
    f = dict(sc["fsel"])
    if f["k"] == "name":
        f["v"] = nm.get(f["v"], f["v"])
    elif f["k"] == "nlist":
        f["v"] = [nm.get(x, x) for x in f["v"]]
    return dict(sc, fields=[nm[x] for x in sc["fields"]], fsel=f)


class World(object):
    """Cache of concretised inputs: one directory per (layout, ndims, cfgseed)."""

    def __init__(self, chk):
        self.chk = chk
        self.cache = {}

    def get(self, sc, ndims, cfgseed, payload):
        from amr_kitchen import PlotfileCooker
        import shutil
        key = json.dumps([sc["fields"], sc["levels"], ndims, cfgseed, payload], sort_keys=True)
        if key in self.cache:
            return self.cache[key]
        # a bounded number of live inputs; the PATH of an evicted one is used again for the next new input, so that the same path
        # holds different plotfiles over time (a cache keyed by path, offset or file name would hand out stale data)
        if not hasattr(self, "free"):
            self.free, self.order = [], []
        if len(self.order) >= 24:
            old = self.order.pop(0)
            dold = self.cache.pop(old)[0]
            shutil.rmtree(os.path.dirname(dold), ignore_errors=True)
            self.free.append(dold)
        cfg_ = gamma.Config.draw(random.Random(cfgseed), ndims=ndims, payload=payload)
        # box cross-sections: 3 x 2 cells, or one cell thick along the last axis (2-D: one cell high)
        cross = [(3, 2), (3, 1), (1, 2), (2, 1)][cfgseed % 4]
        ap = compare.ap_from_scenario("A", sc["fields"], sc["levels"], ndims=ndims, cross=cross)
        if cfgseed % 5 == 0:
            # an index space that does not start at 0: the level-0 domain begins at a negative (or positive) index
            gamma.shift_indices(ap, [[-8, -3, -16], [-4, 0, -1], [5, -2, 0], [1000, 20000, 300000], [-100000, 4096, 65536]][(cfgseed // 5) % 5])
        d = self.free.pop() if self.free else os.path.join(self.chk.tmp(), "in")
        os.makedirs(os.path.dirname(d), exist_ok=True)
        reg = gamma.write_plotfile(d, ap, cfg_)
        if cfgseed % 5 == 2:
            gamma.add_stale_files(d, ap, cfg_, cfgseed)     # left-overs of an earlier, larger plotfile in the same directory
        A = alpha.abstract(d, reg)
        if alpha.wellformed(A):
            raise core.MachineryError("gamma/alpha self-check failed: %r" % alpha.wellformed(A)[:2])
        with core.quiet():
            pck = PlotfileCooker(d)
        self.cache[key] = (d, ap, reg, pck)
        self.order.append(key)
        return self.cache[key]


def abs_box(arr, ap, reg, lvl_hint=None):
    """Returned array -> {"idx": box number | tag, "comps": [...], "scalar": bool}."""
    if not isinstance(arr, np.ndarray):
        return {"idx": "notarray:%s" % type(arr).__name__, "comps": [], "scalar": False}
    nd = ap["ndims"]
    if arr.dtype != np.float64:
        return {"idx": "dtype:%s" % arr.dtype, "comps": [], "scalar": False}
    if arr.ndim == nd:
        scalar, planes = True, [arr]
    elif arr.ndim == nd + 1:
        scalar, planes = False, [arr[..., j] for j in range(arr.shape[-1])]
    else:
        return {"idx": "ndim:%d" % arr.ndim, "comps": [], "scalar": False}
    comps = [reg.token_of(p.ravel(order="F")) for p in planes]
    boxes = set()
    for t in comps:
        if t[0] == "unknown":
            boxes.add("unknown")
        else:
            boxes.add((t[1], t[2]))
    idx = "mixed"
    if len(boxes) == 1:
        b = next(iter(boxes))
        if b == "unknown":
            idx = "unknown"
        else:
            lv, bn = b
            shape = gamma.box_shape(ap["levels"][lv]["boxes"][bn - 1])
            idx = bn if tuple(arr.shape[:nd]) == tuple(shape) else "shape:%r" % (arr.shape,)
    elif len(boxes) == 0:
        # empty field selection: identify by shape only -- not generated
        idx = "empty"
    return {"idx": idx, "comps": [list(c) for c in comps], "scalar": scalar}


def observe_read(pck, ap, reg, fsel, lv, bsel, use_iter=False):
    try:
        with shims.pool_shim(shims.Scheduler()), core.quiet():
            stream = pck[fsel][lv]
            if use_iter:
                r = stream.iter(bsel)
                if not isinstance(r, np.ndarray) and r is not None:
                    r = list(r)
            else:
                r = stream[bsel]
    except Exception as e:
        return {"k": "err", "exc": type(e).__name__}
    if r is None:
        return {"k": "nothing"}
    if isinstance(r, np.ndarray):
        return {"k": "ok", "one": True, "boxes": [abs_box(r, ap, reg)]}
    if isinstance(r, (list, tuple)):
        return {"k": "ok", "one": False, "boxes": [abs_box(a, ap, reg) for a in r]}
    return {"k": "other", "type": type(r).__name__}


def expect_json(e):
    if e.get("k") == "err":
        return {"k": "err"}
    return {"k": "ok", "one": e["one"],
            "boxes": [{"idx": b["idx"], "comps": [list(c) for c in b["comps"]], "scalar": b["scalar"]}
                      for b in e["boxes"]]}


def run_read(chk, world, sc, ndims, cfgseed, payload, variant=0, use_iter=False):
    sc = with_names(sc, cfgseed)
    d, ap, reg, pck = world.get(sc, ndims, cfgseed, payload)
    fsel, bsel = py_fsel(sc["fsel"]), py_bsel(sc["bsel"], variant)
    obs = observe_read(pck, ap, reg, fsel, sc["lv"], bsel, use_iter)
    exp = expect_json(sc["expect"])
    if exp["k"] == "err":
        if obs["k"] != "err":
            return "expected an error, got %s" % core.jdump(obs)[:300]
        return None
    if obs["k"] == "err" and sc.get("lenient"):
        return None
    o = {k: v for k, v in obs.items() if k != "exc"}
    diff = core.first_diff(exp, o)
    if diff:
        return "pck[%r][%r][%r]: %s (observed %s)" % (fsel, sc["lv"], bsel, diff, core.jdump(obs)[:200])
    return None


def run_iter(chk, world, sc, ndims, cfgseed, payload):
    sc = with_names(sc, cfgseed)
    d, ap, reg, pck = world.get(sc, ndims, cfgseed, payload)
    fsel = py_fsel(sc["fsel"])
    got = []
    budget = 64
    try:
        with shims.pool_shim(shims.Scheduler(plan={1: sc["sched"]})), core.quiet():
            for arr in pck[fsel][sc["lv"]]:
                got.append(abs_box(arr, ap, reg))
                if len(got) > budget:
                    return "iteration does not stop (more than %d boxes yielded)" % budget
    except Exception as e:
        if sc["expect"].get("k") == "err" or sc.get("lenient"):
            return None
        return "iteration raised %s: %s" % (type(e).__name__, str(e)[:200])
    if sc["expect"].get("k") == "err":
        return "expected an error, iteration yielded %d boxes" % len(got)
    exp = sorted(core.jdump({"idx": b["idx"], "comps": [list(c) for c in b["comps"]], "scalar": b["scalar"]})
                 for b in sc["expect"]["bag"])
    obs = sorted(core.jdump(b) for b in got)
    if exp != obs:
        return "iteration over pck[%r][%r] yielded %s, expected (any order) %s" % (fsel, sc["lv"], obs[:4], exp[:4])
    return None


def trivial(sc):
    s = sc["sig"]
    return s[1] == ["name"] and s[2] == ["int", "pos"] and s[4] == [1, "mono"] and s[5] == "ok"


def run_mode(chk, replay, mode):
    chk.rule = ("scenarios of MC_C01.tla emitted by TLC: layout x field selector x level x box selector "
                "(x completion order of the per-file tasks for iteration), each replayed into the real reader; "
                "signature = (mode, field-selector class, box-selector class, level sign, (files, mono/non-mono), "
                "ok/err expectation, finish-order class, ndims, selector container variant); trivial = "
                "(name, non-negative int box, one file in header order, ok)")
    chk.assumptions = ["alpha/gamma self-checked per generated input", "pseudo-random payloads make every component "
                       "array unique, so a digest identifies (level, box, field) and any transposition or C/F swap"]
    world = World(chk)
    if replay:
        s = replay["scenario"]
        fn = run_iter if mode == "iter" else run_read
        args = (chk, world, s["sc"], s["ndims"], s["cfgseed"], s["payload"])
        v = fn(*args) if mode == "iter" else run_read(*args, variant=s.get("variant", 0), use_iter=s.get("use_iter", False))
        chk.executed("replay")
        if v:
            chk.violation(s["sigs"], v, s)
        return
    scenarios = []
    for what, c in models(chk.tier, mode):
        r = chk.add_tlc(tlc.run("MC_C01", c, timeout=1200), what)
        if r.violated:
            chk.note_drift("TLC: %s violated in model '%s' (implementation layer of Reader.tla does not refine the requirement)"
                           % (r.violated, what))
        scenarios += r.emitted
    if not scenarios:
        raise core.MachineryError("TLC emitted no scenarios")
    cap = (2500 if chk.tier == "quick" else 40000)
    chosen = util.select(scenarios, cap, chk.rng)
    chk.exhaustive = len(chosen) == len(scenarios)
    seeds = [chk.rng.randrange(1 << 30) for _ in range(3)]
    for i, sc in enumerate(chosen):
        ndims = 2 if i % 4 == 3 else 3
        payload = "wild" if i % 2 == 0 else "tame"
        cfgseed = seeds[i % len(seeds)]
        variant = (i // 2) % 2
        if mode == "iter":
            v = run_iter(chk, world, sc, ndims, cfgseed, payload)
            sigs = util.sig_str(sc["sig"], ndims)
            extra = {}
        else:
            use_iter = sc["bsel"]["k"] in ("slice", "list", "mask") and chk.prop == "C15"
            v = run_read(chk, world, sc, ndims, cfgseed, payload, variant, use_iter)
            sigs = util.sig_str(sc["sig"], ndims, variant if sc["bsel"]["k"] in ("list", "mask") else 0,
                                "iter()" if use_iter else "[]")
            extra = {"variant": variant, "use_iter": use_iter}
        chk.executed(sigs, not trivial(sc),
                     sample={"fsel": sc["fsel"], "lv": sc["lv"], "bsel": sc["bsel"], "levels": sc["levels"],
                             "sched": sc["sched"], "ndims": ndims})
        chk.traces += 1
        if v:
            s = {"sc": sc, "ndims": ndims, "cfgseed": cfgseed, "payload": payload, "sigs": sigs}
            s.update(extra)
            chk.violation(sigs, v, s)
    if mode == "read" and chk.prop == "C01":
        reuse_phase(chk, scenarios, world)


def reuse_phase(chk, scenarios, world):
    """Purity of the reader's objects: several selections through ONE selector (pck[fsel]) and ONE stream (pck[fsel][lv])
    object -- an integer box, then list / slice / mask selections, then the integer box again -- must each equal what
    ReadSpec says for that selection alone (the requirement operator is a function of (content, fsel, lv, bsel) only: no
    history).  The expectations are the ones TLC emitted for the single selections."""
    groups = {}
    for sc in scenarios:
        if sc["expect"].get("k") != "ok":
            continue
        key = json.dumps([sc["fields"], sc["levels"], sc["fsel"], sc["lv"]], sort_keys=True)
        groups.setdefault(key, []).append(sc)
    keys = sorted(k for k, v in groups.items() if len({json.dumps(s["bsel"], sort_keys=True) for s in v}) >= 2)
    chk.rng.shuffle(keys)
    n = 0
    for key in keys[:(150 if chk.tier == "quick" else 1500)]:
        scs = sorted(groups[key], key=lambda s: (s["bsel"]["k"] not in ("int", "npint"), json.dumps(s["bsel"], sort_keys=True)))
        # an integer box first (the in-process path), then up to three others, then the first again
        seq = scs[:1] + chk.rng.sample(scs[1:], min(3, len(scs) - 1)) + scs[:1]
        ndims = 2 if n % 4 == 3 else 3
        payload = "wild" if n % 2 == 0 else "tame"
        cfgseed = chk.rng.randrange(1 << 30)
        seq = [with_names(x, cfgseed) for x in seq]
        d, ap, reg, pck = world.get(seq[0], ndims, cfgseed, payload)
        fsel = py_fsel(seq[0]["fsel"])
        v = None
        # first a selection the reader cannot honour: a field name of the header in ANOTHER CASE (unless the header holds that
        # spelling too).  It must raise -- and must leave nothing behind on the reader that a later selection could see
        names_ = list(ap["fields"])
        odd = [nm.swapcase() for nm in names_ if nm.swapcase() != nm and nm.swapcase() not in names_]
        if odd:
            try:
                with core.quiet():
                    pck[odd[n % len(odd)]]
                v = "pck[%r] was answered although the header holds no field of that name (fields %r)" % (odd[n % len(odd)], names_)
            except Exception:
                pass
        try:
            with core.quiet():
                selector = pck[fsel]
                stream = selector[seq[0]["lv"]]
        except Exception as e:
            v = "pck[%r][%r] raised %r" % (fsel, seq[0]["lv"], e)
        for i, sc in enumerate(seq):
            if v:
                break
            which = stream if i % 2 == 0 else None       # alternately the same stream object and a new stream of the same selector
            try:
                with shims.pool_shim(shims.Scheduler()), core.quiet():
                    st = which if which is not None else selector[sc["lv"]]
                    r = st[py_bsel(sc["bsel"], i % 2)]
            except Exception as e:
                v = "selection %d (%r) on a reused object raised %s: %s" % (i + 1, sc["bsel"], type(e).__name__, str(e)[:120])
                break
            if isinstance(r, np.ndarray):
                obs = {"k": "ok", "one": True, "boxes": [abs_box(r, ap, reg)]}
            elif isinstance(r, (list, tuple)):
                obs = {"k": "ok", "one": False, "boxes": [abs_box(a, ap, reg) for a in r]}
            else:
                obs = {"k": "other"}
            # what the caller does with the arrays it was given is its own business: overwrite them; a later selection must
            # still return what is on disk (no array handed out twice)
            for a in ([r] if isinstance(r, np.ndarray) else (r if isinstance(r, (list, tuple)) else [])):
                if isinstance(a, np.ndarray) and a.flags.writeable:
                    a[...] = np.nan
            diff = core.first_diff(expect_json(sc["expect"]), obs)
            if diff:
                v = ("selection %d of %d through one selector / stream object, pck[%r][%r][%r]: %s (earlier selections on the same "
                     "objects: %r)" % (i + 1, len(seq), fsel, sc["lv"], py_bsel(sc["bsel"]), diff, [s["bsel"] for s in seq[:i]]))
        sigs = util.sig_str("object-reuse", seq[0]["sig"][1], [s["bsel"]["k"] for s in seq], ndims)
        chk.executed(sigs, True)
        chk.traces += 1
        n += 1
        if v:
            chk.violation(sigs, v, {"reuse": True, "seq": seq, "ndims": ndims, "cfgseed": cfgseed, "payload": payload})


def run(chk, replay):
    if replay and replay["scenario"].get("reuse"):
        s = replay["scenario"]
        world = World(chk)
        # re-run the recorded sequence exactly
        class _R(object):
            def shuffle(self, x):
                pass

            def sample(self, x, k):
                return list(x)[:k]

            def randrange(self, n):
                return s["cfgseed"]
        return reuse_phase(chk, s["seq"], world)
    run_mode(chk, replay, "read")
    if not replay:
        # code -> spec: selections recorded on large generated plotfiles and the repository's assets, judged by
        # Reader!ReadSpec in OpTrace.tla
        from harness import optrace
        optrace.phase(chk, ["read"], "indexing interface on large inputs", 60, 600, assets=["example_plt_3d", "example_plt_2d"], nops=8)
        # headers with repeated names and names that look like generated keys (FieldKeys.tla): every key reads its own component
        from harness import keys
        keys.phase(chk, "read")
        # the working directory changes between selections on plotfiles opened under a relative name (PoolEnv.tla)
        from harness import poolenv
        poolenv.phase(chk, "select")
        # hierarchies with refinement ratios 2 / 4 / mixed (Refine.tla): every box of every level reads its own FAB
        from harness import refine
        refine.phase(chk, "read")
