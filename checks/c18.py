"""
C18 -- header-only tools report what the full reader holds.

Decider: TLC checks HeaderTools.tla (classification through the ordered pattern table, species
list, two-column min/max layout with parity padding) against ListedOnce / RowPerField for every
field list within the bounds x menu mode, and emits each scenario; each is replayed on a
generated plotfile: menu's printed tables are tokenised and compared (listing; extrema formatted
by python's '{:.3}' from an independent parse of the level headers), minuterie's printed time is
compared with the header, and a marinated reader is unpickled and compared with a fresh reader
(metadata) and with the generated data (every box).
"""
import copy
import io
import os
import pickle
import random
import re
import sys

import numpy as np

from checks.c02 import rand_layout
from harness import alpha, compare, core, gamma, shims, tlc, util
from harness import spell

INV = ["ListedOnce", "RowPerField", "Emit"]
_ORIG_TABLE = None
NAN_CONVENTION = {}


def capture(fn):
    so = sys.stdout
    sys.stdout = io.StringIO()
    try:
        fn()
        return sys.stdout.getvalue()
    finally:
        sys.stdout = so


def fmt3(v):
    s = "{:.3}".format(v)
    return s


def between_caps(lines):
    """Sections of lines between consecutive +----+ caps of each printed table, flattened in order.
    A table ends at the first blank line after a cap."""
    blocks, cur, intable = [], None, False
    for ln in lines:
        if re.match(r"^\+-*\+(\t\+-*\+)?\s*$", ln):
            if intable and cur is not None:
                blocks.append(cur)
            intable, cur = True, []
        elif intable:
            if ln.strip() == "":
                intable, cur = False, None
            else:
                cur.append(ln)
    return blocks


def run_scenario(chk, sc, cfgseed, ndims):
    global _ORIG_TABLE
    from amr_kitchen import PlotfileCooker
    from amr_kitchen.menu.menu import Menu
    if _ORIG_TABLE is None:
        _ORIG_TABLE = copy.deepcopy(Menu.field_info)
    Menu.field_info = copy.deepcopy(_ORIG_TABLE)
    rng = random.Random(cfgseed)
    cfg_ = gamma.Config.draw(rng, ndims=ndims, payload="tame")
    cfg_.time = rng.choice([0.0, -3.25, 1.3924182125972017e-08, 1e+300, float("inf"), 123456789.125])
    fields = list(sc["fields"])
    # concrete spellings of the unknown names: as they are, or so that two entries of the listing are EQUAL UP TO CASE -- the other
    # unknown name in capitals ("foo" next to "FOO"), a coordinate field "y" / "x" next to the species class "Y(..)": distinct fields
    if cfgseed % 3 == 1 and "foo" in fields and "bar" in fields:
        fields = ["FOO" if f == "bar" else f for f in fields]
    elif cfgseed % 3 == 2 and "foo" in fields and any(f.startswith("Y(") for f in fields):
        fields = ["y" if f == "foo" else f for f in fields]
    nlev = rng.randint(1, 3)
    classes = [[rng.choice([1, 2]) for _ in range(rng.randint(1, 3))] for _ in range(nlev)]
    lays = [rand_layout(rng, len(c)) for c in classes]
    ap = gamma.make_ap("A", fields, classes, lays, ndims=ndims, time=cfg_.time)

    nan_at = (cfgseed // 7) % (2 * nlev) if cfgseed % 2 == 0 else None     # (level, min|max) holding a NaN entry

    def mm_override(lv, mins, maxs):
        if lv == 0 and cfgseed % 3 == 0:
            mins[1][0], maxs[1][0] = float("-inf"), float("inf")
        if nan_at is not None and lv == nan_at // 2:
            b = 1 + (cfgseed // 3) % len(mins)
            j = (cfgseed // 5) % len(fields)
            (mins if nan_at % 2 == 0 else maxs)[b][j] = float("nan")
        return mins, maxs
    d = os.path.join(chk.tmp_reuse(), "plt00100")
    os.makedirs(os.path.dirname(d))
    reg = gamma.write_plotfile(d, ap, cfg_, mm_override=mm_override)
    before = alpha.tree_digest(d)
    A = alpha.abstract(d, reg)
    mode = sc["mode"]
    # ---- minuterie
    from amr_kitchen import minuterie
    old = sys.argv
    sys.argv = ["minuterie", d]
    try:
        txt = capture(minuterie.main)
    except Exception as e:
        return "minuterie raised %r" % e
    finally:
        sys.argv = old
    m = re.search(r"Plotfile time =\s*(\S+)", txt)
    if not m:
        return "minuterie printed no time: %r" % txt
    if not compare.same_float(float(m.group(1)), A["hdr"]["time"]):
        return "minuterie printed %s, the header time is %r" % (m.group(1), A["hdr"]["time"])
    # ---- menu
    try:
        txt = capture(lambda: Menu(plt_file=spell.of(d, cfgseed)[0], description=(mode == "description"), min_max=(mode == "minmax"),
                                   finest_lv=(mode == "finest")))
    except Exception as e:
        return "menu (%s) raised %s: %s" % (mode, type(e).__name__, str(e)[:150])
    lines = txt.split("\n")
    blocks = between_caps(lines)
    exp = sc["expect"]
    table = _ORIG_TABLE

    def class_matches(tok, field):
        if tok == field:
            return True
        if tok in table:
            return re.compile(table[tok][0]).search(field) is not None
        return False
    if mode == "default":
        if not blocks:
            return "menu printed no fields table"
        toks = " ".join(blocks[0]).split()
        if len(set(toks)) != len(toks):
            return "an entry of the fields table is printed twice: %r" % toks
        text = " " + " ".join(toks) + " "
        for f in fields:
            # a name with a blank in it is printed as several words: it is represented by that word sequence
            n = text.count(" " + f + " ") if " " in f else sum(1 for t in toks if class_matches(t, f))
            if n != 1:
                return "field %r is represented %d times in the fields table %r" % (f, n, toks)
        sp = " ".join(blocks[1]).split() if len(blocks) > 1 else []
        want = sorted(re.sub(r"^Y\((.*)\)$", r"\1", f) for f in exp["species"])
        if sorted(sp) != want:
            return "species list %r, the header has %r" % (sp, want)
    elif mode == "description":
        if len(blocks) < 2:
            return "menu --description printed no table"
        toks = [ln.split(" : ")[0].strip() for ln in blocks[1] if " : " in ln]
        if len(set(toks)) != len(toks):
            return "an entry of the description table is printed twice: %r" % toks
        for f in fields:
            n = sum(1 for t in toks if class_matches(t, f))
            if n != 1:
                return "field %r is represented %d times in the description table %r" % (f, n, toks)
    else:
        if len(blocks) < 2:
            return "menu printed no min/max table"
        got = {}
        for ln in blocks[1]:
            for half in ln.split("\t"):
                if " : " not in half:
                    continue
                name, rest = half.split(" : ", 1)
                name = name.strip()
                if not name:
                    continue
                vals = rest.split()
                if name in got:
                    return "field %r has two rows in the min/max table" % name
                got[name] = (vals[0], vals[1]) if len(vals) >= 2 else None
        levels = range(len(A["lev"])) if mode == "minmax" else [len(A["lev"]) - 1]
        # a repeated header name is shown under the reader's numbering of repeats: name, name_2, name_3 ... (by position)
        seen, shown_as = {}, []
        for f in fields:
            seen[f] = seen.get(f, 0) + 1
            shown_as.append(f if seen[f] == 1 else "%s_%d" % (f, seen[f]))
        for i, (f0, f) in enumerate(zip(fields, shown_as)):
            if f not in got:
                return "field %r (number %d of %d) has no row in the min/max table" % (f, i + 1, len(fields))
            los = [row[i] for l in levels for row in A["lev"][l]["mins"]]
            his = [row[i] for l in levels for row in A["lev"][l]["maxs"]]
            for shown, vals, fun, what in ((got[f][0], los, min, "min"), (got[f][1], his, max, "max")):
                clean = [v for v in vals if v == v]
                if len(clean) == len(vals):
                    ok = shown == fmt3(fun(vals))
                else:
                    # a NaN entry in the header tables: the statement does not say whether it propagates; either
                    # convention is accepted, but it must be the SAME convention wherever the NaN sits (see run())
                    if shown == fmt3(float("nan")):
                        NAN_CONVENTION.setdefault("propagate", (f, mode, nan_at))
                        ok = True
                    elif clean and shown == fmt3(fun(clean)):
                        NAN_CONVENTION.setdefault("ignore", (f, mode, nan_at))
                        ok = True
                    else:
                        ok = False
                if not ok:
                    return "%s of %r printed as %r, the level headers hold %r (%s)" % (
                        what, f, shown, sorted(set(vals), key=repr)[:6], "all levels" if mode == "minmax" else "finest level")
        extra = set(got) - set(shown_as)
        if extra:
            return "min/max table has rows for %r which are not fields" % sorted(extra)
    # ---- marinate (3-D only: the tool builds the ghost map)
    if ndims == 3 and cfgseed % 2 == 0:
        from amr_kitchen import marinate
        sys.argv = ["marinate", d]
        try:
            with core.quiet():
                marinate.main()
        except Exception as e:
            return "marinate raised %s: %s" % (type(e).__name__, str(e)[:150])
        finally:
            sys.argv = old
        try:
            with open(d + ".pkl", "rb") as f:
                pk = pickle.load(f)
        except Exception as e:
            return "the marinated reader cannot be unpickled: %r" % e
        with core.quiet():
            fresh = PlotfileCooker(d, maxmins=True, ghost=True)
        for attr in ("fields", "ndims", "time", "max_level", "limit_level", "geo_low", "geo_high", "dx", "boxes",
                     "grid_sizes", "step_numbers", "cell_paths", "nfields"):
            a, b = getattr(pk, attr, "<missing>"), getattr(fresh, attr)
            if core.jdump(a) != core.jdump(b):
                return "unpickled reader attribute %s = %r, a fresh reader has %r" % (attr, a, b)
        # every attribute either reader holds (derived ones too: box centres, global grids, box arrays, ghost map), bit for bit
        dv = deep_diff(vars(pk), vars(fresh), "")
        if dv:
            return "unpickled reader differs from a fresh reader of the same plotfile: %s" % dv
        for l in range(len(A["lev"])):
            for key in ("indexes", "files", "offsets"):
                if core.jdump(pk.cells[l][key]) != core.jdump(fresh.cells[l][key]):
                    return "unpickled reader cells[%d][%r] differs from a fresh reader" % (l, key)
            for key in ("mins", "maxs"):
                for f in fresh.cells[l][key]:
                    if not np.array_equal(pk.cells[l][key][f], fresh.cells[l][key][f], equal_nan=True):
                        return "unpickled reader %s[%r] at level %d differs" % (key, f, l)
            for b in range(len(A["lev"][l]["idx"])):
                with core.quiet():
                    arr = pk[slice(None)][l][b]
                for j in range(len(fields)):
                    if reg.token_of(arr[..., j].ravel(order="F")) != ["A", l, b + 1, j + 1]:
                        return "unpickled reader returns other data for level %d box %d field %d" % (l, b, j)
        if cfgseed % 4 == 0:
            # a SECOND marination after the plotfile was rewritten IN PLACE (a later output of the same run written to the same
            # path: every file overwritten, no entry created or removed, so the directory's own time stamp does not move): the
            # pickle must be the reader of what the directory holds NOW
            import copy as _copy
            cfg2 = _copy.copy(cfg_)
            cfg2.seed = cfg_.seed + 1
            cfg2.time = 2.0 * cfg_.time + 1.0 if np.isfinite(cfg_.time) else 7.5
            ap2 = _copy.deepcopy(ap)
            ap2["time"] = cfg2.time
            d2 = os.path.join(os.path.dirname(d), "later")
            gamma.write_plotfile(d2, ap2, cfg2)
            for root, _dirs, files in os.walk(d2):
                for fn in files:
                    dst = os.path.join(d, os.path.relpath(os.path.join(root, fn), d2))
                    with open(os.path.join(root, fn), "rb") as fsrc, open(dst, "r+b") as fdst:
                        fdst.seek(0)
                        fdst.write(fsrc.read())
                        fdst.truncate()
            sys.argv = ["marinate", d]
            try:
                with core.quiet():
                    marinate.main()
            except Exception as e:
                return "a second marinate of the same path raised %s: %s" % (type(e).__name__, str(e)[:150])
            finally:
                sys.argv = old
            with open(d + ".pkl", "rb") as f:
                pk2 = pickle.load(f)
            with core.quiet():
                fresh2 = PlotfileCooker(d, maxmins=True, ghost=True)
            dv = deep_diff(vars(pk2), vars(fresh2), "")
            if dv:
                return ("marinate run again after the plotfile was rewritten in place: the unpickled reader is not the reader of "
                        "what the directory holds now: %s" % dv)
            os.remove(d + ".pkl")
            return None
        os.remove(d + ".pkl")
    if alpha.tree_digest(d) != before:
        return "the input plotfile was modified"
    return None


def deep_diff(a, b, where):
    """None, or where two attribute trees differ (floats compared by bits, nan = nan of the same bits)."""
    if isinstance(a, dict) and isinstance(b, dict):
        if sorted(map(repr, a)) != sorted(map(repr, b)):
            return "%s: keys %r vs %r" % (where or "attributes", sorted(map(repr, a))[:12], sorted(map(repr, b))[:12])
        for k in a:
            r = deep_diff(a[k], b[k], "%s[%r]" % (where, k) if where else str(k))
            if r:
                return r
        return None
    if isinstance(a, np.ndarray) or isinstance(b, np.ndarray):
        a, b = np.asarray(a), np.asarray(b)
        if a.shape != b.shape or a.dtype != b.dtype:
            return "%s: array %r %s vs %r %s" % (where, a.shape, a.dtype, b.shape, b.dtype)
        if a.dtype == object:
            return deep_diff(list(a.ravel()), list(b.ravel()), where)
        if a.tobytes() != b.tobytes():
            bad = np.argwhere(~((a == b) | ((a != a) & (b != b))))
            i = tuple(bad[0]) if len(bad) else ()
            return "%s%r: %r vs %r" % (where, list(map(int, i)), a[i] if len(bad) else "bits", b[i] if len(bad) else "bits")
        return None
    if isinstance(a, (list, tuple)) and isinstance(b, (list, tuple)):
        if len(a) != len(b) or type(a) != type(b):
            return "%s: %s of %d vs %s of %d" % (where, type(a).__name__, len(a), type(b).__name__, len(b))
        for i, (x, y) in enumerate(zip(a, b)):
            r = deep_diff(x, y, "%s[%d]" % (where, i))
            if r:
                return r
        return None
    if isinstance(a, (float, np.floating)) and isinstance(b, (float, np.floating)):
        if type(a) != type(b) or np.float64(a).tobytes() != np.float64(b).tobytes():
            return "%s: %r vs %r" % (where, a, b)
        return None
    if isinstance(a, (int, str, bool, bytes, type(None), np.integer)) or isinstance(b, (int, str, bool, bytes, type(None), np.integer)):
        if type(a) != type(b) or a != b:
            return "%s: %r vs %r" % (where, a, b)
        return None
    if type(a) != type(b):
        return "%s: a %s vs a %s" % (where, type(a).__name__, type(b).__name__)
    return None          # other objects (none expected): not compared


def species_count_phase(chk):
    """menu lists every species exactly once whatever their NUMBER is (the species box prints eight to a line): 7, 8, 9, 15, 16, 17,
    24 species next to two ordinary fields."""
    for k, ns in enumerate((7, 8, 9, 15, 16, 17, 24)):
        sp = ["Y(S%d)" % i for i in range(ns)]
        fields = ["density"] + sp[:ns // 2] + ["temp"] + sp[ns // 2:]
        sc = {"fields": fields, "mode": "default", "sig": ["species-count", ns],
              "expect": {"classes": [], "species": sp}}
        cfgseed = chk.rng.randrange(1 << 30) * 3            # (no renaming of unknown names: multiples of three)
        v = run_scenario(chk, sc, cfgseed, 3 if k % 2 else 2)
        sigs = util.sig_str(["species-count", ns])
        chk.executed(sigs, True, sample={"species": ns})
        chk.traces += 1
        if v:
            chk.violation(sigs, v, {"sc": sc, "cfgseed": cfgseed, "ndims": 3 if k % 2 else 2, "sigs": sigs})


def class_count_phase(chk):
    """menu lists every field exactly once whatever the NUMBER of entries of the fields table is (four to a line): 4, 5, 6, 8, 9, 10,
    13, 17 fields of classes of their own."""
    for k, nc in enumerate((4, 5, 6, 8, 9, 10, 13, 17)):
        fields = ["density", "temp"] + ["q%02d" % i for i in range(nc - 2)]
        for mode in ("default", "description"):
            sc = {"fields": fields, "mode": mode, "sig": ["class-count", nc, mode], "expect": {"classes": [], "species": []}}
            cfgseed = chk.rng.randrange(1 << 30) * 3
            v = run_scenario(chk, sc, cfgseed, 3 if k % 2 else 2)
            sigs = util.sig_str(["class-count", nc, mode])
            chk.executed(sigs, True, sample={"classes": nc, "mode": mode})
            chk.traces += 1
            if v:
                chk.violation(sigs, v, {"sc": sc, "cfgseed": cfgseed, "ndims": 3 if k % 2 else 2, "sigs": sigs})


def option_sets_phase(chk):
    """MenuOpts.tla: every subset of menu's options on one generated plotfile; each display the set asks for must be in the output,
    line for line as that display alone prints it (multiset of non-blank lines)."""
    from amr_kitchen.menu import Menu
    from collections import Counter
    r = chk.add_tlc(tlc.run("MenuOpts", {"INIT": "Init", "NEXT": "Next", "CONSTANTS": {"Dispatch": '"independent"'},
                                         "INVARIANTS": ["EveryDisplayShown", "Emit"]}, workers=1, timeout=300), "menu option sets (MenuOpts)")
    if r.violated:
        chk.note_drift("TLC: %s violated in MenuOpts.tla" % r.violated)
    if not r.emitted:
        raise core.MachineryError("MenuOpts emitted nothing")
    rng = random.Random(chk.seed + 18)
    cfg_ = gamma.Config.draw(rng, ndims=3, payload="tame")
    fields = ["density", "temp", "Y(H2)", "Y(O2)", "x_velocity", "foo", "mag_vort"]
    ap = gamma.make_ap("A", fields, [[1, 2], [1]], None, ndims=3)
    d = os.path.join(chk.tmp(), "plt00020")
    os.makedirs(os.path.dirname(d))
    gamma.write_plotfile(d, ap, cfg_)

    def show(o):
        kw = dict(min_max="min_max" in o, finest_lv="finest_lv" in o, description="description" in o, every="every" in o,
                  has_var=["temp", "Y(O2)"] if "has_var" in o else None)
        return Counter(ln.strip() for ln in capture(lambda: Menu(plt_file=d, **kw)).split("\n") if ln.strip())
    groups = {"table": {"min_max", "finest_lv"}, "search": {"has_var"}, "described-list": {"description", "every"}, "plain-list": set()}
    for sc in sorted(r.emitted, key=core.jdump):
        o = set(sc["opts"])
        v = None
        try:
            whole = show(o)
            for disp in sc["required"]:
                alone = show(o & groups[disp])
                missing = alone - whole
                # lines common to every display (banners, the plotfile's name) do not identify one: judged on the rest
                if sum(missing.values()) > 0:
                    v = "menu with options %r does not show the %s as the option(s) %r alone print it: %d line(s) missing, e.g. %r" % (
                        sorted(o), disp, sorted(o & groups[disp]), sum(missing.values()), sorted(missing)[0][:100])
                    break
        except Exception as e:
            v = "menu with options %r raised %s: %s" % (sorted(o), type(e).__name__, str(e)[:150])
        sig = util.sig_str("option-set", sorted(o))
        chk.executed(sig, len(sc["required"]) > 1, sample={"opts": sorted(o), "required": sc["required"]})
        chk.traces += 1
        if v:
            chk.violation(sig, v, {"option_set": sorted(o)})


def run(chk, replay):
    chk.rule = ("scenarios of HeaderTools.tla emitted by TLC (duplicate-free field lists over known, multi-field-class, species and "
                "unknown names x menu mode), replayed on generated 2-D / 3-D plotfiles with 1..3 levels, negative / huge / infinite "
                "times and infinite extrema; signature = (parity, species, unknown names, mode, count, ndims); trivial = one known field, default mode")
    chk.assumptions = ["menu's own pattern table (data) decides which printed class represents a field",
                       "marinate is exercised on 3-D inputs only (it builds the 3-D ghost map)"]
    if replay and "option_set" in replay["scenario"]:
        chk.executed("replay")
        return option_sets_phase(chk)
    if replay:
        s = replay["scenario"]
        v = run_scenario(chk, s["sc"], s["cfgseed"], s["ndims"])
        chk.executed("replay")
        if v:
            chk.violation(s["sigs"], v, s)
        return
    mf = 4 if chk.tier == "quick" else 5
    r = chk.add_tlc(tlc.run("MC_C18", {"INIT": "Init", "NEXT": "Next", "CONSTANTS": {"MaxFields": mf, "Parity": '"mod2"'},
                                       "INVARIANTS": INV}, timeout=2400), "field lists <= %d" % mf)
    if r.violated:
        chk.note_drift("TLC: %s violated in HeaderTools.tla" % r.violated)
    scenarios = r.emitted
    if not scenarios:
        raise core.MachineryError("TLC emitted no scenarios")
    cap = 1200 if chk.tier == "quick" else 20000
    chosen = util.select(scenarios, cap, chk.rng)
    chk.exhaustive = len(chosen) == len(scenarios)
    for i, sc in enumerate(chosen):
        ndims = 2 if i % 3 == 1 else 3
        cfgseed = chk.rng.randrange(1 << 30)
        v = run_scenario(chk, sc, cfgseed, ndims)
        sigs = util.sig_str(sc["sig"], ndims)
        triv = sc["sig"][5] == 1 and sc["sig"][4] == "default" and sc["sig"][2] == "known"
        chk.executed(sigs, not triv, sample={"fields": sc["fields"], "mode": sc["mode"], "ndims": ndims})
        chk.traces += 1
        if v:
            chk.violation(sigs, v, {"sc": sc, "cfgseed": cfgseed, "ndims": ndims, "sigs": sigs})
    if len(NAN_CONVENTION) > 1:
        chk.violation("nan-extrema-convention", "the extremum shown for a field whose header tables contain a NaN entry depends on where "
                      "the NaN sits: propagated for %r, ignored for %r (field, mode, (level, min|max) index)" % (
                          NAN_CONVENTION["propagate"], NAN_CONVENTION["ignore"]), {"conventions": core.jdump(NAN_CONVENTION)})
    chk.extra["nan_extrema_convention_observed"] = sorted(NAN_CONVENTION)
    # the command line layer (spec/Cli.tla): every subset of the tool's options typed to the real main(), API intercepted
    from harness import cli
    cli.phase(chk, "menu")
    option_sets_phase(chk)
    species_count_phase(chk)
    class_count_phase(chk)
