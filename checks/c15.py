"""
C15 -- level iteration yields every box exactly once, whatever the schedule; the on-demand
iterator over a box selection yields the selected boxes in the requested order.
Shares Reader.tla / MC_C01.tla with C01 (Mode = "iter": one imap task per unique file, every
start/finish interleaving; IterRefines).  See checks/c01.py.
"""
from checks import c01


def run(chk, replay):
    if replay:
        mode = "iter" if replay["scenario"]["sc"]["bsel"]["k"] == "iter" else "read"
        return c01.run_mode(chk, replay, mode)
    c01.run_mode(chk, None, "iter")
    # stream.iter(bsel) for slice / list / mask selections (requested order)
    c01.run_mode(chk, None, "read")
    # code -> spec: level iteration and iter() recorded on large generated plotfiles and the assets (Reader!IterSpec in OpTrace.tla)
    from harness import optrace
    optrace.phase(chk, ["iter", "iter", "read"], "level iteration on large inputs", 60, 600, assets=["example_plt_3d", "example_plt_2d"], nops=6)
