"""
C15 -- level iteration yields every box exactly once, whatever the schedule; the on-demand
iterator over a box selection yields the selected boxes in the requested order.
Shares Reader.tla / MC_C01.tla with C01 (Mode = "iter": one imap task per unique file, every
start/finish interleaving; IterRefines).  See checks/c01.py.
"""
from checks import c01


def run(chk, replay):
    if replay and replay["scenario"].get("real_pool"):
        return real_pool_phase(chk)
    if replay:
        mode = "iter" if replay["scenario"]["sc"]["bsel"]["k"] == "iter" else "read"
        return c01.run_mode(chk, replay, mode)
    c01.run_mode(chk, None, "iter")
    # stream.iter(bsel) for slice / list / mask selections (requested order)
    c01.run_mode(chk, None, "read")
    # code -> spec: level iteration and iter() recorded on large generated plotfiles and the assets (Reader!IterSpec in OpTrace.tla)
    from harness import optrace
    optrace.phase(chk, ["iter", "iter", "read"], "level iteration on large inputs", 60, 600, assets=["example_plt_3d", "example_plt_2d"], nops=6)
    # the working directory changes between iterations over plotfiles opened under a relative name (PoolEnv.tla)
    from harness import poolenv
    poolenv.phase(chk, "iter")
    real_pool_phase(chk)


def real_pool_phase(chk):
    """`.iter(selection)` and level iteration with the genuine multiprocessing pool, in a child process that can be
    abandoned: every selection -- the EMPTY ones included -- must yield exactly the selected boxes in the requested order
    and then stop.  Expected values are what the in-parent independent parser (alpha) reads from the same directory."""
    import json
    import os
    import random
    import subprocess
    import sys
    import hashlib
    import numpy as np
    from checks.c02 import rand_layout
    from harness import alpha, core, gamma
    from harness import tlc
    # PoolLife.tla: the life time of a pool whose only referent is the imap iterator.  With the pool kept referenced by the
    # consumer (KeepRef = TRUE, the repaired code) no schedule wedges the task-handler thread and the caller always finishes;
    # the schedules of the KeepRef = FALSE instances are the ones imposed on the real pool below.
    for n in ((0, 1, 2) if chk.tier == "quick" else (0, 1, 2, 3, 4)):
        r = chk.add_tlc(tlc.run("PoolLife", {"SPECIFICATION": "Spec", "CONSTANTS": {"N": n, "KeepRef": "TRUE"}, "INVARIANTS": ["NoWedge"],
                                             "PROPERTIES": ["CallerFinishes"]}, workers=2, timeout=300), "PoolLife N=%d, pool kept referenced" % n)
        if r.violated:
            chk.note_drift("TLC: %s violated in PoolLife.tla (N=%d)" % (r.violated, n))
    rng = random.Random(chk.seed + 77)
    nruns = 2 if chk.tier == "quick" else 8
    for run in range(nruns):
        classes = [[rng.randint(1, 3) for _ in range(rng.randint(1, 5))]]
        ndims = 3 if run % 2 == 0 else 2
        cfg_ = gamma.Config.draw(rng, ndims=ndims, payload="wild")
        ap = gamma.make_ap("A", ["a", "b"], classes, [rand_layout(rng, len(classes[0]))], ndims=ndims, time=cfg_.time)
        d = os.path.join(chk.tmp(), "plt")
        os.makedirs(os.path.dirname(d))
        reg = gamma.write_plotfile(d, ap, cfg_)
        n = len(classes[0])
        want1 = [hashlib.sha1(np.ascontiguousarray(reg.array_of(("A", 0, b, 1)).reshape(gamma.box_shape(ap["levels"][0]["boxes"][b - 1]), order="F")).tobytes()).hexdigest()[:12]
                 for b in range(1, n + 1)]
        expect = {"slice-empty": [], "slice-empty-past-end": [], "slice-all": want1, "slice-step": want1[::2], "list-empty": [],
                  "list": want1[::-1], "mask-none": [], "mask-all": want1, "mask-first": want1[:1], "level-iteration": None}
        budget = 20
        out = ""
        for mode in ([], ["slow-handler"]):
            try:
                p = subprocess.run([sys.executable, os.path.join(os.path.dirname(os.path.abspath(__file__)), "c15_real.py"), core.REPO, d, "0", str(budget)] + mode,
                                   stdout=subprocess.PIPE, stderr=subprocess.PIPE, text=True, timeout=budget * 12 + 60)
                out += p.stdout
            except subprocess.TimeoutExpired as e:
                out += e.stdout.decode() if isinstance(e.stdout, bytes) else (e.stdout or "")
        recs = [json.loads(ln) for ln in out.split("\n") if ln.startswith("{")]
        if not recs:
            raise core.MachineryError("the real-pool child produced no record: %s" % (p.stderr[-600:] if "p" in dir() else "timeout"))
        for rec in recs:
            sig = "real-pool%s/%s/boxes%d/%dd" % ("-slow-task-handler" if rec.get("slow") else "", rec["sel"], n, ndims)
            chk.executed(sig)
            chk.traces += 1
            exp = expect[rec["sel"]]
            v = None
            if rec.get("hang"):
                v = "%s on a level of %d boxes does not stop with the real process pool%s (no result within %d s)" % (
                    "level iteration" if rec["sel"] == "level-iteration" else "pck[0][0].iter(%s)" % rec["sel"], n,
                    " when the pool's task-handler thread is slower than its workers" if rec.get("slow") else "", budget)
            elif "exc" in rec:
                v = "%s raised %s" % (rec["sel"], rec["exc"])
            elif exp is None:
                if sorted(rec["yielded"]) != sorted(want1):
                    v = "level iteration yielded %d boxes, the level has %d (as a multiset of contents)" % (len(rec["yielded"]), n)
            elif rec["yielded"] != exp:
                v = "iter(%s) yielded %r, the selected boxes in the requested order are %r" % (rec["sel"], rec["yielded"], exp)
            if v:
                chk.violation(sig, v, {"real_pool": True, "sel": rec["sel"]}, klass="real-pool%s/%s" % ("-slow" if rec.get("slow") else "", rec["sel"]))
