"""
Child process of C15: the on-demand iterator `.iter(selection)` and level iteration with the GENUINE
multiprocessing pool (no shim), one JSON line per selection.  A selection that does not finish within
the budget is reported as {"hang": true} -- the in-process pool of the replay cannot show a deadlock
in the pool's own threads.  With `slow-handler` the pool's task-handler thread is delayed just before it announces the
length of an imap job, so that every result is already stored by then: the schedule of PoolLife.tla in which the iterator
drops the last reference to the pool from the pool's own thread.
Usage: c15_real.py <repo> <plotfile> <level> <budget seconds> [slow-handler]
"""
import json
import os
import signal
import sys

import numpy as np


class Budget(Exception):
    pass


def on_alarm(sig, frm):
    raise Budget()


def main():
    repo, plt, lv, budget = sys.argv[1], sys.argv[2], int(sys.argv[3]), int(sys.argv[4])
    slow = len(sys.argv) > 5 and sys.argv[5] == "slow-handler"
    sys.path.insert(0, repo)
    if slow:
        import time
        import multiprocessing.pool as mpp
        orig = mpp.IMapIterator._set_length

        def delayed(self, length):
            time.sleep(0.4)
            return orig(self, length)
        mpp.IMapIterator._set_length = delayed
    import hashlib
    from amr_kitchen import PlotfileCooker
    so = sys.stdout
    sys.stdout = open(os.devnull, "w")
    pck = PlotfileCooker(plt)
    n = len(pck.cells[lv]["indexes"])
    st = pck[0][lv]
    signal.signal(signal.SIGALRM, on_alarm)
    sels = [("slice-empty", slice(0, 0)), ("slice-empty-past-end", slice(n, None)), ("slice-all", slice(None)),
            ("slice-step", slice(0, None, 2)), ("list-empty", []), ("list", list(range(n))[::-1]),
            ("mask-none", np.zeros(n, dtype=bool)), ("mask-all", np.ones(n, dtype=bool)),
            ("mask-first", np.arange(n) == 0), ("level-iteration", None)]
    if slow:
        order = ["level-iteration", "slice-all", "list", "mask-first", "slice-empty"]
        sels = sorted([x for x in sels if x[0] in order], key=lambda x: order.index(x[0]))
    for name, sel in sels:
        rec = {"sel": name, "n": n, "slow": slow}
        signal.alarm(budget)
        try:
            it = st.iter(sel) if sel is not None else st
            rec["yielded"] = [hashlib.sha1(np.ascontiguousarray(a).tobytes()).hexdigest()[:12] for a in it]
        except Budget:
            rec["hang"] = True
        except Exception as e:
            rec["exc"] = "%s: %s" % (type(e).__name__, str(e)[:100])
        finally:
            signal.alarm(0)
        so.write(json.dumps(rec) + "\n")
        so.flush()
        if rec.get("hang"):
            # the pool's threads are wedged: do not try anything else in this process
            break
    so.flush()
    os._exit(0)


if __name__ == "__main__":
    main()
