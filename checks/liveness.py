"""
Liveness pass of the thorough tier: for the property's model, `SPECIFICATION Spec` (with weak
fairness, NO state constraint) and the temporal property Terminates (<>(pc = "done")) are checked
by TLC on the small "repaired" instance that the selftest also uses.  A failure is reported as
SPEC-DRIFT (a design-level finding), never as a VIOLATION: termination of the real code is judged
by the replays (every replay returns, iteration is guarded by a yield budget).
"""
from checks import selftest
from harness import tlc

PREFIX = {"C01": "C01 repaired", "C15": "C01 repaired", "C03": "Taste repaired", "C04": "Taste repaired", "C20": "Taste repaired",
          "C05": "C05 repaired", "C06": "C06 repaired", "C07": "C07 repaired", "C09": "C09 repaired", "C10": "C10 repaired",
          "C11": "C11 repaired", "C12": "C12 repaired", "C13": "C13 repaired", "C16": "C16 repaired", "C17": "C17 repaired"}


def run(chk):
    name = PREFIX.get(chk.prop)
    if not name:
        return
    for gname, (module, cfg), expect in selftest.guards():
        if gname.startswith(name):
            c = tlc.liveness_cfg(cfg)
            if chk.prop == "C15":
                c["CONSTANTS"] = dict(c["CONSTANTS"], Mode='"iter"', MaxBox=3, MaxFile=3)
            r = tlc.run(module, c, timeout=1800)
            if r.error:
                chk.notes.append("liveness run failed: %s" % r.error[:200])
                return
            chk.tlc.append(dict(r.summary(), what="liveness: Spec (weak fairness, no constraint) => <>done"))
            chk.states += r.distinct
            chk.transitions += r.states
            if r.violated:
                chk.note_drift("liveness: Terminates is violated in %s under weak fairness" % module)
            return
