"""
C17 -- chk2plt carries the checkpoint's interior state into a valid plotfile.

Decider: TLC checks Chk2plt.tla (per-state-file sequential tasks, three independent layouts,
offset-sorted box map, header writers, all completion orders) against ConvertSpec and emits
every behaviour; each is replayed into the real chk2plt on a synthetic PeleLMeX checkpoint
(anisotropic domain, 1..3 ghost cells).  The symbols <<"int",..>>, <<"floor",..>> are interpreted
by the harness from the generated ghosted arrays.
"""
import os
import random

import numpy as np

from harness import alpha, compare, core, gamma, gamma_chk, shims, tlc, util
from harness import spell

INV = ["ConvertRefines", "NoSharedWrites", "PoolOK", "Emit"]
# species in an order that is neither alphabetical nor reverse alphabetical (their order is the checkpoint's component order)
SPECIES_ORDERS = [["O2", "H2", "N2"], ["H2", "O2", "N2"], ["N2", "OH", "H2"], ["OH", "AR", "H2O"]]
SPECIES3 = SPECIES_ORDERS[1]


def cfg(**c):
    base = dict(NS=2, W=2, SchedMode='"fifo"', MapOrder='"disk"')
    base.update(c)
    return {"INIT": "Init", "NEXT": "Next", "CONSTANTS": base, "INVARIANTS": INV,
            "PROPERTIES": ["CheckpointUnchanged"]}


def models(tier):
    if tier == "quick":
        return [("layouts + schedules, 2 boxes", cfg(MaxLev=1, MaxBox=2, MaxFile=2, SchedMode='"all"')),
                ("two levels", cfg(MaxLev=2, MaxBox=1, MaxFile=1)),
                # another number of species: conversions of checkpoints with 2 and with 3 species alternate in one process
                ("three species", cfg(NS=3, MaxLev=1, MaxBox=2, MaxFile=2)),
                # deep hierarchies: per-level quantities (cell sizes, grid sizes, box bounds) of levels 3 and 4
                ("up to five levels, one box each", cfg(MaxLev=5, MaxBox=1, MaxFile=1)),
                ]
    return [("layouts, 2 levels", cfg(MaxLev=2, MaxBox=2, MaxFile=2)),
            ("layouts, 3 boxes", cfg(MaxLev=1, MaxBox=3, MaxFile=2)),
            ("schedules, 3 boxes", cfg(MaxLev=1, MaxBox=3, MaxFile=3, SchedMode='"all"', W=3)),
            ("three species", cfg(NS=3, MaxLev=2, MaxBox=2, MaxFile=2)),
            ("one species", cfg(NS=1, MaxLev=1, MaxBox=2, MaxFile=2)),
            ("up to five levels", cfg(MaxLev=5, MaxBox=2, MaxFile=1))]


def expected_comp(tok, data, box, ng, ns):
    """Interpretation of a component symbol of ConvertSpec as an array of the box's shape."""
    kind = tok[0]
    if kind in ("int", "floor"):
        _, lv, b, f = tok
        st = data[("state", lv, b)]
        inner = st[ng:-ng, ng:-ng, ng:-ng, :]
        if kind == "floor":
            ysum = np.sum(inner[..., 4:4 + ns], axis=-1)
            return inner[..., f - 1] / ysum
        return inner[..., f - 1]
    if kind == "G":
        _, lv, b, c = tok
        return data[("gradp", lv, b)][..., c - 1]
    if kind == "R":
        _, lv, b, s = tok
        return data[("ir", lv, b)][..., s - 1]
    raise core.MachineryError("unknown component symbol %r" % (tok,))


def run_scenario(chk, sc, cfgseed, species_src, flavour="sched", workers=None):
    from amr_kitchen.chk2plt import chk2plt
    from amr_kitchen.taste import Taster
    rng = random.Random(cfgseed)
    cfg_ = gamma.Config.draw(rng, ndims=3, payload="tame")
    ns = sc["ns"]
    ng = 1 + cfgseed % 3
    species = SPECIES_ORDERS[cfgseed % len(SPECIES_ORDERS)][:ns]
    mesh = gamma_chk.nested_mesh([[c - 1 for c in L["cells"]] for L in sc["levels"]])
    layouts = [{"state": L["state"], "gradp": L["gradp"], "ir": L["ir"]} for L in sc["levels"]]
    d = chk.tmp_reuse()
    os.makedirs(d)
    cdir, out = os.path.join(d, "chk00005"), os.path.join(d, "converted")
    tval = rng.choice([1.6457727058794072e-11, 0.37, -2.5e-3, 123456.789])
    int_line = None
    if cfgseed % 3 == 0:
        # the header layout with an integer line in front of the time; there the time may be a WHOLE number (0 at the initial
        # checkpoint).  (Without that line a whole-number time is indistinguishable from it: not generated.)
        int_line = [0, 3, 12][(cfgseed // 3) % 3]
        tval = [0.0, 2.0, 0.37, 1.6457727058794072e-11][(cfgseed // 9) % 4]
    data = gamma_chk.write_checkpoint(cdir, mesh, layouts, cfg_, ns=ns, nghost=ng, time=tval, int_line=int_line)
    before = alpha.tree_digest(cdir)
    kw = {}
    if species_src == "plotfile":
        ref = os.path.join(d, "ref")
        apref = gamma.make_ap("R", ["density"] + ["Y(%s)" % s for s in species] + ["temp"], [[1]])
        gamma.write_plotfile(ref, apref, cfg_)
        kw["target_plotfile"] = ref
    else:
        kw["species"] = list(species)
    g = sc["flags"]
    plan, pos = {}, 0
    for l in range(len(sc["levels"])):
        n = len(set(sc["levels"][l]["state"]["file"]))
        plan[l + 1] = sc["sched"][pos:pos + n]
        pos += n
    ctyped = spell.of(cdir, cfgseed)[0]           # the checkpoint as a user may type it (PathRes.tla)
    with shims.fs_audit() as audit:
        try:
            with shims.pool_shim(shims.Scheduler(plan=plan, workers=workers), flavour), core.quiet():
                chk2plt(ctyped, gradp=g["gradp"], species_reactions=g["reactions"], floor_massfracs=g["floor"],
                        pltdir=out, **kw)
            exc = None
        except Exception as e:
            exc = e
        events = list(audit.events)
    if alpha.tree_digest(cdir) != before or any(e["path"].startswith(cdir + os.sep) for e in events):
        return "the conversion wrote into the checkpoint directory"
    if exc is not None:
        return "chk2plt raised %s: %s" % (type(exc).__name__, str(exc)[:200])
    A = alpha.abstract(out)
    wf = alpha.wellformed(A)
    if wf:
        return "output is not a well-formed plotfile: %s" % "; ".join(wf[:3])
    H = A["hdr"]
    exp = sc["expect"]
    names = {"Y1": "Y(%s)" % species[0], "Y2": "Y(%s)" % species[min(1, ns - 1)], "Y3": "Y(%s)" % species[-1],
             "IR1": "I_R(%s)" % species[0], "IR2": "I_R(%s)" % species[min(1, ns - 1)], "IR3": "I_R(%s)" % species[-1]}
    want_fields = [names.get(f, f) for f in exp["fields"]]
    if list(H["fields"]) != want_fields:
        return "fields %r, expected %r" % (H["fields"], want_fields)
    # global metadata: levels, time, geometry, cell sizes
    lo = [cfg_.origin[k] for k in range(3)]
    hi = [cfg_.origin[k] + cfg_.dx0[k] * mesh["dom"][k] for k in range(3)]
    if H["ndims"] != 3 or H["finest"] != len(sc["levels"]) - 1:
        return "ndims/levels %r/%r" % (H["ndims"], H["finest"])
    if H["time"] != tval:
        return "time %r, checkpoint states %r" % (H["time"], tval)
    if not np.allclose(H["geo_lo"], lo, rtol=1e-12, atol=0) and H["geo_lo"] != lo:
        return "geometry low %r expected %r" % (H["geo_lo"], lo)
    if not np.allclose(H["geo_hi"], hi, rtol=1e-12, atol=1e-300):
        return "geometry high %r expected %r" % (H["geo_hi"], hi)
    for l in range(len(sc["levels"])):
        dxl = [cfg_.dx0[k] / 2 ** l for k in range(3)]
        if not np.allclose(H["dx"][l], dxl, rtol=1e-12, atol=0):
            return "level %d cell sizes %r expected %r" % (l, H["dx"][l], dxl)
    for l, boxes in enumerate(exp["lev"]):
        C = A["lev"][l]
        if len(C["idx"]) != len(boxes):
            return "level %d: %d boxes, expected %d" % (l, len(C["idx"]), len(boxes))
        for bi, eb in enumerate(boxes):
            box = mesh["levels"][l][eb["idx"] - 1]
            if C["idx"][bi] != [box["lo"], box["hi"]]:
                return "level %d box %d: index range %r, checkpoint states %r" % (l, bi, C["idx"][bi], [box["lo"], box["hi"]])
            fn, off = C["fod"][bi]
            fab = alpha.read_fab_at(os.path.join(out, C["dir"], fn), off)
            shape = gamma.box_shape(box)
            for j, tok in enumerate(eb["comps"]):
                want = expected_comp(tok, data, box, ng, ns)
                got = fab["arrays"][j].reshape(shape, order="F")
                ok = np.array_equal(got, want) if tok[0] != "floor" else np.allclose(got, want, rtol=1e-14, atol=0)
                if not ok:
                    k = np.unravel_index(np.argmax(np.abs(got - want)), shape)
                    return "level %d box %d field %r: cell %r is %r, checkpoint interior value %r" % (
                        l, bi, want_fields[j], tuple(int(x) for x in k), float(got[k]), float(want[k]))
                for which, fun in (("mins", np.min), ("maxs", np.max)):
                    hv, tv = C[which][bi][j], float(fun(fab["arrays"][j]))
                    if abs(hv - tv) > 1e-15 * max(abs(tv), 1e-300) * 10:
                        return "level %d box %d: %s[%r] = %r, true extremum of the written data %r" % (
                            l, bi, which, want_fields[j], hv, tv)
    try:
        with shims.pool_shim(shims.Scheduler()), core.quiet():
            good = bool(Taster(out, nofail=True, boxes_coordinates=True, verbose=0))
    except Exception as e:
        return "taste raised on the output: %r" % e
    if not good:
        return "taste (with box coordinates) rejects the output"
    return None


def run(chk, replay):
    if replay and replay["scenario"].get("real_pool"):
        return real_pool_block(chk)
    chk.rule = ("behaviours of Chk2plt.tla emitted by TLC (three independent layouts per level x 8 flag sets x completion order), "
                "each replayed on a synthetic anisotropic checkpoint with 1..3 ghost cells and species from a list or a reference "
                "plotfile; signature = (levels, flags, per-level layout relation, finish class, species source, ghost width); "
                "trivial = one level, everything in one file in header order, gradp only")
    chk.assumptions = ["the synthetic checkpoint writer follows test_assets/example_chk_3d (headers of all five subsets present)",
                       "without the integer line in front of it the checkpoint time is non-integral (a whole number there is indistinguishable from that line)"]
    if replay:
        s = replay["scenario"]
        v = run_scenario(chk, s["sc"], s["cfgseed"], s["species_src"])
        chk.executed("replay")
        if v:
            chk.violation(s["sigs"], v, s)
        return
    scenarios = []
    for what, c in models(chk.tier):
        r = chk.add_tlc(tlc.run("MC_C17", c, timeout=2400), what)
        if r.violated:
            chk.note_drift("TLC: %s violated in model '%s'" % (r.violated, what))
        scenarios += r.emitted
    if not scenarios:
        raise core.MachineryError("TLC emitted no behaviours")
    cap = 800 if chk.tier == "quick" else 12000
    chosen = util.select(scenarios, cap, chk.rng)
    chk.exhaustive = len(chosen) == len(scenarios)
    # alternate the numbers of species: whatever one conversion leaves behind in the process meets a different checkpoint next
    by_ns = {}
    for sc in chosen:
        by_ns.setdefault(sc["ns"], []).append(sc)
    groups = [by_ns[k] for k in sorted(by_ns)]
    chosen = [g[i % len(g)] for i in range(max(len(g) for g in groups)) for g in groups if i < len(g) or len(g) < 40]
    for i, sc in enumerate(chosen):
        src = "plotfile" if (i // 2) % 2 else "list"
        cfgseed = chk.rng.randrange(1 << 30)
        v = run_scenario(chk, sc, cfgseed, src)
        sigs = util.sig_str(sc["sig"], src, 1 + cfgseed % 3)
        s = sc["sig"]
        triv = s[0] == 1 and s[2] == [["state-mono", "gradp-same", "ir-same"]] and s[1] == {"gradp": True, "reactions": False, "floor": False}
        chk.executed(sigs, not triv, sample={"levels": sc["levels"], "flags": sc["flags"], "sched": sc["sched"],
                                             "species": src, "ghost": 1 + cfgseed % 3})
        chk.traces += 1
        if v:
            chk.violation(sigs, v, {"sc": sc, "cfgseed": cfgseed, "species_src": src, "sigs": sigs})
    # the command line layer (spec/Cli.tla): every subset of the tool's options typed to the real main(), API intercepted
    from harness import cli
    cli.phase(chk, "chk2plt")
    # the working directory changes between conversions of checkpoints typed under a relative name (PoolEnv.tla)
    from harness import poolenv
    poolenv.tool_phase(chk, "chk2plt")
    real_pool_block(chk)


def real_pool_block(chk):
    # chk2plt with GENUINE process pools in a child process: as they come, with a slow task-handler thread, and with workers started
    # by 'spawn' (StartMethod.tla) -- with the default options and with every option away from its default; the plotfile written
    # must be the one of the in-process reference run, which the replays above judge against the checkpoint
    from checks import c12
    D = c12.drivers()
    n_, seed_ = 2, chk.seed * 10 + 2
    paths = c12.make_inputs(chk, n_, seed_)
    refs = {}
    for name in ("chk2plt", "chk2plt.options"):
        ref = c12.run_tool(chk, name, D[name][0], paths, {}, default="fifo")
        if "exc" in ref:
            chk.violation(util.sig_str(name, n_, "reference"), "%s raised in the reference run: %s" % (name, ref["exc"]), {"real_pool": True})
        else:
            refs[(name, n_)] = (ref, seed_)
    c12.real_pool_phase(chk, D, [nm for nm, _ in refs], refs)
