"""
C10 -- whip's uniform grid is the covering grid of the chosen field.

Decider: TLC checks Whip.tla (zero-initialised grid, coarse-to-fine levels, imap_unordered per
file with every arrival order, level barrier) against CoverSpec for every mesh / file count /
limit within the bounds, and emits every behaviour with CoverSpec's value per pixel; each is
replayed through the real command line entry point with the pool delivering in that order, and
the saved .npy is compared bit for bit (after the same dtype cast).
"""
import contextlib
import os
import random
import sys

import numpy as np

from harness import alpha, core, gamma, lattice, shims, tlc, util
from harness import spell

INV = ["FinalIsCover", "NoOverlapWithinLevel", "LevelsSequential", "PoolOK", "Emit"]


def models(tier):
    def cfg(**c):
        base = dict(W=2, Barrier="TRUE")
        base.update(c)
        return {"INIT": "Init", "NEXT": "Next", "CONSTANTS": base, "INVARIANTS": INV}
    if tier == "quick":
        return [("2 levels", cfg(N1=3, N2=2, MaxLev=2, MaxFine=2)),
                ("3 levels", cfg(N1=2, N2=1, MaxLev=3, MaxFine=1))]
    return [("2 levels", cfg(N1=4, N2=2, MaxLev=2, MaxFine=2, W=3)),
            ("3 levels", cfg(N1=2, N2=2, MaxLev=3, MaxFine=2))]


def run_whip(argv):
    from amr_kitchen.whip import cli
    old = sys.argv
    sys.argv = ["whip"] + argv
    try:
        cli.main()
    finally:
        sys.argv = old


def run_scenario(chk, sc, cfgseed, dtype, axes, flavour="sched", workers=None, crowd=False):
    """crowd: every cell (or pair of cells) is a box of its own and all boxes of a level sit in ONE binary file, while the process
    may hold only a few descriptors more than it has: hundreds of boxes per file under a descriptor limit."""
    rng = random.Random(cfgseed)
    cfg_ = gamma.Config.draw(rng, ndims=3, payload="tame", numfmt="g6" if cfgseed % 4 == 0 else "repr")
    lat = lattice.Lattice(sc["mesh"], sc["n1"], sc["n2"], axes=axes, ext0=[3, 4, 2, 5][cfgseed % 4], ext_cut=(cfgseed // 4) % 3 != 0,
                          tile=(1 + cfgseed % 2) if crowd else (2 if cfgseed % 7 == 3 else None))       # one in seven: the same cells in many small boxes
    nfiles = [1] * len(sc["nfiles"]) if crowd else sc["nfiles"]
    # every second crowd: the opposite -- every box in a binary file of ITS OWN (dozens to hundreds of files per level, a count that
    # is no multiple of anything in particular)
    spread = crowd and (cfgseed // 2) % 2 == 1
    # boxes dealt over the files round-robin, from the first file or from the last one: with an uneven deal the files with
    # the most boxes (the largest, read first) are then the first-named or the last-named ones
    rev = cfgseed % 2 == 1
    # field names: plain, or three names that differ only by the case of their letters (distinct fields)
    fnames = [["u", "v", "w"], ["P", "p", "rho"], ["temp", "Temp", "TEMP"], ["u", "v", "w"], ["y(H2)", "Y(h2)", "Y(H2)"]][cfgseed % 5]
    if spread:
        nfiles = [len(lat.concrete_boxes(lv)) for lv in range(len(sc["mesh"]))]
    import itertools
    own = [itertools.count(1) for _ in sc["mesh"]]          # (lat.ap asks once per concrete box, in header order)
    ap = lat.ap("A", fnames, files_of=(lambda lv, b: next(own[lv])) if spread else
                (lambda lv, b: (nfiles[lv] - (b - 1) % nfiles[lv]) if rev else ((b - 1) % nfiles[lv] + 1)),
                shuffle=lambda lv, f, v: rng.sample(v, len(v)))
    # integer grids: values that the integer type can hold (the conversion of NaN / inf / 1e300 to an integer is undefined)
    flds = lattice.Fields(lat, cfgseed, payload="wild" if cfgseed % 2 and not dtype.startswith("int") else "tame")
    fi = 1 + cfgseed % 3
    if cfgseed % 3 == 0 and len(sc["mesh"]) > 1:
        # QUIET BOXES: on every finer level one box holds nothing but zeros (+0.0 or -0.0) in the chosen field, over coarse
        # cells that are not zero: the zeros are the data of those cells
        for l in range(1, len(sc["mesh"])):
            cb = lat.concrete_boxes(l)
            pick = cb[(cfgseed // 3) % len(cb)][0]
            for b, box in cb:
                if b == pick:
                    sl = tuple(slice(a, h + 1) for a, h in zip(box["lo"], box["hi"]))
                    flds.level(l, fi)[sl] = 0.0 if (cfgseed // 9) % 2 == 0 else -0.0
    d = chk.tmp_reuse()
    os.makedirs(d)
    src, out = os.path.join(d, "plt00010"), os.path.join(d, "grid")
    gamma.write_plotfile(src, ap, cfg_, values=flds.values)
    if cfgseed % 5 == 2:
        gamma.add_stale_files(src, ap, cfg_, cfgseed)       # left-overs of an earlier, larger plotfile in the same directory
    before = alpha.tree_digest(src)
    lim = sc["lim"]
    plan, pos = {}, 0
    for l in range(lim + 1):
        n = nfiles[l]
        plan[l + 1] = ([1] if not spread else None) if crowd else sc["sched"][pos:pos + n]
        pos += n
    plan = {k: v for k, v in plan.items() if v is not None}
    argv = ["-v", ap["fields"][fi - 1], "-o", out, "-d", dtype, "-y", "-l", str(lim), spell.of(src, cfgseed)[0]]
    try:
        # every other run may hold only a few descriptors more than it has at the start (shims.low_fd_limit): the number of open
        # files must not grow with the number of boxes (tiled meshes put dozens to hundreds of boxes in one file)
        with shims.pool_shim(shims.Scheduler(plan=plan, workers=workers), flavour), core.quiet(), \
                (shims.low_fd_limit(24) if (crowd or cfgseed % 2 == 1) and flavour == "sched" else contextlib.nullcontext()):
            run_whip(argv)
    except SystemExit as e:
        return "whip exited with %r" % (e.code,)
    except Exception as e:
        return "whip raised %s: %s" % (type(e).__name__, str(e)[:200])
    if alpha.tree_digest(src) != before:
        return "the input plotfile was modified"
    try:
        got = np.load(out + ".npy")
    except Exception as e:
        return "no readable .npy output: %r" % e
    shape = tuple(lat.level_shape(lim))
    if got.shape != shape:
        return "saved grid has shape %r, the level-%d grid is %r (axes x, y, z)" % (got.shape, lim, shape)
    if str(got.dtype) != dtype:
        return "saved grid has dtype %s, requested %s" % (got.dtype, dtype)
    exp = np.empty(shape, dtype=dtype)
    np.seterr(over="ignore", invalid="ignore")
    E = sc["expect"]
    a1, a2, a3 = axes
    for i in range(sc["n1"] * 2 ** lim):
        for j in range(sc["n2"] * 2 ** lim):
            l, cell = E[str(i)][str(j)]
            src_lv = flds.level(l, fi)
            f = 2 ** (lim - l)
            for k in range(shape[a3]):  # noqa
                idx = [0, 0, 0]
                idx[a1], idx[a2], idx[a3] = cell[0], cell[1], k // f
                tgt = [0, 0, 0]
                tgt[a1], tgt[a2], tgt[a3] = i, j, k
                exp[tuple(tgt)] = src_lv[tuple(idx)]
    if got.tobytes() != exp.tobytes():
        bad = np.argwhere(~((got == exp) | ((got != got) & (exp != exp))))
        if not len(bad):
            bad = np.argwhere(np.signbit(got) != np.signbit(exp))       # the sign of a zero
        k = tuple(int(x) for x in bad[0]) if len(bad) else None
        return "grid cell %r holds %r, the finest selected level covering it stores %r (%d cells differ)" % (
            k, None if k is None else float(got[k]), None if k is None else float(exp[k]), len(bad))
    return None


def run(chk, replay):
    _run(chk, replay)
    if not replay:
        # the working directory changes between runs on plotfiles typed under a relative name (PoolEnv.tla)
        from harness import poolenv
        poolenv.tool_phase(chk, "whip")
        spawn_phase(chk)
        # hierarchies whose levels refine by 4, or by different ratios from one jump to the next (Refine.tla): a level's cells are
        # Fac(l) = the PRODUCT of the ratios below it per level-0 cell
        from harness import refine
        refine.phase(chk, "grid")
    # code -> spec at scale: recorded runs on random nested meshes (up to 4 levels, 64 x 64 pixels) judged by CoverTrace.tla
    from harness import covertrace
    covertrace.phase(chk, "whip")


def spawn_phase(chk):
    """whip once more with GENUINE process pools in a child process, as they come, with a slow task-handler thread, and with
    workers started by 'spawn' (they do not inherit the parent's memory): the saved grid must be the one of the in-process
    reference run, which the replays above judge cell for cell (checks/c12.py: real_pool_phase)."""
    from checks import c12
    # StartMethod.tla: the request reaches a worker in its task under "fork" and under "spawn" alike (by-task holds, by-global does not)
    for sm in ("fork", "spawn"):
        r = chk.add_tlc(tlc.run("StartMethod", {"SPECIFICATION": "Spec", "CONSTANTS": {"StartMethod": '"%s"' % sm, "Transport": '"by-task"', "Requests": "{0, 1, 2}"},
                                                "INVARIANTS": ["WorkerSeesRequest"], "PROPERTIES": ["Terminates"]}, workers=1, timeout=120),
                        "what a worker needs travels in its task (start method %s)" % sm)
        if r.violated:
            chk.note_drift("TLC: %s violated in StartMethod.tla" % r.violated)
    D = c12.drivers()
    n, seed = 2, chk.seed * 10 + 2
    paths = c12.make_inputs(chk, n, seed)
    ref = c12.run_tool(chk, "whip", D["whip"][0], paths, {}, default="fifo")
    if "exc" in ref:
        chk.violation(util.sig_str("whip", n, "reference"), "whip raised in the reference run: %s" % ref["exc"], {"real_pool": True})
        return
    c12.real_pool_phase(chk, D, ["whip"], {("whip", n): (ref, seed)})


def _run(chk, replay):
    chk.rule = ("behaviours of Whip.tla emitted by TLC (mesh x files per level x limit x arrival order), replayed through whip's "
                "main() with float64/float32/float16/int16/int32/int64 (integer and half grids on moderate finite values) and the lattice axes assigned to every permutation of (x, y, z); signature = (levels, "
                "limit, per-level (boxes, files), arrival class, dtype, axes); trivial = one level, one file")
    chk.assumptions = ["third axis extruded with 2-5 level-0 cells, cut into two slabs two times out of three"]
    if replay and replay["scenario"].get("real_pool"):
        return spawn_phase(chk)
    if replay:
        s = replay["scenario"]
        v = run_scenario(chk, s["sc"], s["cfgseed"], s["dtype"], tuple(s["axes"]), crowd=bool(s.get("crowd")))
        chk.executed("replay")
        if v:
            chk.violation(s["sigs"], v, s)
        return
    scenarios = []
    for what, c in models(chk.tier):
        r = chk.add_tlc(tlc.run("MC_C10", c, timeout=2400), what)
        if r.violated:
            chk.note_drift("TLC: %s violated in model '%s'" % (r.violated, what))
        scenarios += r.emitted
    if not scenarios:
        raise core.MachineryError("TLC emitted no behaviours")
    # descriptors as a bounded resource of a per-file reader task (Descriptors.tla): one handle per FILE whatever the number of
    # boxes, and an error while reading a box is not the end of the file; bound to the code by the crowd runs below (hundreds of
    # boxes in one file under shims.low_fd_limit)
    for nb, lim_ in ((6, 3), (4, 1)):
        r = chk.add_tlc(tlc.run("Descriptors", {"SPECIFICATION": "Spec", "CONSTANTS": {"NBoxes": nb, "Limit": lim_, "HandlePolicy": '"per-file"',
                                                                                    "OnError": '"propagate"'},
                                                "INVARIANTS": ["AllOrError", "BoundedHandles", "Succeeds"], "PROPERTIES": ["Terminates"]},
                                workers=1, timeout=120), "descriptors of a per-file reader (%d boxes, limit %d)" % (nb, lim_))
        if r.violated:
            chk.note_drift("TLC: %s violated in Descriptors.tla" % r.violated)
    cap = 500 if chk.tier == "quick" else 8000
    chosen = util.select(scenarios, cap, chk.rng)
    chk.exhaustive = len(chosen) == len(scenarios)
    perms = [(0, 1, 2), (1, 2, 0), (2, 0, 1), (0, 2, 1), (1, 0, 2), (2, 1, 0)]
    for i, sc in enumerate(chosen):
        # "float32 or integer types can be used to save space" (whip --help)
        dtype = ["float64", "float32", "float64", "int32", "float32", "int16", "float64", "float16", "float32", "int64"][i % 10]
        axes = perms[i % 6]
        cfgseed = chk.rng.randrange(1 << 30)
        crowd = i % 25 == 7          # hundreds of boxes in one file per level, under a descriptor limit
        v = run_scenario(chk, sc, cfgseed, dtype, axes, crowd=crowd)
        sigs = util.sig_str(sc["sig"], dtype, axes, *(["crowd"] if crowd else []))
        triv = sc["sig"][0] == 1 and sc["sig"][2][0][1] == 1
        chk.executed(sigs, not triv, sample={"mesh": sc["mesh"], "nfiles": sc["nfiles"], "lim": sc["lim"],
                                             "sched": sc["sched"], "dtype": dtype, "axes": axes})
        chk.traces += 1
        if v:
            chk.violation(sigs, v, {"sc": sc, "cfgseed": cfgseed, "dtype": dtype, "axes": axes, "sigs": sigs, "crowd": crowd})
