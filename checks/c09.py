"""
C09 -- pestle integrates every point of the domain exactly once.

Decider: TLC checks Pestle.tla (occupancy map at resolution Rez, covering masks from the next
level, masked sums below the limit, the limit level entirely) against IntegralCells /
ExactlyOnce for every block-lattice mesh with 2- and 3-block boxes at any block offset, every
limit and volfrac flag, and emits every scenario with the set of cells the requirement counts;
each is replayed into the real volume_integral (API with the limit on the call or on the
reader, and the command line entry point) on a concretised mesh (blocking factor 2/4/8,
anisotropic cells, every axis assignment) and compared with the sum over exactly those cells.
"""
import os
import random
import re
import sys

import numpy as np

from harness import alpha, core, gamma, lattice, shims, tlc, util
from harness import spell

INV = ["IntegralRefines", "ExactlyOnce", "SpecTiles", "Emit"]
FIELDS = ["density", "ones", "volFrac", "temp"]


def models(tier):
    def cfg(**c):
        base = dict(RezMode='"gcd"', LimitMode='"upto"', N2=4)
        base.update(c)
        return {"INIT": "Init", "NEXT": "Next", "CONSTANTS": base, "INVARIANTS": INV}
    if tier == "quick":
        return [("2 levels", cfg(N1s="{8,10}", MaxLev=2, MaxFine=2)),
                ("3 levels", cfg(N1s="{4}", MaxLev=3, MaxFine=1))]
    return [("2 levels", cfg(N1s="{8,10,12}", MaxLev=2, MaxFine=2)),
            ("3 levels", cfg(N1s="{6,10}", MaxLev=3, MaxFine=2))]


def run_cli(argv):
    from amr_kitchen.pestle import cli
    old = sys.argv
    sys.argv = ["pestle"] + argv
    try:
        with core.quiet() as out:
            cli.main()
        return out.getvalue()
    finally:
        sys.argv = old


def run_scenario(chk, sc, cfgseed, how, field, axes, scale, ext=6, ext_cut=False):
    from amr_kitchen import PlotfileCooker
    from amr_kitchen.pestle import volume_integral
    rng = random.Random(cfgseed)
    cfg_ = gamma.Config.draw(rng, ndims=3, payload="tame", numfmt="g6" if cfgseed % 4 == 0 else "repr")
    # one configuration in seven: the same cells in HUNDREDS of boxes (every box cut into tiles of 2 or 4 cells)
    tile = (2 if scale <= 2 else 4) if cfgseed % 7 == 3 else None
    lat = lattice.Lattice(sc["mesh"], sc["n1"], sc["n2"], axes=axes, ext0=ext * scale, ext_cut=ext_cut, scale=scale, tile=tile)
    special = {2: lambda lv, shape: np.ones(shape),
               3: lambda lv, shape: np.random.default_rng(cfgseed + lv).uniform(0.0, 1.0, shape)}
    flds = lattice.Fields(lat, cfgseed, payload="tame", special=special)
    lim, vf = sc["lim"], bool(sc["volfrac"])
    fi = FIELDS.index(field) + 1
    # concrete names: the plain ones, or -- one configuration in three -- the first and the last field called like the volume
    # fraction (a liquid volume fraction, last step's copy): names that START like "volFrac" / "vfrac" are other fields
    names = list(FIELDS)
    if cfgseed % 3 == 1:
        names[0], names[3] = ["volFrac_liquid", "vfrac_old", "VolFrac"][(cfgseed // 3) % 3], ["volFrac2", "volfrac", "volFracs"][(cfgseed // 9) % 3]
    field = names[fi - 1]
    a1, a2, a3 = axes
    if cfgseed % 2 == 1:
        # NON-INTERFERENCE: every cell the requirement does NOT count (covered by a finer selected level, or on a level above
        # the limit) holds nan / +inf / -inf in the integrated field and in the volume fraction: a value that is not part of
        # the integral must not reach it, not even multiplied by zero
        bad = [float("nan"), float("inf"), float("-inf")][(cfgseed // 2) % 3]
        for l in range(len(sc["mesh"])):
            counted = np.zeros(lat.level_shape(l), dtype=bool)
            for le, (c1, c2) in sc["expect"]:
                if le == l:
                    sl = [slice(None)] * 3
                    sl[a1] = slice(c1 * scale, (c1 + 1) * scale)
                    sl[a2] = slice(c2 * scale, (c2 + 1) * scale)
                    counted[tuple(sl)] = True
            for f in sorted({fi, 3} if vf else {fi}):
                flds.level(l, f)[~counted] = bad
    ap = lat.ap("A", names, files_of=lambda lv, b: rng.randint(1, 3), shuffle=lambda lv, f, v: rng.sample(v, len(v)))
    d = chk.tmp_reuse()
    os.makedirs(d)
    src = os.path.join(d, "plt")
    gamma.write_plotfile(src, ap, cfg_, values=flds.values)
    if cfgseed % 5 == 2:
        gamma.add_stale_files(src, ap, cfg_, cfgseed)       # left-overs of an earlier, larger plotfile in the same directory
    before = alpha.tree_digest(src)
    src_typed = spell.of(src, cfgseed)[0]
    # expected: sum over exactly the cells the requirement counts
    total, mag = 0.0, 0.0
    for l, (c1, c2) in sc["expect"]:
        dV = float(np.prod(gamma.level_dx(cfg_, 3, l)))
        sl = [slice(None)] * 3
        sl[a1] = slice(c1 * scale, (c1 + 1) * scale)
        sl[a2] = slice(c2 * scale, (c2 + 1) * scale)
        vals = flds.level(l, fi)[tuple(sl)]
        if vf:
            vals = vals * flds.level(l, 3)[tuple(sl)]
        total += float(np.sum(vals)) * dV
        mag += float(np.sum(np.abs(vals))) * dV
    try:
        with shims.pool_shim(shims.Scheduler(default="random", rng=rng)):
            if how == "api-call-limit":
                with core.quiet():
                    pck = PlotfileCooker(src_typed, ghost=True)
                    nlev = len(sc["mesh"])
                    if cfgseed % 2 == 0 and nlev > 1:
                        # a HISTORY on one reader: an earlier integral with another level limit (and the other volume-fraction
                        # setting); what it leaves on the object must not reach the integral that is judged
                        volume_integral(pck, field, limit_level=(lim + 1) % nlev, use_volfrac=not vf)
                    got = volume_integral(pck, field, limit_level=lim, use_volfrac=vf)
            elif how == "api-reader-limit":
                with core.quiet():
                    got = volume_integral(PlotfileCooker(src_typed, limit_level=lim, ghost=True), field, use_volfrac=vf)
            else:
                txt = run_cli(["-v", field, "-l", str(lim)] + (["-vf"] if vf else []) + [src_typed])
                m = re.search(r"Volume integral of .* in plotfile: (\S+)", txt)
                if not m:
                    return "the command line tool printed no integral: %r" % txt[-200:]
                got = float(m.group(1))
    except SystemExit as e:
        return "pestle exited (%r) instead of integrating" % (e.code,)
    except Exception as e:
        return "volume_integral raised %s: %s" % (type(e).__name__, str(e)[:200])
    if alpha.tree_digest(src) != before:
        return "the input plotfile was modified"
    tol = 1e-11 * max(mag, 1e-300) + (5e-15 if how == "cli" else 0.0)
    if not abs(float(got) - total) <= tol:
        return "integral of %r (limit %d, volfrac %s, %s) = %r, sum over the uncovered cells of levels 0..%d = %r" % (
            field, lim, vf, how, float(got), lim, total)
    return None


def run(chk, replay):
    _run(chk, replay)
    if not replay:
        # the working directory changes between runs on plotfiles typed under a relative name (PoolEnv.tla)
        from harness import poolenv
        poolenv.tool_phase(chk, "pestle")


def _run(chk, replay):
    chk.rule = ("scenarios of Pestle.tla emitted by TLC (block-lattice mesh with 4- and 6-cell boxes x limit x volfrac), replayed "
                "through the API (limit on the call / on the reader) and the CLI, for a random field, the constant 1 field and "
                "temp, blocking factor 2/4/8, all axis assignments; signature = (levels, limit, volfrac, extents present, "
                "aligned/misaligned, partial/full refinement, entry point, field, blocking factor); trivial = one level")
    chk.assumptions = ["relative tolerance 1e-11 of the sum of absolute terms (summation order)",
                       "boxes and domain are multiples of an even blocking factor along all three axes (extruded axis: 2, 3 or 2 x 2 blocks)"]
    if replay:
        s = replay["scenario"]
        v = run_scenario(chk, s["sc"], s["cfgseed"], s["how"], s["field"], tuple(s["axes"]), s["scale"],
                         s.get("ext", 6), s.get("ext_cut", False))
        chk.executed("replay")
        if v:
            chk.violation(s["sigs"], v, s)
        return
    scenarios = []
    for what, c in models(chk.tier):
        r = chk.add_tlc(tlc.run("MC_C09", c, timeout=3000), what)
        if r.violated:
            chk.note_drift("TLC: %s violated in model '%s'" % (r.violated, what))
        scenarios += r.emitted
    if not scenarios:
        raise core.MachineryError("TLC emitted no scenarios")
    cap = 500 if chk.tier == "quick" else 8000
    chosen = util.select(scenarios, cap, chk.rng)
    chk.exhaustive = len(chosen) == len(scenarios)
    perms = [(0, 1, 2), (1, 2, 0), (2, 0, 1), (0, 2, 1), (1, 0, 2), (2, 1, 0)]
    hows = ["api-call-limit", "api-reader-limit", "cli"]
    for i, sc in enumerate(chosen):
        how = hows[i % 3]
        field = ["density", "ones", "temp"][(i // 3) % 3]
        axes = perms[i % 6]
        slab = sc["sig"][6] if len(sc["sig"]) > 6 else []
        if slab and i % 2 == 0:
            # a box refined along a whole side: that lattice axis becomes the z axis (the slowest one of the stored data)
            on1 = any(x.endswith("1") for x in slab)
            axes = ([(2, 0, 1), (2, 1, 0)] if on1 else [(0, 2, 1), (1, 2, 0)])[(i // 2) % 2]
        scale = [1, 2, 4][(i // 2) % 3] if len(sc["mesh"]) < 3 else 1
        cfgseed = chk.rng.randrange(1 << 30)
        # extent of the boxes along the extruded axis, in lattice cells: as the in-plane extents (4), between (6), or twice
        # as long and cut into two slabs (8) -- so that "all extents are multiples of X" can hold along all three axes
        ext = [6, 4, 8][(i // 6) % 3]
        ext_cut = ext == 8
        v = run_scenario(chk, sc, cfgseed, how, field, axes, scale, ext, ext_cut)
        sigs = util.sig_str(sc["sig"], how, field, scale, "ext%d" % ext, "z=lattice%d" % (1 + list(axes).index(2)) if axes[2] != 2 else "z=extruded")
        chk.executed(sigs, sc["sig"][0] > 1, sample={"mesh": sc["mesh"], "lim": sc["lim"], "volfrac": sc["volfrac"],
                                                     "how": how, "field": field, "axes": axes, "blocking_factor": 2 * scale})
        chk.traces += 1
        if v:
            chk.violation(sigs, v, {"sc": sc, "cfgseed": cfgseed, "how": how, "field": field, "axes": axes,
                                    "scale": scale, "sigs": sigs, "ext": ext, "ext_cut": ext_cut})
    # the command line layer (spec/Cli.tla): every subset of the tool's options typed to the real main(), API intercepted
    from harness import cli
    cli.phase(chk, "pestle")
    # hierarchies whose levels refine by 4, or by different ratios from one jump to the next (Refine.tla), on an even blocking
    # factor: a cell is covered when the cells Fac(l+1) / Fac(l) times finer over it are
    from harness import refine
    refine.phase(chk, "integral")
    # code -> spec at scale: pestle on random nested meshes whose fields are the INDICATORS of the levels; the per-level volumes,
    # in lattice cells, are judged by CoverTrace.tla against Mesh!IntegralCells
    from harness import covertrace
    covertrace.phase(chk, "pestle", quick_n=30, thorough_n=300)
