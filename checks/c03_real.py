"""
Child process of C03: a HISTORY of validations in one process with genuine process pools (no shim): well-formed plotfiles
in different directories, named by absolute path, then -- after os.chdir -- by the same relative path, under every option
combination that does not run the (known-broken) data check alone.  Whatever a validation leaves behind in the process
(pools, worker processes with their own working directory, module globals) must not reach the next one.
One JSON line per validation.  Usage: c03_real.py <repo> <dir with run1/plt00020 and run2/plt00020> <budget seconds>
"""
import itertools
import json
import os
import signal
import sys


class Budget(Exception):
    pass


def on_alarm(sig, frm):
    raise Budget()


def main():
    repo, root, budget = sys.argv[1], sys.argv[2], int(sys.argv[3])
    sys.path.insert(0, repo)
    so = sys.stdout
    sys.stdout = open(os.devnull, "w")
    sys.stderr = open(os.devnull, "w")
    from amr_kitchen.taste import Taster
    signal.signal(signal.SIGALRM, on_alarm)
    steps = [("abs", "run1", os.path.join(root, "run1", "plt00020"))]
    for k in range(3):
        for run in ("run2", "run1"):
            steps.append(("rel", run, "plt00020"))
    opts = [o for o in itertools.product([True, False], repeat=4) if not (o[2] and (not o[0] or not o[1]))]
    n = 0
    for how, run, path in steps:
        if how == "rel":
            os.chdir(os.path.join(root, run))
        for hdr, shape, data, coords in (opts if how == "rel" else opts[:2]):
            for nofail in (False, True):
                n += 1
                if n % 3 and how == "rel":
                    continue
                rec = {"how": how, "run": run, "opts": [hdr, shape, data, coords], "nofail": nofail}
                signal.alarm(budget)
                try:
                    t = Taster(path, binary_headers=hdr, binary_shape=shape, binary_data=data, boxes_coordinates=coords,
                               nofail=nofail, verbose=0)
                    rec["good"] = bool(t)
                except Budget:
                    rec["hang"] = True
                except Exception as e:
                    rec["good"] = False
                    rec["exc"] = "%s: %s" % (type(e).__name__, str(e)[:160])
                finally:
                    signal.alarm(0)
                so.write(json.dumps(rec) + "\n")
                so.flush()
                if rec.get("hang"):
                    os._exit(0)
    os._exit(0)


if __name__ == "__main__":
    main()
