"""
C16 -- mandoline's plotfile-format slice is a valid 2D plotfile of the plane data.

Decider: TLC checks SlicePlt.tla (per-level / per-side arrays, crossed boxes first, half-cell
neighbours completing the undefined side, one-sided clamp; boxes written; chunking arithmetic)
against LevelAcceptable / BoxesWritten / ChunkingKeepsAll for every mesh x every lattice
position x every limit and emits scenarios with, per level, the boxes the plane crosses and
the acceptable own-level sample pairs per pixel; each is replayed into the real Mandoline
(fformat='plotfile', numpy.empty poisoned); the written 2-D plotfile is parsed independently
(well-formedness, time, in-plane geometry, cell sizes, footprints), judged by the real taste,
and every value compared with the interpolation of an acceptable pair; min/max rows against the
extrema of the written data.  One configuration exceeds the one-megabyte splitting threshold.
"""
import os
import random

import numpy as np

from checks import c07
from harness import alpha, compare, core, gamma, lattice, shims, tlc, util
from harness import spell

INV = ["SpecNonEmpty", "ByLevelRefines", "BoxesWritten", "ChunkingKeepsAll", "Emit"]
SENTINEL = 3.3e299


def cfg(emod, eres, **c):
    base = dict(ChunkRule='"ceil"', EmitMod=emod, EmitRes=eres)
    base.update(c)
    return {"INIT": "Init", "NEXT": "Next", "CONSTANTS": base, "INVARIANTS": INV}


def models(tier, seed):
    if tier == "quick":
        return [("2 levels", cfg(37, seed % 37, N0=4, T0=2, MaxLev=2, MaxFine=1)),
                ("2 levels, two fine boxes (stacked / side by side / overhanging)", cfg(7, seed % 7, N0=3, T0=2, MaxLev=2, MaxFine=2)),
                ("3 levels", cfg(83, seed % 83, N0=3, T0=2, MaxLev=3, MaxFine=1))]
    return [("2 levels, 2 fine boxes", cfg(13, seed % 13, N0=4, T0=2, MaxLev=2, MaxFine=2)),
            ("3 levels", cfg(7, seed % 7, N0=3, T0=2, MaxLev=3, MaxFine=1))]


def check_output(sc, out, cfg_, lat, flds, axes, pos, fields, big=False):
    from amr_kitchen.taste import Taster
    cn, aA, aB = axes
    cx, cy = [i for i in range(3) if i != cn]
    lim = sc["lim"]
    A = alpha.abstract(out)
    wf = alpha.wellformed(A)
    if wf:
        return "the slice is not a well-formed plotfile: %s" % "; ".join(wf[:3])
    H = A["hdr"]
    names = list(c07.FIELDS) if fields == ["all"] else [f for f in fields if f != "grid_level"]
    if H["ndims"] != 2 or list(H["fields"]) != names or H["finest"] != lim:
        return "header says ndims=%r fields=%r finest=%r, expected 2, %r, %d" % (H["ndims"], H["fields"], H["finest"], names, lim)
    t_in = 0.5          # lattice.Lattice.ap's default time
    if not compare.same_float(H["time"], float(t_in)) and H["time"] != t_in:
        return "time %r, the input's is %r" % (H["time"], t_in)
    # the ratios of the kept level jumps are the input's (a header may state more entries than jumps: that is a legal variant)
    if H["ratios"][:lim] != [2] * lim:
        return "refinement ratios %r, the input's kept level jumps have %r" % (H["ratios"], [2] * lim)
    glo, ghi = gamma.geo({"ndims": 3, "dom": lat.dom()}, cfg_)
    if H["geo_lo"] != [glo[cx], glo[cy]] or H["geo_hi"] != [ghi[cx], ghi[cy]]:
        return "geometry %r..%r, in-plane geometry of the input %r..%r" % (H["geo_lo"], H["geo_hi"], [glo[cx], glo[cy]], [ghi[cx], ghi[cy]])
    for l in range(lim + 1):
        dxl = gamma.level_dx(cfg_, 3, l)
        if H["dx"][l] != [dxl[cx], dxl[cy]]:
            return "level %d cell sizes %r, in-plane cell sizes of the input %r" % (l, H["dx"][l], [dxl[cx], dxl[cy]])
    try:
        with shims.pool_shim(shims.Scheduler()), core.quiet():
            good = bool(Taster(out, nofail=True, boxes_coordinates=True, verbose=0))
    except Exception as e:
        return "taste raised on the slice: %r" % e
    if not good:
        return "taste rejects the 2-D plotfile"

    def centre(l, i):
        return cfg_.origin[cn] + gamma.level_dx(cfg_, 3, l)[cn] * (i + 0.5)
    for l in range(lim + 1):
        E = sc["expect"][str(l)] if isinstance(sc["expect"], dict) else sc["expect"][l]
        crossed = set(E["boxes"])
        want = {}
        for b, box in lat.concrete_boxes(l):
            if b in crossed:
                fp = ((box["lo"][cx], box["lo"][cy]), (box["hi"][cx], box["hi"][cy]))
                want[fp] = want.get(fp, 0) + 1
        C = A["lev"][l]
        got = {}
        for idx in C["idx"]:
            fp = (tuple(idx[0]), tuple(idx[1]))
            got[fp] = got.get(fp, 0) + 1
        if set(got) != set(want):
            return "level %d: footprints written %r, boxes crossed by the plane have %r" % (l, sorted(got), sorted(want))
        for fp in got:
            if got[fp] not in (1, want[fp]):
                return "level %d: footprint %r written %d times for %d crossed boxes" % (l, fp, got[fp], want[fp])
        acc = E["acc"]
        for bi, (idx, (fn, off)) in enumerate(zip(C["idx"], C["fod"])):
            fab = alpha.read_fab_at(os.path.join(out, C["dir"], fn), off)
            shape2 = (idx[1][0] - idx[0][0] + 1, idx[1][1] - idx[0][1] + 1)
            for j, name in enumerate(names):
                fi = c07.FIELDS.index(name) + 1
                arr = fab["arrays"][j].reshape(shape2, order="F")
                for which, fun in (("mins", np.min), ("maxs", np.max)):
                    hv, tv = C[which][bi][j], float(fun(arr))
                    if not (abs(hv - tv) <= 2e-16 * abs(tv) or hv == tv or (hv != hv and tv != tv)):
                        return "level %d box %d: %s[%r] = %r, extremum of the written data %r" % (l, bi, which, name, hv, tv)
                # wide slices: a lattice of sample pixels (first, last and every k-th) of EVERY box
                xs = range(shape2[0]) if not big else sorted(set(list(range(0, shape2[0], max(1, shape2[0] // 6))) + [shape2[0] - 1]))
                ys = range(shape2[1]) if not big else sorted(set(list(range(0, shape2[1], max(1, shape2[1] // 6))) + [shape2[1] - 1]))
                for ix in xs:
                    for iy in ys:
                        p3 = [0, 0, 0]
                        p3[cx], p3[cy] = idx[0][0] + ix, idx[0][1] + iy
                        tp = p3[aA] // lat.scale2
                        pairs = acc[str(tp)] if isinstance(acc, dict) else acc[tp]
                        gotv = float(arr[ix, iy])
                        ok, cands = False, []
                        for a, b in pairs:
                            vals = []
                            for (la, ia) in (a, b):
                                f = 2 ** (l - la) if la <= l else None
                                q = [0, 0, 0]
                                if f is not None:
                                    q[cn], q[aA], q[aB] = ia, p3[aA] // f, p3[aB] // f
                                else:
                                    g = 2 ** (la - l)
                                    q[cn], q[aA], q[aB] = ia, p3[aA] * g, p3[aB] * g
                                vals.append(float(flds.level(la, fi)[tuple(q)]))
                            if a == b:
                                wv = vals[0]
                                if c07.special_near(flds, cfg_, lim, fi, axes, p3[aA], p3[aB], l, pos):
                                    wv = float("nan")            # (see c07: huge / infinite neighbour of an on-centre plane)
                            else:
                                na, nb = centre(*a), centre(*b)
                                wv = (vals[0] * (nb - pos) + vals[1] * (pos - na)) / (nb - na)
                            cands.append(wv)
                            if compare.close_ext(gotv, wv, 1e-9 * max(1.0, abs(vals[0]), abs(vals[1]))):
                                ok = True
                                break
                        if not ok:
                            return ("level %d box %d field %r cell (%d,%d) holds %r; the level's own data interpolated onto the plane "
                                    "gives %r (position unit %d, limit %d)" % (l, bi, name, ix, iy, gotv, cands[:3], sc["pos"], lim))
    return None


WIDE = dict(ext0=448, scale=(1, 48))     # in-plane extent that puts a level's plane data above the 1 MB file-splitting threshold


def run_scenario(chk, sc, cfgseed, axes, serial, fields, wide=False):
    from amr_kitchen.mandoline import Mandoline
    d, cfg_, lat, flds = c07.build(chk, sc, cfgseed, axes, **(WIDE if wide else {}))
    cn = axes[0]
    pos = c07.phys_pos(cfg_, lat, sc, cn, cfgseed)
    before = alpha.tree_digest(d)
    out = os.path.join(os.path.dirname(d), "slice2d")
    try:
        with shims.pool_shim(shims.Scheduler(default="random", rng=random.Random(cfgseed))), shims.poison([SENTINEL, -SENTINEL, float("nan")][cfgseed % 3]), core.quiet():
            m = Mandoline(spell.of(d, cfgseed)[0], fields=list(fields), limit_level=sc["lim"], serial=serial, verbose=0)
            if cfgseed % 3 == 0:
                # an earlier slice on the same object (other normal, returned in memory)
                m.slice(normal=axes[1], fformat="return")
            m.slice(normal=cn, pos=pos, outfile=out, fformat="plotfile")
    except Exception as e:
        return "slice(fformat='plotfile') raised %s: %s" % (type(e).__name__, str(e)[:200])
    if alpha.tree_digest(d) != before:
        return "the input plotfile was modified"
    v = check_output(sc, out, cfg_, lat, flds, axes, pos, fields, big=wide)
    if wide and v is None:
        nfiles = [len([f for f in os.listdir(os.path.join(out, "Level_%d" % l)) if f != "Cell_H"]) for l in range(sc["lim"] + 1)]
        if max(nfiles) < 2:
            raise core.MachineryError("the wide slice was not split over several binary files (%r)" % nfiles)
    import shutil
    shutil.rmtree(os.path.dirname(d), ignore_errors=True)
    return v


def big_scenario(chk, seed):
    """A slice whose written size exceeds the one-megabyte file-splitting threshold at level 1."""
    from amr_kitchen.mandoline import Mandoline
    rng = random.Random(seed)
    cfg_ = gamma.Config.draw(rng, ndims=3, payload="tame")
    axes = (2, 0, 1)
    mesh = [[{"lo": [0, 0], "hi": [1, 3]}, {"lo": [2, 0], "hi": [3, 3]}],
            [{"lo": [2, 2 * k], "hi": [5, 2 * k + 1]} for k in range(4)]]
    lat = lattice.Lattice(mesh, 4, 4, axes=axes, ext0=48, ext_cut=True, scale=(1, 6))
    nf = 32
    names = ["f%02d" % i for i in range(nf)]
    flds = lattice.Fields(lat, seed, payload="tame")
    d = os.path.join(chk.tmp(), "plt00900")
    os.makedirs(os.path.dirname(d))
    gamma.write_plotfile(d, lat.ap("A", names, files_of=lambda lv, b: 1 + b % 2), cfg_, values=flds.values)
    sc = {"mesh": mesh, "n0": 4, "t0": 4, "lim": 1, "pos": 13, "unit": 8}
    pos = c07.phys_pos(cfg_, lat, sc, axes[0])
    out = os.path.join(os.path.dirname(d), "slice2d")
    try:
        with shims.pool_shim(shims.Scheduler()), shims.poison(SENTINEL), core.quiet():
            Mandoline(d, fields=["all"], limit_level=1, serial=True, verbose=0).slice(normal=axes[0], pos=pos, outfile=out, fformat="plotfile")
    except Exception as e:
        return "big slice raised %s: %s" % (type(e).__name__, str(e)[:200]), None
    A = alpha.abstract(out)
    wf = alpha.wellformed(A)
    if wf:
        return "big slice (above the 1 MB threshold) is not a well-formed plotfile: %s" % "; ".join(wf[:3]), None
    nfiles = [len(L["files"]) for L in A["lev"]]
    # boxes crossed: level 0 box 1 (cells 0..1 along the normal, pos unit 13 of 32 -> 13/8 = cell 1.6), level 1 boxes with lo 2..5 (units 8..24)
    total1 = sum(int(np.prod([i[1][0] - i[0][0] + 1, i[1][1] - i[0][1] + 1])) for i in A["lev"][1]["idx"]) * nf * 8
    want1 = {}
    for b, box in lat.concrete_boxes(1):
        cx, cy = 0, 1
        fp = ((box["lo"][cx], box["lo"][cy]), (box["hi"][cx], box["hi"][cy]))
        want1[fp] = 1
    got1 = {(tuple(i[0]), tuple(i[1])) for i in A["lev"][1]["idx"]}
    if got1 != set(want1):
        return "big slice: level 1 has %d footprints, the plane crosses %d boxes (written size %d bytes, %r files)" % (
            len(got1), len(want1), total1, nfiles), None
    from amr_kitchen.taste import Taster
    with shims.pool_shim(shims.Scheduler()), core.quiet():
        if not bool(Taster(out, nofail=True, verbose=0)):
            return "taste rejects the big slice", None
    if total1 <= 1000000 or nfiles[1] < 2:
        raise core.MachineryError("the big slice does not exceed the splitting threshold (%d bytes, files %r)" % (total1, nfiles))
    return None, {"bytes_level1": total1, "files_per_level": nfiles}


def run(chk, replay):
    _run(chk, replay)
    if not replay:
        # the working directory changes between slices of plotfiles typed under a relative name (PoolEnv.tla)
        from harness import poolenv
        poolenv.tool_phase(chk, "mandoline-plotfile")
        # hierarchies whose levels refine by 4, or by different ratios from one jump to the next (Refine.tla)
        from harness import refine
        refine.phase(chk, "sliceplt")


def _run(chk, replay):
    chk.rule = ("scenarios of SlicePlt.tla emitted by TLC (mesh x every in-domain lattice position x limit; a seed-selected residue "
                "class), replayed with fformat='plotfile' for every axis assignment, serial/parallel, several field lists; plus one "
                "configuration above the 1 MB splitting threshold; signature = (levels, limit, per-level slice_box case classes, axes, "
                "serial); trivial = one level, plane strictly between two cell centres")
    chk.assumptions = ["where a level has data on one side of the plane only, the nearest sample, an own-level extrapolation or a "
                       "bracket with another level's sample are all accepted",
                       "tolerance 1e-9 relative to the samples involved"]
    if replay:
        s = replay["scenario"]
        v = run_scenario(chk, s["sc"], s["cfgseed"], tuple(s["axes"]), s["serial"], s["fields"], s.get("wide", False))
        chk.executed("replay")
        if v:
            chk.violation(s["sigs"], v, s)
        return
    scenarios = []
    for what, c in models(chk.tier, chk.seed):
        r = chk.add_tlc(tlc.run("MC_C16", c, timeout=3000), what)
        if r.violated:
            chk.note_drift("TLC: %s violated in model '%s'" % (r.violated, what))
        scenarios += r.emitted
    if not scenarios:
        raise core.MachineryError("TLC emitted no scenarios")
    cap = 600 if chk.tier == "quick" else 8000
    chosen = util.select(scenarios, cap, chk.rng)
    perms = [(0, 1, 2), (1, 2, 0), (2, 0, 1), (0, 2, 1), (1, 0, 2), (2, 1, 0)]
    # (the last two: every field, lowest first and highest last, the inner ones swapped; a repeated field inside such a run)
    fsets = [["u", "aff"], ["all"], ["cst"], ["aff", "w", "grid_level"], ["w", "u"], ["cst", "aff", "u"], ["u", "cst", "aff", "w"], ["aff", "aff", "w"]]
    for i, sc in enumerate(chosen):
        axes = perms[i % 6]
        serial = i % 2 == 1
        fields = fsets[i % len(fsets)]
        cfgseed = chk.rng.randrange(1 << 30)
        v = run_scenario(chk, sc, cfgseed, axes, serial, fields)
        sigs = util.sig_str(sc["sig"], axes, serial)
        s = sc["sig"]
        lv0 = s[2]["0"] if isinstance(s[2], dict) else s[2][0]
        triv = s[0] == 1 and lv0[0] == ["between-centres"]
        chk.executed(sigs, not triv, sample={"mesh": sc["mesh"], "pos_unit": sc["pos"], "lim": sc["lim"], "axes": axes,
                                             "serial": serial, "fields": fields})
        chk.traces += 1
        if v:
            chk.violation(sigs, v, {"sc": sc, "cfgseed": cfgseed, "axes": axes, "serial": serial, "fields": fields, "sigs": sigs})
    # the same scenarios with in-plane extents that make mandoline split a level over several binary files (1 MB rule)
    multi = [sc for sc in chosen if sc["sig"][0] >= 2 and sc["lim"] >= 1]
    chk.rng.shuffle(multi)
    for i, sc in enumerate(multi[:4 if chk.tier == "quick" else 24]):
        axes, cfgseed = perms[i % 6], chk.rng.randrange(1 << 30)
        v = run_scenario(chk, sc, cfgseed, axes, i % 2 == 0, ["all"], wide=True)
        sigs = util.sig_str(sc["sig"], axes, "wide")
        chk.executed(sigs, True)
        chk.traces += 1
        if v:
            chk.violation(sigs, v, {"sc": sc, "cfgseed": cfgseed, "axes": axes, "serial": i % 2 == 0, "fields": ["all"], "sigs": sigs, "wide": True})
    v, info = big_scenario(chk, chk.seed + 5)
    chk.executed("big-slice-above-1MB")
    chk.traces += 1
    if v:
        chk.violation("big-slice-above-1MB", v, {"big": True})
    elif info:
        chk.extra["big_slice"] = info
    # the command line layer (spec/Cli.tla): mandoline's options, also typed with the value zero
    from harness import cli
    cli.phase(chk, "mandoline")
