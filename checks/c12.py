"""
C12 -- results do not depend on worker count, task order or serial/parallel mode.

Deciders:
  * TLC (MC_C12.tla over Pool.tla): every interleaving of Start / Finish / Deliver of a pool call
    with n <= 4 tasks on W <= 4 workers for map / imap / imap_unordered; ScheduleFree (what the
    parent assembles is the same function of the inputs for every schedule).  Every distinct
    completion order is emitted.
  * replay: each pool-using tool is run on a fixed generated input with n = 1..4 tasks per pool
    call under EVERY completion order TLC emitted (scheduled in-process pool; thorough: real
    worker processes with forced start/finish order and W in {1,2,3,4,8,16}); the files produced
    (raw bytes) and the values returned must equal those of the reference run and of the serial
    mode where one exists.
  * trace validation (PoolTrace.tla): the pool events recorded during those runs must be
    behaviours of Pool.tla (the tools use the pool the way the model covers).
"""
import hashlib
import io
import json
import os
import random
import sys
import zipfile

import numpy as np

from harness import alpha, core, gamma, gamma_chk, lattice, shims, tlc, util

RECIPE = os.path.join(os.path.dirname(os.path.dirname(os.path.abspath(__file__))), "harness", "recipes", "r_u1.py")
SENTINEL = 7.7e299


def hb(x):
    return hashlib.sha1(x).hexdigest()[:16]


def harr(a):
    a = np.ascontiguousarray(np.asarray(a))
    return hb(str(a.shape).encode() + str(a.dtype).encode() + a.tobytes())


def tree(path):
    """raw digests; .npz containers carry a timestamp, so their member payloads are compared."""
    out = {}
    if os.path.isfile(path):
        paths = [("", path)]
    else:
        paths = []
        for root, dirs, files in os.walk(path):
            dirs.sort()
            for fn in sorted(files):
                p = os.path.join(root, fn)
                paths.append((os.path.relpath(p, path), p))
    for rel, p in paths:
        if p.endswith(".npz"):
            with zipfile.ZipFile(p) as z:
                out[rel] = {n: hb(z.read(n)) for n in sorted(z.namelist())}
        else:
            out[rel] = hb(open(p, "rb").read())
    return out


# ---------------------------------------------------------------------------- inputs

def make_inputs(chk, n, seed):
    rng = random.Random(seed)
    cfg_ = gamma.Config.draw(rng, ndims=3, payload="tame")
    # n + 1 level-0 boxes of alternating width over n files (the last file holds two boxes), so that
    # tasks differ in size and in what they return
    boxes, x = [], 0
    for k in range(n + 1):
        wd = [4, 2, 6, 2, 4][k % 5]          # (file sizes in an order that is not its own inverse when sorted: medium, small, large)
        boxes.append({"lo": [x, 0], "hi": [x + wd - 1, 3]})
        x += wd
    mesh = [boxes, [{"lo": [0, 2], "hi": [3, 5]}]]
    d = chk.tmp()
    os.makedirs(d)
    lat = lattice.Lattice(mesh, x, 4, axes=(0, 1, 2), ext0=4, ext_cut=False)
    own = lambda lv, b: min(b, n) if lv == 0 else 1
    paths = {}
    paths["A"] = os.path.join(d, "plt00010")
    gamma.write_plotfile(paths["A"], lat.ap("A", ["u", "v", "w"], files_of=own), cfg_, values=lattice.Fields(lat, seed).values)
    # the same data with every box in a binary file of its own: n + 1 per-file tasks (more tasks than four per worker when the
    # code is told it has one processor, so that map() sends several of them in one chunk)
    paths["A5"] = os.path.join(d, "plt00015")
    gamma.write_plotfile(paths["A5"], lat.ap("A", ["u", "v", "w"], files_of=lambda lv, b: b), cfg_, values=lattice.Fields(lat, seed).values)
    paths["B"] = os.path.join(d, "plt00020")
    gamma.write_plotfile(paths["B"], lat.ap("B", ["p", "q"], files_of=own), cfg_, values=lattice.Fields(lat, seed + 1).values)
    paths["B2"] = os.path.join(d, "plt00030")      # same mesh, other file assignment: combine goes box by box
    gamma.write_plotfile(paths["B2"], lat.ap("B", ["p", "q"], files_of=lambda lv, b: (b % n) + 1 if (n > 1 and lv == 0) else 1), cfg_,
                         values=lattice.Fields(lat, seed + 1).values)
    # a thermochemical plotfile on the same mesh (for chef's cantera recipes)
    from checks import c11
    paths["T"] = os.path.join(d, "plt00040")
    gamma.write_plotfile(paths["T"], lat.ap("T", c11.THERMO_FIELDS, files_of=own), cfg_, values=c11.thermo_values(seed))
    lat2 = lattice.Lattice(mesh, x, 4, axes=(0, 1), ndims=2, scale=2)
    paths["P2"] = os.path.join(d, "plt2d")
    gamma.write_plotfile(paths["P2"], lat2.ap("C", ["u", "v"], files_of=own), gamma.Config.draw(rng, ndims=2),
                         values=lattice.Fields(lat2, seed).values)
    cm = gamma_chk.nested_mesh([[1 + k % 2 for k in range(n + 1)], [1]])
    lay0 = {"file": [min(k, n) for k in range(1, n + 2)], "disk": {str(k): ([k] if k < n else [n + 1, n]) for k in range(1, n + 1)}}
    lay1 = {"file": [1], "disk": {"1": [1]}}
    paths["K"] = os.path.join(d, "chk00005")
    gamma_chk.write_checkpoint(paths["K"], cm, [{"state": lay0, "gradp": lay0, "ir": lay0},
                                                 {"state": lay1, "gradp": lay1, "ir": lay1}], cfg_, ns=2, nghost=2)
    paths["dir"] = d
    paths["cfg"] = cfg_
    return paths


# ---------------------------------------------------------------------------- drivers

def drivers():
    D = {}

    def reg(name, serial=False):
        def deco(f):
            D[name] = (f, serial)
            return f
        return deco

    @reg("reader.select")
    def _(p, out, serial):
        from amr_kitchen import PlotfileCooker
        pck = PlotfileCooker(p["A"])
        r = pck[:][0][:] + pck[["u", "w"]][0][[0, -1]] + list(pck["v"][0].iter(slice(None, None, -1)))
        # field lists that do not start at the first field, over every box (map() hands several of these tasks to a worker in
        # one chunk when it has few workers), and one stream used for several selections
        r += pck[["v", "w"]][0][:]
        s = pck[[1, 2]][0]
        r += s[::-1] + s[[0, -1]] + [s[1]] + s[:]
        # field SLICES that start after the first field: boxes named twice in one selection (whether the two tasks meet in one
        # worker is the schedule's choice), a box read in the caller (integer index) and then again by the pool
        t = pck[1:][0]
        r += t[[0, -1, 0]] + [t[1]] + t[:] + pck[1:3][0][[1, 1]]
        return [harr(a) for a in r]

    @reg("reader.iterate")
    def _(p, out, serial):
        from amr_kitchen import PlotfileCooker
        pck = PlotfileCooker(p["A"])
        return [harr(a) for a in pck[1:][0]] + [harr(a) for a in pck["u"][1]]

    @reg("taste")
    def _(p, out, serial):
        from amr_kitchen.taste import Taster
        return [bool(Taster(p["A"], nofail=True, boxes_coordinates=True, verbose=0))]

    def damaged(p, kind):
        """A copy of A in which EVERY level-0 binary file is damaged the same way (so that every task has a finding)."""
        import shutil
        d = os.path.join(p["dir"], "bad_" + kind)
        if not os.path.exists(d):
            shutil.copytree(p["A"], d)
            l0 = os.path.join(d, "Level_0")
            if kind == "lengths":
                for fn in sorted(os.listdir(l0)):
                    if fn != "Cell_H":
                        with open(os.path.join(l0, fn), "ab") as f:
                            f.write(b"\x80" * 8)
            else:
                # every box line of the level header moved by 1000 cells along x: each file's headers disagree with it
                import re
                txt = open(os.path.join(l0, "Cell_H")).read()
                txt = re.sub(r"^\(\((\d+),(.*?)\) \((\d+),", lambda m: "((%d,%s) (%d," % (int(m.group(1)) + 1000, m.group(2), int(m.group(3)) + 1000),
                             txt, flags=re.M)
                open(os.path.join(l0, "Cell_H"), "w").write(txt)
        return d

    def taste_report(d):
        """What a user gets from taste on a bad plotfile: the error raised in failing mode, and in non-failing mode the
        verdict and the findings printed, in the order printed."""
        from amr_kitchen.taste import Taster
        try:
            Taster(d, verbose=0)
            raised = "nothing raised"
        except Exception as e:
            raised = "%s: %s" % (type(e).__name__, e)
        with core.quiet() as txt:
            good = bool(Taster(d, nofail=True, verbose=0))
        return [raised, good, txt.getvalue()]

    @reg("taste.bad-lengths")
    def _(p, out, serial):
        return taste_report(damaged(p, "lengths"))

    @reg("taste.bad-indices")
    def _(p, out, serial):
        return taste_report(damaged(p, "indices"))

    @reg("colander")
    def _(p, out, serial):
        from amr_kitchen.colander import Colander
        Colander(plotfile=p["A"], output=out, variables=["w", "u"]).strain()

    @reg("colander.tail")
    def _(p, out, serial):
        # kept fields that do NOT include the first field of the input, one task per box
        from amr_kitchen.colander import Colander
        Colander(plotfile=p["A5"], output=out, variables=["w", "v"]).strain()

    @reg("combine.byfile")
    def _(p, out, serial):
        from amr_kitchen import PlotfileCooker
        from amr_kitchen.combine import combine
        combine(PlotfileCooker(p["A"]), PlotfileCooker(p["B"]), pltout=out)

    @reg("combine.bybox")
    def _(p, out, serial):
        from amr_kitchen import PlotfileCooker
        from amr_kitchen.combine import combine
        combine(PlotfileCooker(p["A"]), PlotfileCooker(p["B2"]), pltout=out, vars2=["q"])

    @reg("chef", serial=True)
    def _(p, out, serial):
        from amr_kitchen.chef import Chef
        Chef(p["A"], recipe=RECIPE, outfile=out, serial=serial, kept_fields="v").cook()

    @reg("chef.two-pressures", serial=True)
    def _(p, out, serial):
        # a HISTORY in one process: the same plotfile cooked twice with a pressure-dependent recipe at two pressures; what the
        # first cook leaves behind (module globals, cached worker processes) must not reach the second
        from amr_kitchen.chef import Chef
        from checks import c11
        os.makedirs(out)
        for name, pres in (("first", 1.5), ("second", 0.8)):
            Chef(p["T"], recipe="HRR", mech=c11.MECH, pressure=pres, outfile=os.path.join(out, name), serial=serial).cook()

    @reg("mandoline.return", serial=True)
    def _(p, out, serial):
        from amr_kitchen.mandoline import Mandoline
        cfg_ = p["cfg"]
        pos = cfg_.origin[2] + cfg_.dx0[2] / 2 * 1.5            # a level-1 cell centre of the extruded axis
        r = Mandoline(p["A"], fields=["u", "grid_level"], serial=serial, verbose=0).slice(normal=2, pos=pos, fformat="return")
        return [(k, harr(r[k])) for k in sorted(r) if isinstance(r[k], np.ndarray)]

    @reg("mandoline.return.gap", serial=True)
    def _(p, out, serial):
        # a plane between the last cell centres of the first level-0 box and its face: the neighbouring box supplies one side
        from amr_kitchen.mandoline import Mandoline
        cfg_ = p["cfg"]
        pos = cfg_.origin[0] + cfg_.dx0[0] * 1.8
        r = Mandoline(p["A"], fields=["w", "u", "grid_level"], serial=serial, verbose=0).slice(normal=0, pos=pos, fformat="return")
        return [(k, harr(r[k])) for k in sorted(r) if isinstance(r[k], np.ndarray)]

    @reg("mandoline.plotfile.gap", serial=True)
    def _(p, out, serial):
        from amr_kitchen.mandoline import Mandoline
        cfg_ = p["cfg"]
        pos = cfg_.origin[0] + cfg_.dx0[0] * 2.2
        Mandoline(p["A"], fields=["u", "v"], serial=serial, verbose=0).slice(normal=0, pos=pos, outfile=out, fformat="plotfile")

    @reg("mandoline.array", serial=True)
    def _(p, out, serial):
        from amr_kitchen.mandoline import Mandoline
        cfg_ = p["cfg"]
        pos = cfg_.origin[2] + cfg_.dx0[2] * 1.5
        Mandoline(p["A"], fields=["all"], serial=serial, verbose=0).slice(normal=2, pos=pos, outfile=out, fformat="array")

    @reg("mandoline.plate", serial=True)
    def _(p, out, serial):
        from amr_kitchen.mandoline import Mandoline
        Mandoline(p["P2"], fields=["v", "grid_level"], serial=serial, verbose=0).slice(outfile=out, fformat="array")

    @reg("pestle")
    def _(p, out, serial):
        from amr_kitchen import PlotfileCooker
        from amr_kitchen.pestle import volume_integral
        pck = PlotfileCooker(p["A"], ghost=True)
        return [np.float64(volume_integral(pck, f)).tobytes().hex() for f in ("u", "w")]

    @reg("whip")
    def _(p, out, serial):
        from amr_kitchen.whip import cli
        old = sys.argv
        sys.argv = ["whip", "-v", "v", "-o", out, "-y", p["A"]]
        try:
            cli.main()
        finally:
            sys.argv = old

    @reg("chk2plt")
    def _(p, out, serial):
        from amr_kitchen.chk2plt import chk2plt
        chk2plt(p["K"], species=["H2", "O2"], gradp=True, species_reactions=True, floor_massfracs=True, pltdir=out)

    @reg("chk2plt.options")
    def _(p, out, serial):
        # every option away from its default
        from amr_kitchen.chk2plt import chk2plt
        chk2plt(p["K"], species=["H2", "O2"], gradp=False, species_reactions=True, floor_massfracs=False, pltdir=out)
    return D


class cpus(object):
    """The number of processors the code is told it has (multiprocessing.cpu_count / os.cpu_count)."""

    def __init__(self, n):
        self.n = n

    def __enter__(self):
        import multiprocessing
        self.saved = (multiprocessing.cpu_count, os.cpu_count)
        if self.n is not None:
            multiprocessing.cpu_count = lambda: self.n
            os.cpu_count = lambda: self.n

    def __exit__(self, *a):
        import multiprocessing
        multiprocessing.cpu_count, os.cpu_count = self.saved


def run_tool(chk, name, fn, paths, plan, serial=False, flavour="sched", workers=None, default="rotate", log=None, ncpu=None):
    out = chk.tmp()
    sched = shims.Scheduler(plan=plan, default=default, workers=workers, rng=random.Random(1))
    try:
        with shims.pool_shim(sched, flavour), shims.poison(SENTINEL), core.quiet(), cpus(ncpu):
            ret = fn(paths, out, serial)
        res = {"ret": ret, "files": tree(out) if os.path.exists(out) else
               (tree(out + ".npy") if os.path.exists(out + ".npy") else (tree(out + ".npz") if os.path.exists(out + ".npz") else {}))}
    except Exception as e:
        res = {"exc": "%s: %s" % (type(e).__name__, str(e)[:200])}
    if log is not None:
        log.append({"ev": "Begin", "w": workers or 1})
        for e in sched.trace:
            if e["ev"] in ("Submit", "Start", "Finish", "Deliver", "Raise"):
                log.append({k: v for k, v in e.items() if k in ("ev", "kind", "n", "k")})
    return res


def real_pool_phase(chk, D, names, refs):
    """Every tool once more with GENUINE pools in a child process that can be abandoned: as they come, and with the pool's
    task-handler thread slower than its workers (PoolLife.tla).  The result must be the reference run's; not coming back is
    a violation (a result that depends on the schedule in the worst way)."""
    import subprocess
    from concurrent.futures import ThreadPoolExecutor
    budget = 40
    jobs = []
    for name in names:
        for n in ((2,) if chk.tier == "quick" else (1, 2, 3, 4)):
            if (name, n) not in refs:
                continue
            for mode in ("as-it-comes", "slow-handler"):
                if chk.tier == "quick" and mode == "as-it-comes" and not name.startswith(("reader", "chk2plt", "chef")):
                    continue
                jobs.append((name, n, mode))
            # workers that do not inherit the parent's memory (start method "spawn": the default outside Linux): what a worker
            # needs has to reach it through its task
            if not name.startswith("taste.bad") and (chk.tier != "quick" or name in ("whip", "colander.tail", "combine.byfile", "mandoline.plate",
                                                                                     "pestle", "reader.select", "chk2plt", "chk2plt.options")):
                jobs.append((name, n, "spawn"))

    def one(job):
        name, n, mode = job
        cmd = [sys.executable, os.path.join(os.path.dirname(os.path.abspath(__file__)), "c12_real.py"), name, str(n), str(refs[(name, n)][1]), str(budget)]
        if mode in ("slow-handler", "spawn"):
            cmd.append(mode)
        env = dict(os.environ)
        env["TMPDIR"] = chk.scratch
        try:
            p = subprocess.run(cmd, stdout=subprocess.PIPE, stderr=subprocess.PIPE, text=True, timeout=budget + 90, env=env)
            lines = [ln for ln in p.stdout.split("\n") if ln.startswith("{")]
            return job, (json.loads(lines[-1]) if lines else {"machinery": p.stderr[-500:]})
        except subprocess.TimeoutExpired:
            return job, {"hang": True}
    with ThreadPoolExecutor(max_workers=6) as ex:
        results = list(ex.map(one, jobs))
    for (name, n, mode), rec in results:
        if "machinery" in rec:
            raise core.MachineryError("real-pool child of %s produced no record: %s" % (name, rec["machinery"]))
        sig = util.sig_str(name, n, "real-pool", mode)
        chk.executed(sig, True, sample={"tool": name, "n": n, "flavour": "real pool, " + mode})
        chk.traces += 1
        ref = json.loads(core.jdump(refs[(name, n)][0]))
        v = None
        if rec.get("hang"):
            v = "%s with %d tasks does not come back with real process pools%s (nothing within %d s)" % (
                name, n, " when the pool's task-handler thread is slower than its workers" if mode == "slow-handler" else (" started with 'spawn'" if mode == "spawn" else ""), budget)
        elif "exc" in rec:
            v = "%s raised with real process pools%s: %s" % (name, " (workers started with 'spawn')" if mode == "spawn" else "", rec["exc"])
        else:
            # paths in error messages differ between processes (scratch directories): compare with the directory names removed
            a, b = _nopaths(ref), _nopaths(rec["res"])
            if a != b:
                v = "%s with %d tasks and real process pools (%s) gives another result than the reference run: %s" % (name, n, mode, core.first_diff(a, b))
        if v:
            chk.violation(sig, v, {"tool": name, "n": n, "real_pool": True, "mode": mode})


def _nopaths(x):
    import re
    if isinstance(x, str):
        return re.sub(r"/\S*verif_[^/]*/[^/]*/(bad_[a-z]+/)", r"<dir>/\1", x)
    if isinstance(x, list):
        return [_nopaths(v) for v in x]
    if isinstance(x, dict):
        return {k: _nopaths(v) for k, v in x.items()}
    return x


def run(chk, replay):
    chk.rule = ("for each pool-using tool and each task count n = 1..4: every completion order of n tasks that TLC emitted "
                "(n! orders), imposed on every pool call of the run with n tasks; signature = (tool, n, completion order, pool "
                "flavour/W); non-trivial = any order other than submission order, or W > 1, or serial vs parallel")
    chk.assumptions = ["the in-process scheduled pool pickles arguments and results like a process boundary does",
                       ".npz containers are compared by member payload (the zip header carries a timestamp)"]
    if replay and replay["scenario"].get("chef_cwd_history"):
        from checks import c11
        return c11.cwd_history(chk)
    if replay and replay["scenario"].get("recipe_history"):
        from checks import c11
        chk.executed("replay")
        return c11.recipe_histories(chk, only=replay["scenario"]["recipe_history"])
    r = chk.add_tlc(tlc.run("MC_C12", {"INIT": "Init", "NEXT": "Next", "CONSTANTS": {"MaxN": 4, "MaxW": 4, "Gather": '"by_task"'},
                                       "INVARIANTS": ["ScheduleFree", "PoolOK", "Emit"]}, timeout=1200), "all interleavings n<=4, W<=4")
    if r.violated:
        chk.note_drift("TLC: %s violated in MC_C12" % r.violated)
    orders = {}
    for e in r.emitted:
        orders.setdefault(e["n"], set()).add(tuple(e["fin"]))
    if sorted(orders) != [1, 2, 3, 4] or len(orders[4]) != 24:
        raise core.MachineryError("TLC did not emit every completion order: %r" % {k: len(v) for k, v in orders.items()})
    chk.exhaustive = True
    D = drivers()
    names = sorted(D)
    if replay:
        names = [replay["scenario"]["tool"]]
    log = []
    refs = {}
    ns = [1, 2, 3, 4] if not replay else [replay["scenario"]["n"]]
    for n in ns:
        paths = make_inputs(chk, n, chk.seed * 10 + n)
        before = {k: alpha.tree_digest(paths[k]) for k in ("A", "B", "B2", "P2", "K", "T")}
        for name in names:
            fn, has_serial = D[name]
            ref = run_tool(chk, name, fn, paths, {}, default="fifo", log=log)
            refs[(name, n)] = (ref, chk.seed * 10 + n)
            if "exc" in ref:
                chk.violation(util.sig_str(name, n, "reference"), "%s raised in the reference run: %s" % (name, ref["exc"]),
                              {"tool": name, "n": n})
                continue
            variants = []
            todo = sorted(orders[n])
            if chk.tier == "quick" and n == 4:
                todo = todo[::2] + [todo[-1]]
            for perm in todo:
                variants.append(("sched", None, list(perm), False))
            if has_serial:
                variants.append(("sched", None, list(range(1, n + 1)), True))
            if chk.tier == "quick" and n in (2, 3):
                # real worker processes also in the quick tier: what a task does to module globals or to its
                # arguments must not reach the parent, which an in-process pool cannot show
                variants.append(("gated", 2, list(range(n, 0, -1)), False))
            if chk.tier == "thorough":
                ws = [1, 2, 3, 4, 8, 16]
                perms = sorted(orders[n])
                chk.rng.shuffle(perms)
                for i, wk in enumerate(ws):
                    variants.append(("gated", wk, list(perms[i % len(perms)]), False))
            # the number of processors the code believes it has: work split by it must not change any result
            if n >= 3:
                for nc in ((1, 2, 3, 64) if chk.tier == "quick" else (1, 2, 3, 4, 5, 7, 64)):
                    variants.append(("cpus", nc, list(range(1, n + 1)), False))
            for flavour, wk, perm, serial in variants:
                plan = {c: perm for c in range(1, 40)}
                if flavour == "cpus":
                    res = run_tool(chk, name, fn, paths, {}, default="fifo", ncpu=wk)
                else:
                    res = run_tool(chk, name, fn, paths, plan, serial=serial, flavour=flavour, workers=wk,
                                   log=log if flavour == "sched" else None)
                sig = util.sig_str(name, n, perm, "serial" if serial else "%s/W=%s" % (flavour, wk))
                nontrivial = perm != list(range(1, n + 1)) or serial or flavour == "gated"
                chk.executed(sig, nontrivial, sample={"tool": name, "n": n, "finish_order": perm, "flavour": flavour, "W": wk,
                                                      "serial": serial})
                chk.traces += 1
                if res != ref:
                    d = core.first_diff(json.loads(core.jdump(ref)), json.loads(core.jdump(res)))
                    chk.violation(sig, "%s with %d tasks: completion order %r (%s) gives another result than the submission-order "
                                  "run: %s" % (name, n, perm, "serial" if serial else ("told it has %d processors" % wk if flavour == "cpus" else flavour), d),
                                  {"tool": name, "n": n, "perm": perm, "serial": serial})
        for k, dg in before.items():
            if alpha.tree_digest(paths[k]) != dg:
                chk.violation(util.sig_str("inputs", n), "an input was modified by one of the runs", {"tool": "any", "n": n})
    if not replay or replay["scenario"].get("real_pool"):
        real_pool_phase(chk, D, names if not replay else [replay["scenario"]["tool"]], refs)
    if not replay:
        # serial and parallel cooks of two recipe files of the same name in one process, with chef's cached pool (RecipeCache.tla)
        from checks import c11
        c11.recipe_histories(chk)
        # serial and pooled runs alternate on plotfiles typed under one relative name in several directories (PoolEnv.tla): what a
        # serial run leaves in the process must not reach the next run, and both give the result of the directory they run in
        from harness import poolenv
        for t_ in ['mandoline-return', 'mandoline2d']:
            poolenv.tool_phase(chk, t_)
    # pool usage traces must be behaviours of Pool.tla
    tf = os.path.join(chk.scratch, "pool_trace.ndjson")
    with open(tf, "w") as f:
        for ln in log:
            f.write(json.dumps(ln) + "\n")
    rt = tlc.run("PoolTrace", {"SPECIFICATION": "TraceSpec", "INVARIANTS": ["PoolOK"], "POSTCONDITION": "TraceAccepted"},
                 workers=1, timeout=1200, env={"TRACE_FILE": tf})
    chk.add_tlc(rt, "pool-usage trace validation (%d events)" % len(log))
    if rt.violated:
        chk.note_drift("PoolTrace.tla rejects the recorded pool usage (%s): a tool uses the pool in a way Pool.tla does not model" % rt.violated)
    chk.extra["pool_events_validated"] = len(log)
