"""
Child process of C12: one tool, genuine process pools (no shim), optionally with the pool's TASK-HANDLER thread slowed
down just before it announces the length of an imap job (`slow-handler`): the schedule of PoolLife.tla in which every
result is stored before the length is known.  Prints one JSON line: the tool's result (returned values, digests of the
files written), {"hang": true} when it does not come back within the budget, or {"exc": ...}.
Usage: c12_real.py <tool> <n> <seed> <budget seconds> [slow-handler | spawn | forkserver]
"""
import json
import os
import signal
import sys

sys.path.insert(0, os.path.dirname(os.path.dirname(os.path.abspath(__file__))))


class Budget(Exception):
    pass


def on_alarm(sig, frm):
    raise Budget()


def main():
    tool, n, seed, budget = sys.argv[1], int(sys.argv[2]), int(sys.argv[3]), int(sys.argv[4])
    slow = len(sys.argv) > 5 and sys.argv[5] == "slow-handler"
    if len(sys.argv) > 5 and sys.argv[5] in ("spawn", "forkserver"):
        # workers that do NOT inherit the parent's memory (the default start method outside Linux, and of Python 3.14 on Linux):
        # what a worker needs must reach it through its task, not through a module global the parent set after import
        import multiprocessing
        multiprocessing.set_start_method(sys.argv[5], force=True)
    from harness import core
    core.import_repo()
    from checks import c12
    if slow:
        import time
        import multiprocessing.pool as mpp
        orig = mpp.IMapIterator._set_length

        def delayed(self, length):
            time.sleep(0.4)
            return orig(self, length)
        mpp.IMapIterator._set_length = delayed
    chk = core.Check("C12", "quick", 0)
    so = sys.stdout
    rec = {"tool": tool, "n": n, "slow": slow}
    try:
        paths = c12.make_inputs(chk, n, seed)
        fn, has_serial = c12.drivers()[tool]
        out = chk.tmp()
        signal.signal(signal.SIGALRM, on_alarm)
        signal.alarm(budget)
        try:
            with core.quiet():
                ret = fn(paths, out, False)
            signal.alarm(0)
            files = c12.tree(out) if os.path.exists(out) else (c12.tree(out + ".npy") if os.path.exists(out + ".npy") else
                                                               (c12.tree(out + ".npz") if os.path.exists(out + ".npz") else {}))
            rec["res"] = json.loads(core.jdump({"ret": ret, "files": files}))
        except Budget:
            rec["hang"] = True
        except Exception as e:
            signal.alarm(0)
            rec["exc"] = "%s: %s" % (type(e).__name__, str(e)[:200])
    finally:
        sys.stdout = so
        so.write(json.dumps(rec) + "\n")
        so.flush()
        try:
            chk.cleanup()
        finally:
            os._exit(0)


if __name__ == "__main__":
    main()
