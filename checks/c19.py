"""
C19 -- point queries at interior cell centres return the stored cell value.

Decider: TLC checks Point.tla (the level / box matching of LevelDataSelector.__call__ on an
integer lattice with a non-zero origin) against the requirement "the stored value of that
cell" for every mesh, every queryable cell (finest level covering it, one cell inside its box)
and points outside the domain, and emits each scenario; each is replayed into the real reader
at the physical cell centre (origin placed by sign, anisotropic cells, every axis assignment).
"""
import os
import random

import numpy as np

from harness import alpha, core, gamma, lattice, shims, tlc, util
from harness import spell

INV = ["PointRefines", "Emit"]
FIELDS = ["u", "v", "w", "f3", "f4", "f5", "f6", "f7"]
# single names / indexes (also negative), contiguous lists, lists with gaps (one gap, two gaps, not starting at the first field)
SELS = ["v", 2, ["u", "w"], [0, 1, 2], [1, 4, 6], -1, ["v", "f5"], [0, 3, 5, 7], "f7", [2, 3, 6],
        # lists that start at their lowest and end at their highest field with the inner ones out of order or repeated (the reader
        # honours them in the order asked): as many entries as the span they cover, and not
        [0, 2, 1, 3], ["v", "v", "f3"], ["u", "f3", "v", "f4"], [2, 4, 3, 5]]


def models(tier):
    def cfg(origins="{0,6,-10}", **c):
        base = dict(OriginMode='"subtract"', MaxQ=1)
        base.update(c)
        return {"INIT": "Init", "NEXT": "Next", "DEFS": {"Origins": origins}, "CONSTANTS": base, "INVARIANTS": INV}
    if tier == "quick":
        return [("2 levels", cfg(N1=6, N2=4, MaxLev=2, MaxFine=1)),
                ("3 levels", cfg(N1=4, N2=4, MaxLev=3, MaxFine=1, origins="{6}")),
                ("two queries on one selector", cfg(N1=4, N2=4, MaxLev=2, MaxFine=1, origins="{6}", MaxQ=2))]
    return [("2 levels", cfg(N1=6, N2=4, MaxLev=2, MaxFine=2)),
            ("3 levels", cfg(N1=6, N2=4, MaxLev=3, MaxFine=1)),
            ("two queries on one selector", cfg(N1=6, N2=4, MaxLev=3, MaxFine=1, origins="{-10}", MaxQ=2))]


class World(object):
    def __init__(self, chk):
        self.chk = chk
        self.cache = {}

    def get(self, sc, cfgseed, axes):
        from amr_kitchen import PlotfileCooker
        key = core.jdump([sc["mesh"], sc["origin"] > 0, sc["origin"] < 0, cfgseed, axes])
        if key in self.cache:
            return self.cache[key]
        if len(self.cache) > 60:
            self.cache.clear()
        rng = random.Random(cfgseed)
        cfg_ = gamma.Config.draw(rng, ndims=3, payload="tame")
        sgn = (sc["origin"] > 0) - (sc["origin"] < 0)
        cfg_.origin = tuple(0.0 if sgn == 0 else sgn * abs(rng.choice([0.3, 1.1, 2.0, 0.05, 7.7])) for _ in range(3))
        if cfgseed % 5 == 1 and sgn != 0:
            # a domain FAR from the origin of the coordinates compared with its cells (|x| / dx of 1e5 .. 1e7): a tolerance relative
            # to the coordinate is then wider than a cell
            cfg_.origin = tuple(sgn * m for m in rng.sample([5000.0, 81234.5, 3.0e5], 3))
        if cfgseed % 4 == 0:
            # a domain placed so that the cell centres of the FINEST level are whole numbers (cell sizes 1, 2, 1 there, lower
            # corner half a cell below a whole number): a user then naturally types the point as integers
            dxf = [(1.0, 2.0, 1.0), (2.0, 1.0, 1.0), (1.0, 1.0, 2.0)][(cfgseed // 4) % 3]
            nl = len(sc["mesh"])
            cfg_.dx0 = tuple(x * 2 ** (nl - 1) for x in dxf)
            cfg_.origin = tuple(sgn * 4.0 - x / 2 for x in dxf)
        lat = lattice.Lattice(sc["mesh"], sc["n1"], sc["n2"], axes=axes, ext0=[3, 4, 5][cfgseed % 3], ext_cut=(cfgseed // 3) % 2 == 1)
        ap = lat.ap("A", FIELDS, files_of=lambda lv, b: rng.randint(1, 2), shuffle=lambda lv, f, v: rng.sample(v, len(v)))
        # fields of very different magnitudes side by side (mass fraction of a radical ~1e-12 next to an enthalpy ~1e12), and
        # one field (f4) with nan / inf cells scattered through it: what one field holds must not reach the answer for another
        def scaled(fi, factor):
            return lambda lv, shape: factor * gamma.token_array(cfgseed, ("lat", lv, fi), int(np.prod(shape)), "tame").reshape(shape)

        def holed(lv, shape):
            a = gamma.token_array(cfgseed, ("lat", lv, 5), int(np.prod(shape)), "tame").reshape(shape).copy()
            pick = np.random.default_rng(cfgseed + lv).random(shape)
            a[pick < 0.05] = np.nan
            a[(pick >= 0.05) & (pick < 0.08)] = np.inf
            return a
        special = {4: scaled(4, 1e-12), 5: holed, 6: scaled(6, 1e12), 7: scaled(7, 1e-6)} if cfgseed % 2 else {}
        flds = lattice.Fields(lat, cfgseed, payload="tame", special=special)
        d = os.path.join(self.chk.tmp(), "p")
        os.makedirs(os.path.dirname(d))
        gamma.write_plotfile(d, ap, cfg_, values=flds.values)
        with core.quiet():
            pck = PlotfileCooker(spell.of(d, cfgseed)[0])
        self.cache[key] = (cfg_, lat, flds, pck)
        return self.cache[key]


def run_scenario(chk, world, sc, cfgseed, axes, sel):
    cfg_, lat, flds, pck = world.get(sc, cfgseed, axes)
    a1, a2, a3 = axes
    try:
        with core.quiet():
            probe = pck[sel]                 # ONE selector object for all the queries of the scenario
    except Exception as e:
        return "pck[%r] raised %s" % (sel, type(e).__name__)
    for qi, q in enumerate(sc["asked"]):
        l = q["lev"]
        dx = gamma.level_dx(cfg_, 3, l)
        ne = lat.level_shape(l)[a3]
        # along the extruded axis: a cell at least one cell away from the faces of its box (the domain faces, and the cut
        # between the two slabs when the boxes are cut there)
        inner = [k for k in range(1, ne - 1)]
        if lat.ext_cut and ne >= 2:
            cut = max(1, (ne // 2) - (ne // 2) % 2) if ne >= 4 else 1
            inner = [k for k in inner if k not in (cut - 1, cut)]
        if not inner:
            continue
        kz = inner[(cfgseed + qi) % len(inner)]
        idx = [0, 0, 0]
        idx[a1], idx[a2], idx[a3] = q["cell"][0], q["cell"][1], kz
        point = [cfg_.origin[d] + dx[d] * (idx[d] + 0.5) for d in range(3)]
        if all(float(x).is_integer() for x in point) and (cfgseed + qi) % 3 != 2:
            # whole-number coordinates typed as integers (python int, or numpy integers)
            point = [int(x) for x in point] if (cfgseed + qi) % 3 == 0 else [np.int64(x) for x in point]
        try:
            with shims.pool_shim(shims.Scheduler()), core.quiet():
                got = probe(*point)
            exc = None
        except Exception as e:
            exc = e
        if q["outside"]:
            if exc is None:
                return "point %r outside the domain was answered with %r" % (point, got)
            continue
        if exc is not None:
            return "query %d (%r) at the centre of level-%d cell %r raised %s: %s" % (qi + 1, sel, l, idx, type(exc).__name__, str(exc)[:150])
        names = sel if isinstance(sel, list) else [sel]
        fis = [(FIELDS.index(n) if isinstance(n, str) else n % len(FIELDS)) + 1 for n in names]
        got = np.atleast_1d(np.asarray(got, dtype=float)).ravel()
        if got.shape[0] != len(fis):
            return "query %r returned %d values for %d fields" % (sel, got.shape[0], len(fis))
        for g, fi in zip(got, fis):
            want = float(flds.level(l, fi)[tuple(idx)])
            if not np.all(np.isfinite(flds.level(l, fi))):
                continue          # a field with nan / inf cells: its own spline is undefined, only the OTHER fields are judged
            scale = float(np.max(np.abs(flds.level(l, fi))))
            # the typed coordinate itself is rounded: |x| * eps / dx of a cell, which a spline turns into that fraction of the
            # field's variation (only visible for domains far from the origin of the coordinates)
            far = max(abs(float(p)) for p in point) * 2.3e-16 / min(dx)
            if not abs(g - want) <= (1e-9 + 100.0 * far) * scale:
                return "query %d of %d on one selector (%r) at the centre of level-%d cell %r (origin %r): %r, stored value %r" % (
                    qi + 1, len(sc["asked"]), sel, l, idx, cfg_.origin, float(g), want)
    return None


def run(chk, replay):
    chk.rule = ("scenarios of Point.tla emitted by TLC (mesh x origin sign x every queryable cell + points outside), replayed with "
                "single-name, index and list selections, all six axis assignments, anisotropic cells; signature = (levels, "
                "inside/outside, level of the answer, origin sign, selection kind, axes); trivial = one level at origin 0")
    chk.assumptions = ["tolerance 1e-9 * max|field| (cubic spline evaluated at a knot)",
                       "the query's third coordinate is an interior cell centre of the extruded axis"]
    world = World(chk)
    if replay:
        s = replay["scenario"]
        v = run_scenario(chk, world, s["sc"], s["cfgseed"], tuple(s["axes"]), s["sel"])
        chk.executed("replay")
        if v:
            chk.violation(s["sigs"], v, s)
        return
    scenarios = []
    for what, c in models(chk.tier):
        r = chk.add_tlc(tlc.run("MC_C19", c, timeout=2400), what)
        if r.violated:
            chk.note_drift("TLC: %s violated in model '%s'" % (r.violated, what))
        scenarios += r.emitted
    if not scenarios:
        raise core.MachineryError("TLC emitted no scenarios")
    cap = 2500 if chk.tier == "quick" else 40000
    chosen = util.select(scenarios, cap, chk.rng)
    chk.exhaustive = len(chosen) == len(scenarios)
    perms = [(0, 1, 2), (1, 2, 0), (2, 0, 1), (0, 2, 1), (1, 0, 2), (2, 1, 0)]
    # configuration seeds covering every residue class the concretisation branches on (mod 2, 3, 4, 5); a plotfile is written per
    # (mesh, seed) and serves eight consecutive scenarios
    base = chk.rng.randrange(1 << 20) * 60
    seeds = [base + k for k in (0, 1, 2, 3, 5, 6, 7, 11, 16, 21, 31, 46)]
    chosen.sort(key=lambda s: core.jdump(s["mesh"]))
    for i, sc in enumerate(chosen):
        axes = perms[hash(core.jdump(sc["mesh"])) % 6]
        sel = SELS[i % len(SELS)]
        cfgseed = seeds[(i // 8) % len(seeds)]
        v = run_scenario(chk, world, sc, cfgseed, axes, sel)
        sigs = util.sig_str(sc["sig"], "list" if isinstance(sel, list) else type(sel).__name__, axes)
        triv = sc["sig"][0] == 1 and sc["sig"][3] == "origin0"
        chk.executed(sigs, not triv, sample={"mesh": sc["mesh"], "origin": sc["origin"], "asked": sc["asked"],
                                             "sel": sel, "axes": axes})
        chk.traces += 1
        if v:
            chk.violation(sigs, v, {"sc": sc, "cfgseed": cfgseed, "axes": axes, "sel": sel, "sigs": sigs})
    # hierarchies whose levels refine by 4, or by different ratios from one level to the next (Refine.tla): the index of a point
    # follows the level's OWN cell size
    from harness import refine
    refine.phase(chk, "point")
