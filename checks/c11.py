"""
C11 -- chef writes recipe(box) under the right names with true min/max.

Decider: TLC checks Chef.tla (sequential knives, offset-sorted box map, header writers, serial
and parallel with every completion order) against CookSpec, and emits every behaviour; each is
replayed into the real Chef.  The symbols <<"new", j, l, b>> are interpreted by the harness:
user recipes by an independent numpy evaluation (bit-exact), solution-array and built-in recipes
cell by cell through a scalar cantera Solution (rtol 1e-9).
"""
import importlib
import os
import random

import numpy as np

from harness import alpha, compare, core, gamma, shims, tlc, util
from harness import spell

INV = ["CookRefines", "NoSharedWrites", "PoolOK", "Emit"]
RECDIR = os.path.join(os.path.dirname(os.path.dirname(os.path.abspath(__file__))), "harness", "recipes")
MECH = "h2o2.yaml"
SPECIES = ['H2', 'H', 'O', 'O2', 'OH', 'H2O', 'HO2', 'H2O2', 'AR', 'N2']
THERMO_FIELDS = ["x_velocity", "temp"] + ["Y(%s)" % s for s in SPECIES] + ["extra"]
PRESSURE_ATM = 1.5


def cfg(names='<<"a","b","c">>', **c):
    base = dict(W=2, SchedMode='"fifo"', NamesOrder='"kept_first"', MapOrder='"disk"', NNewSet="{1,2}")
    base.update(c)
    return {"INIT": "Init", "NEXT": "Next", "DEFS": {"Names": names}, "CONSTANTS": base,
            "INVARIANTS": INV, "PROPERTIES": ["InputUnchanged"]}


def models(tier):
    if tier == "quick":
        return [("content", cfg(MaxLev=2, MaxBox=2, MaxFile=2)),
                ("schedules", cfg(MaxLev=1, MaxBox=3, MaxFile=3, SchedMode='"all"')),
                ("per-species recipe over all species", cfg(MaxLev=1, MaxBox=2, MaxFile=2, NNewSet="{10}")),
                ("three new components", cfg(MaxLev=1, MaxBox=2, MaxFile=2, NNewSet="{3}")),
                # every ordered kept list of up to three out of FOUR fields
                ("kept lists of a four-field input", cfg('<<"a","b","c","d">>', MaxLev=1, MaxBox=1, MaxFile=1, NNewSet="{1}"))]
    return [("kept lists of a four-field input", cfg('<<"a","b","c","d">>', MaxLev=1, MaxBox=2, MaxFile=2, NNewSet="{1}")),
            ("content", cfg(MaxLev=2, MaxBox=3, MaxFile=2)),
            ("three new components", cfg(MaxLev=1, MaxBox=2, MaxFile=2, NNewSet="{3}")),
            ("schedules", cfg(MaxLev=2, MaxBox=3, MaxFile=3, SchedMode='"all"', W=3)),
            ("per-species recipe over all species", cfg(MaxLev=2, MaxBox=2, MaxFile=2, NNewSet="{10}"))]


# recipe families: name -> (nnew, thermo?)
RECIPES = {"u1": (1, False), "c1": (1, False), "u2": (2, False),
           "s1": (1, True), "HRR": (1, True), "ENT": (1, True), "SRi1": (1, True),
           "s2": (2, True), "SRi2": (2, True), "SDi2": (2, True), "RRi2": (2, True), "cs2": (2, True),
           "SRiall": (10, True), "SDiall": (10, True)}
SP2 = ["O2", "H2"]
RX2 = [3, 0]


def split_recipe(recipe):
    """'SRi@H,O2' -> ('SRi', ['H', 'O2']);  'RRi@3,0' -> ('RRi', [3, 0]);  'u1' -> ('u1', None)"""
    if "@" not in recipe:
        return recipe, None
    kind, lst = recipe.split("@")
    items = lst.split(",")
    return kind, ([int(x) for x in items] if kind == "RRi" else items)


def nnew_of(recipe):
    kind, sel = split_recipe(recipe)
    return len(sel) if sel is not None else RECIPES[recipe][0]


def thermo_of(recipe):
    kind, sel = split_recipe(recipe)
    return True if sel is not None else RECIPES[recipe][1]


def thermo_fields(cfgseed):
    """The thermochemical input's field list: the species block in mechanism order, or (one input in six) with two species
    after the first exchanged -- a legal plotfile whose mass fractions chef must either use by NAME or refuse."""
    if cfgseed % 6 != 0:
        return list(THERMO_FIELDS)
    f = list(THERMO_FIELDS)
    i, j = 2 + 3, 2 + len(SPECIES) - 1          # Y(O2) <-> Y(N2)
    f[i], f[j] = f[j], f[i]
    return f


def thermo_values(cfgseed, fields=None):
    fields = fields or THERMO_FIELDS

    def values(lv, b, fi, box):
        shape = gamma.box_shape(box)
        name = fields[fi - 1]
        # the values of a field follow its NAME (position in the mechanism-ordered list), wherever it sits in the header
        fi = THERMO_FIELDS.index(name) + 1
        rng = np.random.default_rng(gamma._tok_seed(cfgseed, ("thermo", lv, b, fi)))
        # one configuration in three carries what real plotfiles carry: DEAD cells (temperature 0 and every mass fraction 0, as
        # under an embedded boundary), under- and overshoots of the advection scheme (slightly negative mass fractions, one
        # slightly above 1) and negative zeros.  Kept fields must come out bit-identical there too
        rough = cfgseed % 3 == 1
        dead = np.random.default_rng(gamma._tok_seed(cfgseed, ("dead", lv, b))).random(shape) < (0.06 if rough else -1.0)
        if name == "temp":
            t = rng.uniform(400.0, 2400.0, shape)
            t[dead] = 0.0
            if rough:
                # COLD cells: temperature 0 with an ordinary composition (the tool floors the temperature at 1 K and must leave
                # the composition alone)
                t[np.random.default_rng(gamma._tok_seed(cfgseed, ("cold", lv, b))).random(shape) < 0.05] = 0.0
            return t
        if name.startswith("Y("):
            # normalised below through a common positive weight: use a fixed positive draw and scale
            w = rng.uniform(0.05, 1.0, shape)
            tot = np.zeros(shape)
            for k in range(len(SPECIES)):
                r2 = np.random.default_rng(gamma._tok_seed(cfgseed, ("thermo", lv, b, 3 + k)))
                tot += r2.uniform(0.05, 1.0, shape)
            y = w / tot
            if rough:
                pick = rng.random(shape)
                y[pick < 0.05] *= -1e-6
                y[(pick >= 0.05) & (pick < 0.07)] = 1.0000004
                y[(pick >= 0.07) & (pick < 0.09)] = -0.0
                y[dead] = 0.0
            return y
        return rng.uniform(-50.0, 50.0, shape)
    return values


def new_expected(recipe, arrs, shape, thermo, pressure=None):
    """Independent evaluation of the recipe on one box: list of arrays (box shape)."""
    if not thermo:
        x0 = arrs[0].reshape(shape, order="F")
        x1 = arrs[1].reshape(shape, order="F")
        if recipe in ("u1", "c1"):
            return [x0 * 2.0 + x1]
        return [x0 - x1, x0 * 0.5 + 3.0]
    import cantera as ct
    gas = ct.Solution(MECH)
    T = arrs[1].reshape(shape, order="F")
    Y = np.stack([arrs[2 + k].reshape(shape, order="F") for k in range(len(SPECIES))], axis=-1)
    nout = nnew_of(recipe)
    kind_, sel_ = split_recipe(recipe)
    out = [np.empty(shape) for _ in range(nout)]
    # cells without a thermodynamic state (temperature 0 or no mass at all): what the recipe gives there is not judged
    dead = np.isclose(np.sum(Y, axis=-1), 0)
    T = np.where(np.isclose(T, 0), 1.0, T)          # the documented floor: a cell at 0 K is evaluated at 1 K, composition as stored
    for ijk in np.ndindex(*shape):
        if dead[ijk]:
            for o in out:
                o[ijk] = np.nan
            continue
        gas.TPY = T[ijk], (pressure or PRESSURE_ATM) * ct.one_atm, Y[ijk]
        if sel_ is not None:
            if kind_ == "SRi":
                vals = [gas.net_production_rates[gas.species_index(x)] for x in sel_]
            elif kind_ == "SDi":
                vals = [gas.mix_diff_coeffs_mass[gas.species_index(x)] for x in sel_]
            else:
                vals = [gas.net_rates_of_progress[r] for r in sel_]
        elif recipe == "s1":
            vals = [gas.density_mass]
        elif recipe in ("s2", "cs2"):
            vals = [gas.density_mass, gas.cp_mass]
        elif recipe == "HRR":
            vals = [gas.heat_release_rate]
        elif recipe == "ENT":
            vals = [gas.enthalpy_mass]
        elif recipe == "SRi1":
            vals = [gas.net_production_rates[gas.species_index("O2")]]
        elif recipe == "SRi2":
            vals = [gas.net_production_rates[gas.species_index(s)] for s in SP2]
        elif recipe == "SDi2":
            vals = [gas.mix_diff_coeffs_mass[gas.species_index(s)] for s in SP2]
        elif recipe == "RRi2":
            vals = [gas.net_rates_of_progress[r] for r in RX2]
        elif recipe == "SRiall":
            vals = list(gas.net_production_rates)
        elif recipe == "SDiall":
            vals = list(gas.mix_diff_coeffs_mass)
        for o, v in zip(out, vals):
            o[ijk] = v
    return out


def chef_kwargs(recipe, pressure=None):
    """(recipe argument, extra kwargs, names of the new fields as the tool must store them)"""
    kw = {}
    thermo = thermo_of(recipe)
    if thermo:
        kw.update(mech=MECH, pressure=pressure or PRESSURE_ATM)
    kind_, sel_ = split_recipe(recipe)
    if sel_ is not None:
        if kind_ == "RRi":
            kw["reactions"] = list(sel_)
            return "RRi", kw, ["R%d" % r for r in sel_]
        kw["species"] = list(sel_)
        return kind_, kw, [("IRm(%s)" if kind_ == "SRi" else "DI(%s)") % x for x in sel_]
    if recipe in ("u1", "u2", "s1", "s2"):
        return os.path.join(RECDIR, "r_%s.py" % recipe), kw, ["new1", "new2"][:RECIPES[recipe][0]]
    if recipe == "c1":
        return importlib.import_module("harness.recipes.r_u1").recipe, kw, ["new1"]
    if recipe == "cs2":
        return importlib.import_module("harness.recipes.r_s2").recipe, kw, ["new1", "new2"]
    if recipe == "HRR":
        return "HRR", kw, ["HeatRelease"]
    if recipe == "ENT":
        return "ENT", kw, ["Enthalpy"]
    if recipe == "SRi1":
        kw["species"] = ["O2"]
        return "SRi", kw, ["IRm(O2)"]
    if recipe == "SRi2":
        kw["species"] = list(SP2)
        return "SRi", kw, ["IRm(%s)" % s for s in SP2]
    if recipe == "SDi2":
        kw["species"] = list(SP2)
        return "SDi", kw, ["DI(%s)" % s for s in SP2]
    if recipe == "RRi2":
        kw["reactions"] = list(RX2)
        return "RRi", kw, ["R%d" % r for r in RX2]
    if recipe == "SRiall":
        kw["species"] = ["all"]
        return "SRi", kw, ["IRm(%s)" % s for s in SPECIES]
    if recipe == "SDiall":
        kw["species"] = "all"
        return "SDi", kw, ["DI(%s)" % s for s in SPECIES]
    raise core.MachineryError(recipe)


def close(a, b, thermo):
    if not thermo:
        return np.array_equal(a, b, equal_nan=True)
    scale = max(1.0, float(np.nanmax(np.abs(b)))) if b.size and not np.all(b != b) else 1.0
    return bool(np.all((b != b) | (np.abs(a - b) <= 1e-9 * np.maximum(np.abs(b), 1e-6 * scale) + 1e-300)))


def run_scenario(chk, sc, cfgseed, recipe, flavour="sched", workers=None, pressure=None, serial=None):
    from amr_kitchen.chef import Chef
    from amr_kitchen.taste import Taster
    thermo = thermo_of(recipe)
    rng = random.Random(cfgseed)
    cfg_ = gamma.Config.draw(rng, ndims=3, payload="tame")
    # concrete names of the input's fields: the thermochemical ones for cantera recipes; otherwise drawn from gamma's pools (prefix
    # pairs, parentheses, dots; no blank: kept fields are given as one blank-separated string)
    nm = gamma.names_map(cfgseed, list(sc["fields"]), blanks=False)
    fields = thermo_fields(cfgseed) if thermo else [nm[x] for x in sc["fields"]]
    permuted = thermo and fields != THERMO_FIELDS
    fmap = {1: 1, 2: 2, 3: len(fields)} if len(sc["fields"]) <= 3 else {1: 1, 2: 2, 3: 3, 4: len(fields)}   # abstract -> concrete position
    nmap = {n: fields[fmap[i + 1] - 1] for i, n in enumerate(sc["fields"])}
    nmap["zz"] = "zz" if thermo else nm["zz"]
    ap = compare.ap_from_scenario("A", fields, sc["levels"], ndims=3)
    d = chk.tmp_reuse()
    os.makedirs(d)
    src, out = os.path.join(d, "in"), os.path.join(d, "out")
    # one input in four has level-header extrema that are NOT the extrema of its data (rounded, stale): legal, and the output's
    # rows must still be the true extrema of what is written
    def stale(lv, mins, maxs):
        return ({b: [v - 1.0 for v in row] for b, row in mins.items()} if isinstance(mins, dict) else [[v - 1.0 for v in row] for row in mins],
                {b: [v + 1.0 for v in row] for b, row in maxs.items()} if isinstance(maxs, dict) else [[v + 1.0 for v in row] for row in maxs])
    reg = gamma.write_plotfile(src, ap, cfg_, values=thermo_values(cfgseed, fields) if thermo else None,
                               mm_override=stale if cfgseed % 4 == 1 else None)
    before = alpha.tree_digest(src)
    rarg, kw, newnames = chef_kwargs(recipe, pressure)
    if serial is None:
        serial = bool(sc["serial"])
    kept = " ".join(nmap[k] for k in sc["kept"]) if sc["kept"] else None
    plan, pos = {}, 0
    for l in range(len(sc["levels"])):
        n = len(set(sc["levels"][l]["file"]))
        plan[l + 1] = sc["sched"][pos:pos + n]
        pos += n
    try:
        if flavour == "real":
            # the genuine pathos pool, cached between calls exactly as in production
            with core.quiet():
                ch = Chef(spell.of(src, cfgseed)[0], recipe=rarg, outfile=out, serial=serial, kept_fields=kept, **kw)
                ch.cook()
        else:
            with shims.pool_shim(shims.Scheduler(plan=plan, workers=workers), flavour), core.quiet():
                ch = Chef(spell.of(src, cfgseed)[0], recipe=rarg, outfile=out, serial=serial, kept_fields=kept, **kw)
                ch.cook()
    except Exception as e:
        if permuted and isinstance(e, ValueError) and not os.path.exists(out):
            return None                 # refused before anything was written: the species block is not in mechanism order
        return "chef(%s, kept=%r) raised %s: %s" % (recipe, kept, type(e).__name__, str(e)[:200])
    if alpha.tree_digest(src) != before:
        return "the input plotfile was modified"
    Aout = alpha.abstract(out, reg)
    wf = alpha.wellformed(Aout)
    if wf:
        return "output is not a well-formed plotfile: %s" % "; ".join(wf[:3])
    H = Aout["hdr"]
    ofields = list(H["fields"])
    exp = sc["expect"]
    want_names = sorted(nmap[n] if n in nmap else newnames[int(n[3:]) - 1] for n in exp["names"])
    if sorted(ofields) != want_names or len(set(ofields)) != len(ofields):
        return "fields %r, expected (any order) %r" % (ofields, want_names)
    for l, boxes in enumerate(exp["lev"]):
        C = Aout["lev"][l]
        if len(C["idx"]) != len(boxes):
            return "level %d: %d boxes, expected %d" % (l, len(C["idx"]), len(boxes))
        for bi, eb in enumerate(boxes):
            box = ap["levels"][l]["boxes"][eb["idx"] - 1]
            if C["idx"][bi] != [box["lo"], box["hi"]]:
                return "level %d box %d: index range %r" % (l, bi, C["idx"][bi])
            fn, off = C["fod"][bi]
            fab = alpha.read_fab_at(os.path.join(out, C["dir"], fn), off, reg)
            shape = gamma.box_shape(box)
            inarr = [reg.array_of(("A", l, eb["idx"], fi)) for fi in range(1, len(fields) + 1)]
            if permuted:
                # the independent evaluation takes the arrays by field name (mechanism order)
                inarr = [inarr[fields.index(n)] for n in THERMO_FIELDS]
            newexp = None
            for name, tok in eb["pairs"]:
                if name in nmap:
                    cname = nmap[name]
                    j = ofields.index(cname)
                    want_tok = ["A", tok[1], tok[2], fmap[tok[3]]]
                    if fab["comps"][j] != want_tok:
                        return "level %d box %d: component stored under %r is %r, expected the input's %r" % (
                            l, bi, cname, fab["comps"][j], want_tok)
                else:
                    jn = int(name[3:]) - 1
                    cname = newnames[jn]
                    j = ofields.index(cname)
                    if newexp is None:
                        newexp = new_expected(recipe, inarr, shape, thermo, pressure)
                    got = fab["arrays"][j].reshape(shape, order="F")
                    if not close(got, newexp[jn], thermo):
                        k = np.unravel_index(np.argmax(np.abs(got - newexp[jn])), shape)
                        return "level %d box %d: field %r is not the recipe evaluated on this box (cell %r: %r vs %r)" % (
                            l, bi, cname, tuple(int(x) for x in k), float(got[k]), float(newexp[jn][k]))
            # min/max rows = true extrema of the written data
            for j in range(len(ofields)):
                a = fab["arrays"][j]
                for which, fun in (("mins", np.min), ("maxs", np.max)):
                    hv = C[which][bi][j]
                    tv = float(fun(a))
                    if not (compare.same_float(hv, tv) or hv == tv or (hv != hv and tv != tv)):
                        return "level %d box %d: %s[%r] = %r, true extremum of the written data %r" % (
                            l, bi, which, ofields[j], hv, tv)
    Cin = alpha.content(alpha.abstract(src, reg))
    diff = compare.compare_meta(alpha.content(Aout), Cin, len(sc["levels"]))
    if diff:
        return diff
    try:
        with shims.pool_shim(shims.Scheduler()), core.quiet():
            good = bool(Taster(out, nofail=True, verbose=0))
    except Exception as e:
        return "taste raised on the output: %r" % e
    if not good:
        return "taste rejects the output"
    return None


def run_histories(chk, scenarios):
    """ChefCache.tla: histories of cooks in ONE process with the real, cached pathos pool."""
    r = chk.add_tlc(tlc.run("ChefCache", {"INIT": "Init", "NEXT": "Next",
                                          "CONSTANTS": {"MaxCooks": 2 if chk.tier == "quick" else 3, "ClearPolicy": '"always"'},
                                          "INVARIANTS": ["EveryCookUsesItsOwnState", "Emit"]}, workers=4, timeout=600),
                    "process-level pool cache histories")
    if r.violated:
        chk.note_drift("TLC: %s violated in ChefCache.tla" % r.violated)
    def pick(cells):
        for s in sorted(scenarios, key=core.jdump):
            if [L["cells"] for L in s["levels"]] == cells and s["nnew"] == 1 and s["kept"] == [] and len(set(s["levels"][0]["file"])) == len(cells[0]):
                return s
        raise core.MachineryError("no C11 scenario with cells %r" % (cells,))
    # P's box shape is one of Q's two; the thermodynamic setting (pressure) is a dimension of its own
    inputs = {"P": pick([[2]]), "Q": pick([[2, 3]])}
    pressures = {1: 1.5, 2: 0.8}
    hs = [h["hist"] for h in r.emitted if any(c["parallel"] for c in h["hist"][1:])]
    hs.sort(key=core.jdump)
    if chk.tier == "quick":
        # the histories in which a cached pool could serve a later cook: every one whose first two cooks are parallel,
        # and every third of the others
        hs = [h for k, h in enumerate(hs) if (h[0]["parallel"] and h[1]["parallel"]) or k % 3 == 0]
    for h in hs:
        for k, c in enumerate(h):
            sc, pres = inputs[c["input"]], pressures[c["param"]]
            v = run_scenario(chk, sc, 1000 + k, "HRR", flavour="real", pressure=pres, serial=not c["parallel"])
            if v:
                break
        sig = util.sig_str("history", [[c["input"], c["param"], "parallel" if c["parallel"] else "serial"] for c in h])
        chk.executed(sig, True, sample={"history": h})
        chk.traces += 1
        if v:
            chk.violation(sig, "cook %d of the history %s in one process: %s" % (k + 1, core.jdump(h), v), {"history": h})


RECIPE_TEXT = {
    "A": 'def recipe(field_indexes, box_array):\n    """new1"""\n    k = list(field_indexes)\n    return box_array[..., field_indexes[k[0]]] * 2.0 + box_array[..., field_indexes[k[1]]]\n',
    "B": 'def recipe(field_indexes, box_array):\n    """new1"""\n    k = list(field_indexes)\n    return box_array[..., field_indexes[k[0]]] - 3.0 * box_array[..., field_indexes[k[1]]]\n',
}


def recipe_histories(chk, only=None):
    """RecipeCache.tla: histories of cooks with two recipe FILES of the same file name and different contents, in one process,
    with the real (cached) pathos pool: every cook must evaluate the file it was given."""
    from amr_kitchen.chef import Chef
    r = chk.add_tlc(tlc.run("RecipeCache", {"INIT": "Init", "NEXT": "Next",
                                            "CONSTANTS": {"MaxCooks": 2 if chk.tier == "quick" else 3, "ImportPolicy": '"exec-file"',
                                                          "Transport": '"by-value"'},
                                            "INVARIANTS": ["EveryCookEvaluatesItsOwnFile", "Emit"]}, workers=2, timeout=300),
                    "recipe files of the same name (RecipeCache)")
    if r.violated:
        chk.note_drift("TLC: %s violated in RecipeCache.tla" % r.violated)
    if not r.emitted:
        raise core.MachineryError("RecipeCache emitted no histories")
    base = chk.tmp()
    os.makedirs(base)
    files = {}
    for f, txt in RECIPE_TEXT.items():
        os.makedirs(os.path.join(base, "case_" + f))
        files[f] = os.path.join(base, "case_" + f, "recipe.py")
        open(files[f], "w").write(txt)
    rng = random.Random(chk.seed + 11)
    cfg_ = gamma.Config.draw(rng, ndims=3, payload="tame")
    ap = gamma.make_ap("A", ["p", "q", "r"], [[1, 2, 1], [2, 1]],
                       [{"file": [1, 2, 1], "disk": {"1": [3, 1], "2": [2]}}, {"file": [1, 2], "disk": {"1": [1], "2": [2]}}], ndims=3)
    src = os.path.join(base, "plt00100")
    reg = gamma.write_plotfile(src, ap, cfg_)
    hs = sorted((h["hist"] for h in r.emitted), key=core.jdump)
    if only is not None:
        hs = [only]
    for hi, h in enumerate(hs):
        v = None
        for k, c in enumerate(h):
            out = os.path.join(base, "out_%d_%d" % (hi, k))
            import signal

            def _late(signum, frame):
                raise TimeoutError("the cook did not come back within 90 s")
            old_h = signal.signal(signal.SIGALRM, _late)
            signal.alarm(90)
            try:
                with core.quiet():
                    Chef(src, recipe=files[c["file"]], outfile=out, serial=not c["parallel"]).cook()
            except TimeoutError as e:
                v = "cook %d (%s, %s) of the history %s: %s" % (k + 1, c["file"], "parallel" if c["parallel"] else "serial", core.jdump(h), e)
                hung = True
                break
            except Exception as e:
                v = "cook %d (%s, %s) raised %s: %s" % (k + 1, c["file"], "parallel" if c["parallel"] else "serial", type(e).__name__, str(e)[:150])
                break
            finally:
                signal.alarm(0)
                signal.signal(signal.SIGALRM, old_h)
            A = alpha.abstract(out)
            wf = alpha.wellformed(A)
            if wf or "new1" not in A["hdr"]["fields"]:
                v = "cook %d: output malformed or without the field new1: %s %r" % (k + 1, "; ".join(wf[:2]), A.get("hdr", {}).get("fields"))
                break
            j = A["hdr"]["fields"].index("new1")
            for l, C in enumerate(A["lev"]):
                for bi, (idx, (fn, off)) in enumerate(zip(C["idx"], C["fod"])):
                    b = [bx for bx, box in enumerate(ap["levels"][l]["boxes"]) if [box["lo"], box["hi"]] == idx][0]
                    x0 = reg.array_of(("A", l, b + 1, 1))
                    x1 = reg.array_of(("A", l, b + 1, 2))
                    want = {"A": x0 * 2.0 + x1, "B": x0 - 3.0 * x1}
                    got = alpha.read_fab_at(os.path.join(out, C["dir"], fn), off)["arrays"][j]
                    if not np.array_equal(got, want[c["file"]]):
                        other = [f for f in want if f != c["file"] and np.array_equal(got, want[f])]
                        v = "cook %d of the history %s: the new field of level %d box %d is not the recipe of file %s evaluated on the box%s" % (
                            k + 1, core.jdump(h), l, bi, c["file"], " -- it is the recipe of file %s (same file name, other directory)" % other[0] if other else "")
                        break
                if v:
                    break
            if v:
                break
        sig = util.sig_str("recipe-history", [[c["file"], "parallel" if c["parallel"] else "serial"] for c in h])
        chk.executed(sig, True, sample={"history": h})
        chk.traces += 1
        if v:
            chk.violation(sig, v, {"recipe_history": h})
            if locals().get("hung"):
                break              # the cached pool is wedged: nothing after this would be judged fairly
    if only is None and not locals().get("hung"):
        cwd_history(chk)


def cwd_history(chk):
    """PoolEnv.tla with chef's GENUINE cached pathos pool: parallel cooks of plotfiles typed under ONE relative name (input and
    output) from different working directories in one process.  Every cook must write, under ITS directory's output name, the
    recipe evaluated on ITS directory's plotfile, and leave the other directories' outputs as they are."""
    from amr_kitchen.chef import Chef
    import signal
    base = chk.tmp()
    os.makedirs(base)
    rfile = os.path.join(base, "recipe.py")
    open(rfile, "w").write(RECIPE_TEXT["A"])
    rng = random.Random(chk.seed + 23)
    regs, aps = {}, {}
    names = ["run_a", "run_b", "run_c"]
    for i, dn in enumerate(names):
        cfg_ = gamma.Config.draw(random.Random(chk.seed + 23), ndims=3, payload="tame")
        cfg_.seed = chk.seed + 1000 * (i + 1)
        aps[dn] = gamma.make_ap("A", ["p", "q", "r"], [[1, 2, 1], [2, 1]],
                                [{"file": [1, 2, 1], "disk": {"1": [3, 1], "2": [2]}}, {"file": [1, 2], "disk": {"1": [1], "2": [2]}}], ndims=3)
        os.makedirs(os.path.join(base, dn))
        regs[dn] = gamma.write_plotfile(os.path.join(base, dn, "plt00100"), aps[dn], cfg_)
    order = ["run_a", "run_b", "run_a", "run_c"]
    old_cwd = os.getcwd()
    v = None
    digests = {}
    try:
        for k, dn in enumerate(order):
            os.chdir(os.path.join(base, dn))
            out = "cooked_%d" % k

            def _late(signum, frame):
                raise TimeoutError("the cook did not come back within 90 s")
            old_h = signal.signal(signal.SIGALRM, _late)
            signal.alarm(90)
            try:
                with core.quiet():
                    Chef("plt00100", recipe=rfile, outfile=out, serial=False).cook()
            except Exception as e:
                v = "cook %d (parallel, ./plt00100 -> ./%s in directory %s) raised %s: %s" % (k + 1, out, dn, type(e).__name__, str(e)[:150])
                break
            finally:
                signal.alarm(0)
                signal.signal(signal.SIGALRM, old_h)
            outp = os.path.join(base, dn, out)
            A = alpha.abstract(outp)
            wf = alpha.wellformed(A)
            if wf or "new1" not in A["hdr"]["fields"]:
                v = "cook %d (parallel, ./plt00100 -> ./%s in directory %s, after cooks in %r): the output is not a well-formed plotfile with the field new1: %s" % (
                    k + 1, out, dn, order[:k], "; ".join(wf[:2]))
                break
            j = A["hdr"]["fields"].index("new1")
            ap, reg = aps[dn], regs[dn]
            for l, C in enumerate(A["lev"]):
                for bi, (idx, (fn, off)) in enumerate(zip(C["idx"], C["fod"])):
                    b = [bx for bx, box in enumerate(ap["levels"][l]["boxes"]) if [box["lo"], box["hi"]] == idx][0]
                    want = reg.array_of(("A", l, b + 1, 1)) * 2.0 + reg.array_of(("A", l, b + 1, 2))
                    got = alpha.read_fab_at(os.path.join(outp, C["dir"], fn), off)["arrays"][j]
                    if not np.array_equal(got, want):
                        v = "cook %d (parallel, ./plt00100 in directory %s, after cooks in %r): the new field of level %d box %d is not the recipe evaluated on THIS directory's plotfile" % (
                            k + 1, dn, order[:k], l, bi)
                        break
                if v:
                    break
            if v:
                break
            for (d0, o0), dg in digests.items():
                if alpha.tree_digest(os.path.join(base, d0, o0)) != dg:
                    v = "cook %d (in directory %s) changed the output %s/%s of an earlier cook" % (k + 1, dn, d0, o0)
                    break
            if v:
                break
            digests[(dn, out)] = alpha.tree_digest(outp)
    finally:
        os.chdir(old_cwd)
    sig = util.sig_str("chef-cwd-history", order)
    chk.executed(sig, True, sample={"order": order})
    chk.traces += 1
    if v:
        chk.violation(sig, v, {"chef_cwd_history": True}, klass="chef-cwd-history")


def selection_phase(chk, scenarios):
    """ChefSel.tla: every duplicate-free selection (in any order) of species / reactions for SRi, SDi, RRi."""
    r = chk.add_tlc(tlc.run("ChefSel", {"INIT": "Init", "NEXT": "Next", "CONSTANTS": {"NS": 5, "MaxSel": 3, "IndexMode": '"list"'},
                                        "INVARIANTS": ["OwnName", "Emit"]}, workers=4, timeout=600), "species / reaction selections")
    if r.violated:
        chk.note_drift("TLC: %s violated in ChefSel.tla" % r.violated)
    sels = [e for e in r.emitted if isinstance(e, dict) and e.get("prop") == "ChefSel"]
    if not sels:
        raise core.MachineryError("TLC emitted no selection")
    # abstract species 1..5 -> a consecutive block of the mechanism (so that "consecutive" selections are consecutive there)
    block = SPECIES[1:6]                       # H, O, O2, OH, H2O
    rblock = [2, 3, 4, 5, 6]                   # five consecutive reactions
    by_n = {}
    for sc in sorted(scenarios, key=core.jdump):
        if sc["kept"] in ([], ["a"]) and len(sc["levels"]) == 1:
            by_n.setdefault(sc["nnew"], []).append(sc)
    sels.sort(key=core.jdump)
    chosen = util.select(sels, 24 if chk.tier == "quick" else 400, chk.rng)
    for i, e in enumerate(chosen):
        sel = list(e["sel"])
        fam = ["SRi", "SDi", "RRi"][i % 3]
        recipe = "%s@%s" % (fam, ",".join(str(rblock[k - 1]) if fam == "RRi" else block[k - 1] for k in sel))
        base = by_n.get(len(sel))
        if not base:
            raise core.MachineryError("no C11 scenario adding %d components" % len(sel))
        sc = base[i % len(base)]
        cfgseed = chk.rng.randrange(1 << 30)
        v = run_scenario(chk, sc, cfgseed, recipe)
        sigs = util.sig_str("selection", fam, e["sig"])
        chk.executed(sigs, True, sample={"recipe": recipe})
        chk.traces += 1
        if v:
            chk.violation(sigs, v, {"sc": sc, "cfgseed": cfgseed, "recipe": recipe, "sigs": sigs})


def pick_recipe(nnew, i, tier):
    fam = [r for r, (n, t) in sorted(RECIPES.items()) if n == nnew]
    if not fam and nnew == 3:
        return ["SRi@OH,H,O2", "SDi@H2O,O,H", "RRi@5,1,3"][i % 3]
    plain = [r for r in fam if not RECIPES[r][1]]
    if not plain:
        return fam[i % len(fam)]
    # one scenario in three goes through cantera
    if i % 3 == 2:
        th = [r for r in fam if RECIPES[r][1]]
        return th[(i // 3) % len(th)]
    return plain[(i // 3) % len(plain)]


def run(chk, replay):
    _run(chk, replay)
    if not replay:
        # the working directory changes between runs on plotfiles typed under a relative name (PoolEnv.tla)
        from harness import poolenv
        poolenv.tool_phase(chk, "chef")


def _run(chk, replay):
    chk.rule = ("behaviours of Chef.tla emitted by TLC (layout x #new components x kept list x serial/parallel x completion "
                "order), each replayed with a recipe of that arity (user file / callable / solution-array / built-in HRR, ENT, "
                "SRi, SDi, RRi); signature = (levels, #new, kept class, serial, per-level layout class, finish class, recipe); "
                "trivial = (1 level, no kept field, one file mono, fifo, user recipe u1)")
    chk.assumptions = ["cantera evaluated cell by cell through a scalar Solution is the reference for built-in recipes (rtol 1e-9)",
                       "generated thermochemical states are physical (400-2400 K, positive normalised Y): the code's cleaning of zero states never triggers"]
    if replay and replay["scenario"].get("chef_cwd_history"):
        return cwd_history(chk)
    if replay and replay["scenario"].get("recipe_history"):
        chk.executed("replay")
        return recipe_histories(chk, only=replay["scenario"]["recipe_history"])
    if replay:
        s = replay["scenario"]
        v = run_scenario(chk, s["sc"], s["cfgseed"], s["recipe"])
        chk.executed("replay")
        if v:
            chk.violation(s["sigs"], v, s)
        return
    scenarios = []
    for what, c in models(chk.tier):
        r = chk.add_tlc(tlc.run("MC_C11", c, timeout=2400), what)
        if r.violated:
            chk.note_drift("TLC: %s violated in model '%s'" % (r.violated, what))
        scenarios += r.emitted
    if not scenarios:
        raise core.MachineryError("TLC emitted no behaviours")
    cap = 900 if chk.tier == "quick" else 5000
    chosen = util.select(scenarios, cap, chk.rng)
    chk.exhaustive = len(chosen) == len(scenarios)
    for i, sc in enumerate(chosen):
        recipe = pick_recipe(sc["nnew"], i, chk.tier)
        cfgseed = chk.rng.randrange(1 << 30)
        v = run_scenario(chk, sc, cfgseed, recipe)
        sigs = util.sig_str(sc["sig"], recipe)
        s = sc["sig"]
        triv = s[0] == 1 and s[2] == "none" and s[4] == [[1, "mono"]] and s[5] == "fifo-finish" and recipe == "u1"
        chk.executed(sigs, not triv, sample={"levels": sc["levels"], "kept": sc["kept"], "nnew": sc["nnew"],
                                             "serial": sc["serial"], "sched": sc["sched"], "recipe": recipe})
        chk.traces += 1
        if v:
            chk.violation(sigs, v, {"sc": sc, "cfgseed": cfgseed, "recipe": recipe, "sigs": sigs})
    run_histories(chk, scenarios)
    recipe_histories(chk)
    selection_phase(chk, scenarios)
    # code -> spec: cooks (user recipe, serial and parallel) recorded on large generated plotfiles (Chef!CookSpecG in OpTrace.tla)
    from harness import optrace
    optrace.phase(chk, ["cook", "cook", "strain"], "chef on large inputs", 40, 400, twod=False, nops=3)
    # the command line layer (spec/Cli.tla): every subset of the tool's options typed to the real main(), API intercepted
    from harness import cli
    cli.phase(chk, "chef")
