"""
C04 -- taste rejects missing, truncated, shifted or inconsistent plotfile data.
C03 -- taste accepts every well-formed plotfile under every option combination.
C20 -- whatever taste accepts, the reader can read completely and consistently.

One model (Taste.tla / MC_Taste.tla), three invariants; see checks/taste_common.py.
Decider: TLC explores base plotfiles x every corruption kind at every site (singly and in
pairs) x options x limit x mode, checks RejectsDamaged / AcceptsWellFormed / AcceptedIsReadable
on the validator's implementation-shaped steps, and emits every terminal state together with
the requirement-layer values Damaged / BoundsDamaged / WellFormed.  Each emitted state is
concretised byte for byte and judged by the real Taster (and, for C20, the real reader).
"""
from checks import taste_common as T
from harness import core, tlc, util
from harness import spell


def models(tier, prop):
    if prop == "C03":
        q = [("well-formed x 16 option sets", T.cfg(3, 0, [], optmode="all16"))]
        if tier == "thorough":
            q = [("well-formed x 16 option sets", T.cfg(4, 0, [], optmode="all16", maxfile=3))]
        return q
    kinds = T.KINDS_C04 if prop == "C04" else T.KINDS_C20
    if tier == "quick":
        return [("singles", T.cfg(3, 1, kinds)),
                ("pairs (2 boxes, line/offset kinds)",
                 T.cfg(2, 2, ["CellHIdx", "FodOffset", "FodFile", "FabIdx", "DropFodLine", "Truncate"] +
                       (["FabBlanks"] if prop == "C20" else [])))]
    return [("singles", T.cfg(3, 1, kinds)),
            ("pairs (2 boxes, all kinds)", T.cfg(2, 2, kinds)),
            ("pairs (3 boxes, line/offset kinds)",
             T.cfg(3, 2, ["CellHIdx", "FodOffset", "FodFile", "FabIdx"] + (["FabBlanks"] if prop == "C20" else [])))]


def judge(chk, prop, sc, cfgseed, ndims, style):
    """Returns (violation text | None, observed)."""
    d, ap, reg = T.concretise(chk, sc, cfgseed, ndims, style)
    ds = spell.of(d, cfgseed)[0]          # the directory as a user may type it (PathRes.tla)
    obs = T.taste(ds, sc)
    e = sc["expect"]
    o = sc["opts"]
    default = o["hdr"] and o["shape"] and not o["data"]
    if (obs["verdict"], obs["raised"]) != (e["model_verdict"], e["model_raised"]):
        chk.note_drift("Taste.tla predicts %s/raised=%s, code gives %s/raised=%s for %s" % (
            e["model_verdict"], e["model_raised"], obs["verdict"], obs["raised"], core.jdump(sc["applied"])[:200]))
    if prop == "C03":
        if e["wellformed"] and (obs["verdict"] != "good" or obs["raised"]):
            return "well-formed plotfile reported %s (raised=%s %s) with options %s limit %d nofail=%s" % (
                obs["verdict"], obs["raised"], obs.get("exc", ""), core.jdump(o), sc["lim"], sc["nofail"]), obs
        return None, obs
    if prop == "C04":
        dmg = e["damaged"] or (o["coords"] and e["bounds_damaged"])
        if default and dmg:
            if obs["verdict"] != "bad":
                return "damaged plotfile (%s) reported good" % core.jdump(sc["applied"])[:300], obs
            if obs["raised"] != (not sc["nofail"]):
                return "damaged plotfile (%s): raised=%s in %s mode" % (
                    core.jdump(sc["applied"])[:200], obs["raised"], "non-failing" if sc["nofail"] else "failing"), obs
        return None, obs
    if prop == "C20":
        if style.get("hdrgeo") is not None:
            # the global header's geometry lines damaged so that every line still parses on its own (a value missing from the
            # lower / upper corner or from a cell-size line, a level missing from the domain line, a domain given upper corner
            # first): whatever the validator says about it, "accepted" must still mean "readable"
            damage_header_geometry(d, style["hdrgeo"], ndims)
            obs = T.taste(ds, sc)
        if default and not o["coords"] and obs["verdict"] == "good":
            v = T.read_consistency(d, sc, ndims, open_as=ds)
            if v:
                return "%s after %s" % (v, core.jdump(sc["applied"])[:200]), obs
        return None, obs
    raise core.MachineryError(prop)


def damage_header_geometry(d, kind, ndims):
    import os
    import re
    hp = os.path.join(d, "Header")
    lines = open(hp, encoding="utf-8").read().split("\n")
    nf = int(lines[1])
    base = 2 + nf               # index of the dimension line
    nlev = int(lines[base + 2]) + 1
    i_lo, i_hi, i_dom, i_dx = base + 3, base + 4, base + 6, base + 8
    kind = kind % 5
    if kind == 0:
        lines[i_lo] = " ".join(lines[i_lo].split()[:-1])
    elif kind == 1:
        lines[i_hi] = " ".join(lines[i_hi].split()[:-1])
    elif kind == 2:
        k = i_dx + (nlev - 1)
        lines[k] = " ".join(lines[k].split()[:-1])
    elif kind == 3 and nlev > 1:
        doms = re.findall(r"\(\([^()]*\) \([^()]*\) \([^()]*\)\)", lines[i_dom])
        lines[i_dom] = " ".join(doms[:-1])
    else:
        doms = re.findall(r"\(\(([^()]*)\) \(([^()]*)\) \(([^()]*)\)\)", lines[i_dom])
        lines[i_dom] = " ".join("((%s) (%s) (%s))" % (b if n == 0 else a, a if n == 0 else b, c) for n, (a, b, c) in enumerate(doms))
    open(hp, "w", encoding="utf-8").write("\n".join(lines))


def klass_of(prop, sc):
    """Scenario class used for known-finding matching (from the input only)."""
    o = sc["opts"]
    if prop == "C03" and o["data"] and not (o["hdr"] and o["shape"]):
        return "options:binary_data-with-headers-or-shape-off"
    return None


def nontrivial(prop, sc):
    if prop == "C03":
        return sc["opts"] != {"hdr": True, "shape": True, "data": False, "coords": False} or sc["lim"] > 0
    return len(sc["applied"]) > 0


def run_prop(chk, replay, prop):
    chk.rule = ("terminal states of MC_Taste.tla emitted by TLC (base layout x corruption(s) x options x limit x mode), each "
                "concretised byte for byte and judged by the real Taster; signature = (corruption kinds, validated-level/above-limit, "
                "#boxes, #files, options, mode, ndims, text style); trivial = no corruption with default options at limit 0")
    chk.assumptions = ["inserted / foreign payload bytes are non-ASCII binary data, never a parseable FAB header",
                       "corrupted box bounds are off by one whole cell"]
    if replay:
        s = replay["scenario"]
        v, obs = judge(chk, prop, s["sc"], s["cfgseed"], s["ndims"], s["style"])
        chk.executed("replay")
        if v:
            chk.violation(s["sigs"], v, s, klass=klass_of(prop, s["sc"]))
        return
    scenarios = []
    for what, c in models(chk.tier, prop):
        r = chk.add_tlc(tlc.run("MC_Taste", c, timeout=3000), what)
        if r.violated:
            chk.note_drift("TLC: %s violated in model '%s'" % (r.violated, what))
        scenarios += r.emitted
    if not scenarios:
        raise core.MachineryError("TLC emitted no scenarios")
    if prop == "C04":
        scenarios = [s for s in scenarios if s["expect"]["damaged"] or s["expect"]["bounds_damaged"]]
    elif prop == "C20":
        o0 = {"hdr": True, "shape": True, "data": False, "coords": False}
        scenarios = [s for s in scenarios if s["opts"] == o0]
    cap = {"C03": 1500, "C04": 3000, "C20": 3000}[prop] if chk.tier == "quick" else 60000
    # damaged states that a validator lacking ONE of taste's rules (first-header comparison, offset sorting,
    # end-of-file rule) would accept are always replayed: they are where a weakened validator shows
    fragile, counts = [], {}
    if prop in ("C04", "C20"):
        for rule in ("first-header", "offset-sort", "eof-rule"):
            grp = [s for s in scenarios if rule in (s.get("fragile") or [])]
            counts[rule] = len(grp)
            chk.rng.shuffle(grp)
            fragile += grp[:cap // 6]
    # ... and the redirections onto the header of another box (told only by comparing index ranges), for the far index spaces
    redirects = [s for s in scenarios if T.is_redirect(s)] if prop in ("C04", "C20") else []
    chk.rng.shuffle(redirects)
    redirects = redirects[:cap // 12]
    redirect_ids = set(id(s) for s in redirects)
    fragile += redirects
    ids = set(id(s) for s in fragile)
    fragile = [s for i, s in enumerate(fragile) if id(s) not in set(id(x) for x in fragile[:i])]
    chosen = fragile + util.select([s for s in scenarios if id(s) not in ids], cap - len(fragile), chk.rng)
    chk.extra["fragile_states"] = {"by_rule_in_model": counts, "replayed": len(fragile)}
    chk.exhaustive = len(chosen) == len(scenarios)
    styles = [{}, {"offset_text": "plus"}, {"offset_text": "zero"}, {"fod_blanks": True}, {"ishift": True}]

    def one_unit_length_error(sc):
        a = sc.get("applied") or []
        return len(a) == 1 and a[0].get("k") in ("Truncate", "Extend") and a[0].get("u") == 1
    for i, sc in enumerate(chosen):
        ndims = 2 if i % 4 == 1 else 3
        style = styles[i % len(styles)] if prop == "C20" else ({"payload": "wild"} if prop == "C03" and i % 2 else {})
        if prop == "C03" and i % 4 == 2 and not sc["opts"]["coords"]:
            style = {"ishift": True}          # index spaces that do not start at 0, also far from it (long header lines)
        if prop == "C04" and i % 5 == 4 and not sc["opts"]["coords"]:
            style = {"ishift": True}
        if prop in ("C04", "C20") and one_unit_length_error(sc) and i % 3 != 0:
            style = {"ragged": True}          # a length error of less than one value (taste_common.concretise)
        if prop in ("C04", "C20") and not style and any(a.get("k") == "DeleteFile" for a in (sc.get("applied") or [])) and i % 2 == 0:
            style = {"ghost": True}           # the deleted file keeps a directory entry (dangling link / directory of that name)
        if prop in ("C03", "C04") and ndims == 3 and not style and i % 61 == 7 and not sc["opts"]["data"]:
            style = {"far": True}             # recorded positions beyond 2**31 (a sparse box of zeros of more than 2 GiB in front)
        if prop == "C20" and not style and not (sc.get("applied") or []) and i % 3 == 0:
            style = {"hdrgeo": i // 3}        # geometry lines of the global header damaged (every line still parses)
        if id(sc) in redirect_ids and not sc["opts"]["coords"] and i % 2 == 0:
            style = {"ishift": "far"}
        if prop in ("C04", "C20") and (not style or prop == "C20") and not sc["opts"]["coords"] and i % 3 == 1 and \
                {a.get("k") for a in (sc.get("applied") or [])} & {"FodOffset", "FodFile", "CellHIdx", "FabIdx"}:
            style = {"ishift": "far"}         # redirected boxes in an index space a hundred thousand cells from 0
        if i % 9 == 4 and not style:
            style = {"crowd": True}           # hundreds of further boxes in front of the modelled ones, in the same files
        cfgseed = chk.rng.randrange(1 << 30)
        v, obs = judge(chk, prop, sc, cfgseed, ndims, style)
        sigs = T.sig_of(sc, ndims, style)
        chk.executed(sigs, nontrivial(prop, sc),
                     sample={"lay": sc["lay"], "applied": sc["applied"], "opts": sc["opts"], "lim": sc["lim"],
                             "nofail": sc["nofail"], "observed": obs})
        chk.traces += 1
        if v:
            chk.violation(sigs, v, {"sc": sc, "cfgseed": cfgseed, "ndims": ndims, "style": style, "sigs": sigs},
                          klass=klass_of(prop, sc))


def run(chk, replay):
    run_prop(chk, replay, "C04")
    if not replay:
        # the working directory changes between validations of plotfiles typed under a relative name; every second directory
        # holds a DAMAGED plotfile, which must be reported bad whatever was validated before (PoolEnv.tla)
        from harness import poolenv
        poolenv.tool_phase(chk, "taste")
