"""
C02 -- opening a plotfile exposes exactly the metadata its headers state.

Decider: TLC checks MC_C02.tla (constructor steps vs MetaSpec) for every level count, field list
(incl. repeated names), level limit and opening mode, and emits each scenario with MetaSpec's
value (which keys, how many levels of boxes / cell headers / min-max tables, or refusal).  Each
scenario is replayed: gamma writes a plotfile with that shape under a random configuration
(2D/3D, origin, anisotropy, header style, layout), the real PlotfileCooker opens it, and its
public attributes are compared with what an independent parser (alpha) reads from the headers,
restricted to what MetaSpec says must be exposed.
"""
import os
import random
import shutil

import numpy as np

from harness import alpha, compare, core, gamma, shims, tlc, util
from harness import spell
from harness import keys as hkeys

NOLIMIT = 99


def models(tier):
    if tier == "quick":
        return [("meta", {"Alphabet": '{"a","b","a_2"}', "MaxFields": 3, "MaxLev": 3, "MaxBox": 2})]
    return [("meta", {"Alphabet": '{"a","b","c","a_2"}', "MaxFields": 4, "MaxLev": 4, "MaxBox": 3})]


def rand_layout(rng, nb, maxfile=3):
    file = [rng.randint(1, maxfile) for _ in range(nb)]
    used = sorted(set(file))
    file = [used.index(f) + 1 for f in file]
    disk = {}
    for b, f in enumerate(file, 1):
        disk.setdefault(str(f), []).append(b)
    for f in disk:
        rng.shuffle(disk[f])
    return {"file": file, "disk": disk}


def feq(a, b):
    return compare.same_float(float(a), float(b)) or (a == b)


def seq_eq(a, b):
    a, b = list(a), list(b)
    return len(a) == len(b) and all(feq(x, y) for x, y in zip(a, b))


def grids_ok(pck, H, L, ndims, numfmt="repr"):
    """The cell-centre coordinates the reader derives for every level and axis (`grids`) and the box centres (`box_centers`) are
    those of the geometry the header states: grid point i of level l sits at geo_low + dx[l] * (i + 1/2)."""
    grids = getattr(pck, "grids", None)
    if grids is not None:
        if len(grids) != L + 1:
            return "grids of %d levels exposed, %d levels are open" % (len(grids), L + 1)
        for l in range(L + 1):
            for dd in range(ndims):
                n = H["domains"][l][1][dd] - H["domains"][l][0][dd] + 1
                lo, hi, dx = H["geo_lo"][dd], H["geo_hi"][dd], H["dx"][l][dd]
                want = lo + dx * (np.arange(n) + 0.5)
                got = np.asarray(grids[l][dd], dtype=float)
                tol = 1e-9 * abs(dx) if numfmt == "repr" else 2e-5 * max(abs(lo), abs(hi), hi - lo)
                if got.shape != want.shape or not np.all(np.abs(got - want) <= tol):
                    k = int(np.argmax(np.abs(got - want))) if got.shape == want.shape else 0
                    return "grids[%d][%d] has %d points, point %d at %r; the header's level-%d cell centres are %d points, that one at %r" % (
                        l, dd, got.shape[0], k, float(got[k]) if got.size else None, l, n, float(want[k]))
    bc = getattr(pck, "box_centers", None)
    if bc is not None and hasattr(pck, "boxes"):
        for l in range(min(len(bc), len(pck.boxes))):
            for b, (c, box) in enumerate(zip(bc[l], pck.boxes[l])):
                for dd in range(ndims):
                    mid = 0.5 * (box[dd][0] + box[dd][1])
                    if not abs(c[dd] - mid) <= 1e-9 * max(abs(box[dd][1] - box[dd][0]), 1e-300):
                        return "box_centers[%d][%d][%d] = %r, the box spans %r" % (l, b, dd, c[dd], box[dd])
    return None


def run_scenario(chk, sc, cfgseed, ndims):
    from amr_kitchen import PlotfileCooker
    rng = random.Random(cfgseed)
    cfg = gamma.Config.draw(rng, ndims=ndims, payload=rng.choice(["tame", "wild"]), numfmt="g6" if cfgseed % 4 == 0 else ("e16" if cfgseed % 4 == 2 else "repr"))
    classes = [[rng.choice([1, 2]) for _ in range(nb)] for nb in sc["nbs"]]
    layouts = [rand_layout(rng, nb) for nb in sc["nbs"]]
    ap = gamma.make_ap("A", hkeys.concrete_names(sc["names"], cfgseed), classes, layouts, ndims=ndims, time=cfg.time)
    if cfgseed % 5 == 0:
        # an index space that does not start at 0 (the domain boxes of the header give both corners)
        gamma.shift_indices(ap, [[-8, -3, -16], [-4, 0, -1], [5, -2, 0], [1000, 20000, 300000], [-100000, 4096, 65536]][(cfgseed // 5) % 5])
    d = os.path.join(chk.tmp_reuse(), "p")
    os.makedirs(os.path.dirname(d))
    reg = gamma.write_plotfile(d, ap, cfg)
    if cfgseed % 5 == 2:
        gamma.add_stale_files(d, ap, cfg, cfgseed)          # left-overs of an earlier, larger plotfile in the same directory
    A = alpha.abstract(d, reg)
    if alpha.wellformed(A):
        raise core.MachineryError("gamma/alpha self-check failed: %r" % alpha.wellformed(A)[:2])
    H = A["hdr"]
    mode = sc["mode"]
    if mode == "header_only":
        for l in range(sc["nlev"]):
            shutil.rmtree(os.path.join(d, "Level_%d" % l))
    lim = None if sc["limit"] == NOLIMIT else sc["limit"]
    exp = sc["expect"]
    try:
        with core.quiet():
            pck = PlotfileCooker(spell.of(d, cfgseed)[0], limit_level=lim, header_only=(mode == "header_only"),
                                 maxmins=(mode == "maxmins"))
    except Exception as e:
        if exp["k"] == "err":
            return None
        return "open(limit=%r, mode=%s) raised %s: %s" % (lim, mode, type(e).__name__, str(e)[:200])
    if exp["k"] == "err":
        return "limit_level=%r above the finest level %d was accepted" % (lim, sc["nlev"] - 1)
    # ---- field keys
    keys = list(pck.fields.keys())
    v = hkeys.keys_ok(H["fields"], keys)           # KeysOk of FieldKeys.tla on the observed keys
    if v:
        return v
    if len(keys) != exp["nfields"]:
        return "exposes %d fields, header states %d" % (len(keys), exp["nfields"])
    for i, k in enumerate(keys):
        if pck.fields[k] != i:
            return "field key %r maps to component %r, expected %d" % (k, pck.fields[k], i)
    # ---- global metadata
    L = exp["limit"]
    checks = [("ndims", pck.ndims == H["ndims"]),
              ("time", feq(pck.time, H["time"])),
              ("max_level", pck.max_level == exp["finest"]),
              ("limit_level", pck.limit_level == L),
              ("geo_low", seq_eq(pck.geo_low, H["geo_lo"])),
              ("geo_high", seq_eq(pck.geo_high, H["geo_hi"]))]
    for name, ok in checks:
        if not ok:
            return "attribute %s = %r does not match the header" % (name, getattr(pck, name))
    if exp["finest"] >= 0 and [int(x) for x in pck.factors] != H["ratios"]:
        return "attribute factors = %r, the header's ratio line states %r" % (list(pck.factors), H["ratios"])
    for l in range(L + 1):
        if not seq_eq(pck.dx[l], H["dx"][l]):
            return "dx[%d] = %r, header states %r" % (l, pck.dx[l], H["dx"][l])
        want = [b - a + 1 for a, b in zip(*H["domains"][l])]
        if list(pck.grid_sizes[l]) != want:
            return "grid_sizes[%d] = %r, header states %r" % (l, list(pck.grid_sizes[l]), want)
    v = grids_ok(pck, H, L, ndims, cfg.numfmt)
    if v:
        return v
    # ---- boxes
    if len(pck.boxes) != exp["box_levels"]:
        return "exposes boxes of %d levels, expected %d" % (len(pck.boxes), exp["box_levels"])
    for l in range(exp["box_levels"]):
        hb = H["levels"][l]["bounds"]
        if len(pck.boxes[l]) != len(hb):
            return "level %d: %d boxes exposed, header states %d" % (l, len(pck.boxes[l]), len(hb))
        for b, (pb, ab) in enumerate(zip(pck.boxes[l], hb)):
            for dd in range(ndims):
                if not seq_eq(pb[dd], ab[dd]):
                    return "level %d box %d dim %d bounds %r, header states %r" % (l, b, dd, pb[dd], ab[dd])
    # ---- cells
    if exp["cell_levels"]:
        if len(pck.cells) != exp["cell_levels"]:
            return "exposes cell data of %d levels, expected %d" % (len(pck.cells), exp["cell_levels"])
        for l in range(exp["cell_levels"]):
            C, pc = A["lev"][l], pck.cells[l]
            if [[list(map(int, i[0])), list(map(int, i[1]))] for i in pc["indexes"]] != C["idx"]:
                return "level %d index ranges %r, level header states %r" % (l, pc["indexes"], C["idx"])
            want_files = [os.path.join(d, C["dir"], fn) for fn, _ in C["fod"]]
            if [os.path.realpath(f) for f in pc["files"]] != [os.path.realpath(f) for f in want_files]:
                return "level %d binary files %r, level header states %r" % (l, pc["files"], want_files)
            if [int(o) for o in pc["offsets"]] != [o for _, o in C["fod"]]:
                return "level %d offsets %r, level header states %r" % (l, pc["offsets"], [o for _, o in C["fod"]])
            if l < exp["mm_levels"]:
                for which, key in (("mins", "mins"), ("maxs", "maxs")):
                    if key not in pc:
                        return "level %d: no %s table exposed" % (l, which)
                    for i, k in enumerate(keys):
                        col = [row[i] for row in C[key]]
                        if k not in pc[key]:
                            return "level %d: the %s table has no entry for field %r (fields exposed there: %r)" % (l, which, k, sorted(pc[key]))
                        if not seq_eq(pc[key][k], col):
                            return "level %d %s[%r] = %r, level header states %r" % (l, which, k, list(pc[key][k]), col)
    return None


def run(chk, replay):
    chk.rule = ("scenarios of MC_C02.tla (level count x boxes x field list incl. repeats x limit x mode), each replayed "
                "under a seeded configuration (2D/3D, origin, anisotropic cells, header style, random layout); signature = "
                "(levels, limit class, mode, repeats, ndims); trivial = (1 level, no limit, full, distinct names)")
    chk.assumptions = ["alpha parses the headers correctly (self-check against gamma's input)"]
    if replay:
        s = replay["scenario"]
        v = run_scenario(chk, s["sc"], s["cfgseed"], s["ndims"])
        chk.executed("replay")
        if v:
            chk.violation(s["sigs"], v, s)
        return
    scenarios = []
    for what, consts in models(chk.tier):
        r = chk.add_tlc(tlc.run("MC_C02", {"INIT": "Init", "NEXT": "Next", "CONSTANTS": consts,
                                           "INVARIANTS": ["MetaRefines", "HeaderOnlyNeedsNoLevels", "Emit"]},
                                timeout=900), what)
        if r.violated:
            chk.note_drift("TLC: %s violated in MC_C02" % r.violated)
        scenarios += r.emitted
    if not scenarios:
        raise core.MachineryError("TLC emitted no scenarios")
    cap = 1500 if chk.tier == "quick" else 20000
    chosen = util.select(scenarios, cap, chk.rng)
    chk.exhaustive = len(chosen) == len(scenarios)
    for i, sc in enumerate(chosen):
        ndims = 2 if i % 3 == 2 else 3
        cfgseed = chk.rng.randrange(1 << 30)
        v = run_scenario(chk, sc, cfgseed, ndims)
        sigs = util.sig_str(sc["sig"], ndims)
        triv = sc["sig"][:4] == [1, "nolimit", "full", "distinct"]
        chk.executed(sigs, not triv, sample={k: sc[k] for k in ("names", "nlev", "nbs", "limit", "mode")})
        chk.traces += 1
        if v:
            chk.violation(sigs, v, {"sc": sc, "cfgseed": cfgseed, "ndims": ndims, "sigs": sigs})
    # refinement ratios 2 / 4 / mixed, up to four levels (Refine.tla): factors, cell sizes, grid sizes, boxes as the header states
    from harness import refine
    refine.phase(chk, "meta")
