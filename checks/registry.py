"""Registry of the checks (single source of truth for MANIFEST.json)."""
HOOK_COMMITS = []
ENGINES = [
    {"name": "tlc+replay", "path": "/verif/check",
     "serves_properties": [],
     "kind_free_text": "TLC model checking of spec/*.tla; TLC-emitted behaviours replayed into the real Python code through harness/gamma (concretise) and harness/alpha (independent parser); recorded traces validated by spec/trace/*Trace.tla"},
]
NOTES = ("All checks: ./check <id> --tier quick|thorough. Exit 0 = held, 1 = VIOLATION line, 2 = machinery error. "
         "Known findings: /verif/known_findings.json.")
REG = {}

_NOTE = ("Trusted base: TLC; harness/gamma.py (writer) and harness/alpha.py (independent parser), self-checked "
         "at run time; the in-process scheduled pool (harness/shims.py) standing in for multiprocessing with "
         "pickled arguments/results; bounds of the model instances as listed in the evidence file.")

REG["C05"] = {
    "technique": "TLC model checking of Colander.tla (refinement of StrainSpec over all layouts/variable lists/limits/pool schedules) + replay of every TLC behaviour into the real Colander with token-exact comparison via an independent parser",
    "level_text": ("Exhaustive within bounds: every input layout (<=3 boxes/level over <=3 files in every on-disk order, <=2 levels), "
                   "every ordered variable list incl. unknown names and 'all', every level limit and every pool completion order is "
                   "model-checked against the requirement operator and replayed into the real code in 2D and 3D with bit-exact "
                   "(NaN/inf/denormal) payloads; the real validator must accept each output."),
    "level_note": _NOTE,
}
