"""Registry of the checks (single source of truth for MANIFEST.json)."""
HOOK_COMMITS = []
ENGINES = [
    {"name": "tlc+replay", "path": "/verif/check",
     "serves_properties": [],
     "kind_free_text": "TLC model checking of spec/*.tla; TLC-emitted behaviours replayed into the real Python code through harness/gamma (concretise) and harness/alpha (independent parser); recorded traces validated by spec/trace/*Trace.tla"},
]
NOTES = ("All checks: ./check <id> --tier quick|thorough. Exit 0 = held, 1 = VIOLATION line, 2 = machinery error. "
         "Known findings: /verif/known_findings.json.")
REG = {}
