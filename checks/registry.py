"""Registry of the checks (single source of truth for MANIFEST.json)."""
HOOK_COMMITS = []
ENGINES = [
    {"name": "tlc+replay", "path": "/verif/check",
     "serves_properties": [],
     "kind_free_text": "TLC model checking of spec/*.tla; TLC-emitted behaviours replayed into the real Python code through harness/gamma (concretise) and harness/alpha (independent parser); recorded traces validated by spec/trace/*Trace.tla"},
]
NOTES = ("All checks: ./check <id> --tier quick|thorough. Exit 0 = held, 1 = VIOLATION line, 2 = machinery error. "
         "Known findings: /verif/known_findings.json.")
REG = {}

_NOTE = ("Trusted base: TLC; harness/gamma.py (writer) and harness/alpha.py (independent parser), self-checked "
         "at run time; the in-process scheduled pool (harness/shims.py) standing in for multiprocessing with "
         "pickled arguments/results; bounds of the model instances as listed in the evidence file.")

REG["C05"] = {
    "technique": "TLC model checking of Colander.tla (refinement of StrainSpec over all layouts/variable lists/limits/pool schedules) + replay of every TLC behaviour into the real Colander with token-exact comparison via an independent parser + trace validation at scale: histories of real operations on large generated inputs and repository assets judged by spec/trace/OpTrace.tla with the same requirement operator",
    "level_text": ("Exhaustive within bounds: every input layout (<=3 boxes/level over <=3 files in every on-disk order, <=2 levels), "
                   "every ordered variable list incl. unknown names and 'all', every level limit and every pool completion order is "
                   "model-checked against the requirement operator and replayed into the real code in 2D and 3D with bit-exact "
                   "(NaN/inf/denormal) payloads; the real validator must accept each output."),
    "level_note": _NOTE,
}

REG["C01"] = {
    "technique": "TLC model checking of Reader.tla/MC_C01.tla (ImplRead refines ReadSpec for every layout x field selector x level x box selector) + replay of every emitted scenario into the real indexing interface, arrays mapped back to tokens by digest + trace validation at scale: histories of real operations on large generated inputs and repository assets judged by spec/trace/OpTrace.tla with the same requirement operator",
    "level_text": ("Exhaustive within bounds over selector forms (names, ints incl. negative/too large, ascending index and name lists, every non-empty forward slice, "
                   "box ints, numpy ints, slices, lists, masks of right and wrong length) x layouts (<=3 boxes over <=3 files, every disk order) x levels; "
                   "each scenario is executed on the real reader in 2D/3D with wild (NaN/inf/denormal) and tame payloads and compared token-exactly, shapes included."),
    "level_note": _NOTE,
}
REG["C15"] = {
    "technique": "TLC model checking of MC_C01.tla in iteration mode (one imap task per file, every start/finish interleaving, IterRefines: bag equality + exactly-once) + replay of each behaviour with the scheduled pool; stream.iter(bsel) replayed against ReadSpec + trace validation at scale: histories of real operations on large generated inputs and repository assets judged by spec/trace/OpTrace.tla with the same requirement operator + PoolLife.tla (life time of a pool referenced only by its imap iterator; NoWedge / CallerFinishes) with the wedging schedule imposed on genuine process pools in an abandonable child process",
    "level_text": ("Every completion order of the per-file read tasks for <=4 boxes over <=3 files and every field selector form is explored by TLC and "
                   "replayed into the real iterator (termination guarded by a yield budget); the on-demand iterator is replayed for all slice/list/mask selections."),
    "level_note": _NOTE,
}
REG["C02"] = {
    "technique": "TLC model checking of MC_C02.tla (constructor steps refine MetaSpec for level counts x field lists with repeats x limits x modes) + replay: real PlotfileCooker attributes vs an independent header parser restricted to what MetaSpec says must be exposed",
    "level_text": ("All level counts 1..4, field lists over a small alphabet (repeats arise), limits incl. above-finest, and the three opening modes are enumerated by TLC; "
                   "each is opened for real under seeded configurations (2D/3D, non-zero origin, anisotropic cells, long ratio line, trailing blanks, scattered layouts) "
                   "and every exposed attribute is compared by float equality with the independent parse; header-only runs on a directory without level data."),
    "level_note": _NOTE,
}

_TASTE = ("TLC model checking of Taste.tla/MC_Taste.tla (validator steps over a unit-level byte model; Corrupt actions for 19 kinds (incl. sub-unit header cuts / pads) at every site, "
          "singly and in pairs) + byte-exact concretisation of every emitted state judged by the real Taster")
REG["C03"] = {
    "technique": _TASTE + "; invariant AcceptsWellFormed over all 16 option sets x limits x modes",
    "level_text": ("All layouts of <=4 boxes over <=3 files in every on-disk order, 1-2 levels, every option combination, every limit and both modes are enumerated "
                   "by TLC and run on the real validator in 2D/3D with tame and wild payloads; one known finding (data check with a default check off)."),
    "level_note": _NOTE,
}
REG["C04"] = {
    "technique": _TASTE + "; invariant RejectsDamaged with the semantic, layout-only predicate Damaged evaluated on the resulting state",
    "level_text": ("Every corruption of the listed classes at every site (unit positions incl. payload interior and past EOF, every other index range, every other file) "
                   "of every layout with <=3 boxes, singly, and in pairs for <=2 boxes (all kinds) / 3 boxes (header kinds); millions of states model-checked, "
                   "every damaged terminal state (quick: one per signature + sample) concretised and judged by the real Taster in failing and non-failing mode."),
    "level_note": _NOTE,
}
REG["C20"] = {
    "technique": _TASTE + "; invariant AcceptedIsReadable; for every state the real Taster accepts, every box is read through the real indexing interface and compared with the FAB named by its index range",
    "level_text": ("Same corruption space as C04 plus non-canonical FAB headers and text-level edits of offsets / whitespace; whenever the real validator "
                   "says good, the real reader must return, for every box of every validated level, an array of the declared shape holding the bytes of the FAB "
                   "whose header names that index range."),
    "level_note": _NOTE,
}

REG["C06"] = {
    "technique": "TLC model checking of Combine.tla (validation, mode choice, three worker kinds, gather through map_bfile_offsets, header rewrite; refinement of CombineSpec on layout-free Content) + replay of every behaviour into the real combine() with token-exact comparison; refusal checked with an audit hook for 'nothing written' + trace validation at scale: histories of real operations on large generated inputs and repository assets judged by spec/trace/OpTrace.tla with the same requirement operator",
    "level_text": ("Every pair of independently chosen layouts (<=3 boxes over <=3 files in every on-disk order, 1-2 levels) x field selections (None, lists, with unknown / duplicate names, "
                   "list and string argument forms) x pool completion orders, and mismatched pairs (fewer boxes, shifted box, fewer levels) are model-checked and replayed; "
                   "the real validator must accept each output; refused runs must leave no file-system mutation."),
    "level_note": _NOTE,
}

REG["C11"] = {
    "technique": "TLC model checking of Chef.tla (sequential knives, offset-sorted box map, header writers, serial/parallel with all completion orders; refinement of CookSpec as per-box sets of (name, component) and extrema rows) + replay into the real Chef with user, callable, solution-array and built-in (HRR, ENT, SRi, SDi, RRi) recipes; recipe symbols interpreted independently (numpy bit-exact / scalar cantera rtol 1e-9) + trace validation at scale: histories of real operations on large generated inputs and repository assets judged by spec/trace/OpTrace.tla with the same requirement operator",
    "level_text": ("All layouts of <=3 boxes over <=3 files (every disk order), 1-2 levels, 1- and 2-component recipes, kept lists (none, one, two, reordered, with unknown), serial and parallel with every "
                   "completion order are model-checked and replayed; every written component is identified (kept: by digest, new: by independent evaluation) under the name the header gives it, "
                   "min/max rows are compared with the true extrema of the written bytes, the real validator must accept the output."),
    "level_note": _NOTE + " Cantera's numerical value of a property is outside the model (uninterpreted symbol).",
}

REG["C17"] = {
    "technique": "TLC model checking of Chk2plt.tla (sequential per-state-file tasks over three independently laid out data subsets, offset-sorted box map, all completion orders; refinement of ConvertSpec) + replay into the real chk2plt on synthetic PeleLMeX checkpoints; symbols for ghost stripping / flooring interpreted from the generated ghosted arrays; real Taster with box coordinates; audit hook for writes into the checkpoint",
    "level_text": ("Independent layouts of state / gradp / I_R (<=3 boxes over <=3 files, every disk order), 1-2 levels, all 8 flag sets, every completion order are model-checked and replayed on anisotropic "
                   "domains with 1..3 ghost cells and both species sources; every written cell is compared with the checkpoint's interior value (exact; 1e-14 relative for floored mass fractions)."),
    "level_note": _NOTE + " The synthetic checkpoint writer follows the format of test_assets/example_chk_3d.",
}

REG["C14"] = {
    "technique": "TLC model checking of Kitchen.tla (directory map, Invoke actions for colander/combine/chef, symbolic per-field terms; invariants AllValidInputs, NothingOverwritten, lemmas strain-all = identity and cook-then-combine adds one field) over all histories up to the bound + execution of every emitted history with the real tools, the real validator after every hop, every box compared with its term's value + trace validation at scale: histories of real operations on large generated inputs and repository assets judged by spec/trace/OpTrace.tla with the same requirement operator",
    "level_text": ("All histories of length <=2 (thorough: <=3 exhaustively, 4 by TLC simulation) over the three writers with small argument sets, starting from two generated plotfiles on a common 2-level mesh with independent scattered layouts, "
                   "are enumerated by TLC and executed; each intermediate directory must be well-formed (independent parser), accepted by the real taste, carry the mesh/time/geometry of the source and hold bit-exactly the composed pure operations."),
    "level_note": _NOTE,
}

REG["C08"] = {
    "technique": "TLC model checking of Plate.tla over Mesh.tla (per-level map over boxes, level-after-level broadcast into uninitialised arrays; PlateIsCover, NoUninit) + replay into the real Mandoline on 2-D plotfiles with poisoned numpy.empty and bit-exact comparison",
    "level_text": ("Every 2-D lattice mesh within the bounds (4x2 coarse cells, <=3 levels, <=2 disjoint nested boxes per fine level, every level-0 tiling), every limit, serial and parallel are model-checked; each scenario is replayed "
                   "with five field lists (incl. all and grid_level), both axis assignments, 3x3-cell blocks (non-square boxes), random scattered layouts and wild payloads; every pixel, the grid level and both coordinate vectors are compared."),
    "level_note": _NOTE,
}
REG["C09"] = {
    "technique": "TLC model checking of Pestle.tla over Mesh.tla (occupancy map resolution, covering masks, limit control flow; IntegralRefines, ExactlyOnce, SpecTiles) + replay into the real volume_integral (API two ways, CLI) against the sum over exactly the cells the requirement counts",
    "level_text": ("Block-lattice meshes with 2- and 3-block boxes at every block offset (aligned and misaligned with the smallest extent), partial refinement, 1..3 levels (thorough: longer domains), every limit and volfrac flag are model-checked; "
                   "replayed with blocking factor 2/4/8, all six axis assignments, anisotropic cells, random layouts, three fields incl. the constant-1 probe."),
    "level_note": _NOTE,
}
REG["C10"] = {
    "technique": "TLC model checking of Whip.tla over Mesh.tla and Pool.tla (imap_unordered per file with every arrival order, zero-initialised grid, level barrier; FinalIsCover, LevelsSequential) + replay through whip's main() with the pool delivering in the behaviour's order, .npy compared bit for bit",
    "level_text": ("Every mesh within the bounds x files per level (1..3) x limit x every start/finish/arrival interleaving is explored; each behaviour is replayed with float64/float32, "
                   "all six assignments of lattice axes to (x, y, z), a cut extruded axis and wild payloads."),
    "level_note": _NOTE,
}

REG["C19"] = {
    "technique": "TLC model checking of Point.tla over Mesh.tla (exact / inner / outer box matching and index arithmetic of the point query on an integer lattice with non-zero origin; PointRefines) + replay of every emitted scenario into the real reader at the physical cell centre",
    "level_text": ("Every mesh within the bounds (6x4 coarse cells, <=3 levels), every queryable cell (finest level covering it, one cell inside its box) for zero / positive / negative origins, and points outside every face "
                   "are model-checked and replayed with name, index and list selections under all six axis assignments and anisotropic cells (tolerance 1e-9 max|field|)."),
    "level_note": _NOTE,
}

REG["C13"] = {
    "technique": "trace validation with TLC (FsTrace.tla replays recorded audit-hook / fault-injection traces of the real tools through the actions of FsIO.tla, evaluating InputsUntouched, WritesUnderOutput, FailureVisible after every event) + TLC model checking of FsIO.tla's os.path model of every default-output rule (DefaultBeside) and of fault-interrupted write scripts",
    "level_text": ("Every tool (colander, combine, chef, mandoline array/plotfile/2-D, whip, chk2plt, marinate, read-only taste/pestle/menu/reader) x output form (explicit, default) x path style (relative, absolute, trailing separator; "
                   "checkpoint names with and without 'chk') is run for real once without fault and once per write point with a persistent ENOSPC injected at that individual open-for-write or write() (quick: all opens + sampled writes; thorough: every point), "
                   "plus unknown-field and unreadable-input runs; ~900 (quick) recorded runs are validated by TLC."),
    "level_note": _NOTE + " File-system events are observed with sys.addaudithook and a wrapped open(); paths outside the run's scratch directory are ignored.",
    "engine": "tlc+trace",
}

REG["C18"] = {
    "technique": "TLC model checking of HeaderTools.tla (ordered pattern-table classification, species list, two-column min/max layout with parity padding; ListedOnce, RowPerField) + replay: menu's printed tables tokenised and compared with an independent parse of the headers, minuterie's time, marinate pickle round trip against a fresh reader and the generated data",
    "level_text": ("Every duplicate-free field list of <=4 (thorough 5) names over known, multi-field-class, species and unknown names x 4 menu modes is model-checked and replayed on 2-D/3-D plotfiles with 1..3 levels, "
                   "negative / huge / infinite times and infinite extrema; extrema strings are compared exactly with python's '{:.3}' of the independently parsed tables."),
    "level_note": _NOTE,
}

REG["C12"] = {
    "technique": "TLC model checking of MC_C12.tla over Pool.tla (every Start/Finish/Deliver interleaving for map, imap, imap_unordered with n<=4 tasks on W<=4 workers; ScheduleFree) + imposing every emitted completion order on 16 real tool drivers (incl. taste on damaged inputs) (scheduled in-process pool; thorough: real worker processes with forced start/finish order, W up to 16) with byte-for-byte output comparison + PoolTrace.tla trace validation of the recorded pool usage + PoolLife.tla (life time of a pool referenced only by its imap iterator; NoWedge / CallerFinishes) with the wedging schedule imposed on genuine process pools in an abandonable child process",
    "level_text": ("All n! completion orders for n = 1..4 tasks per pool call are enumerated by TLC and imposed on reader selections / iteration, taste, colander, combine (byfile and bybox), chef, mandoline (3-D return/array, 2-D), pestle, whip and chk2plt, "
                   "on inputs whose tasks differ in size; files are compared as raw bytes (npz by member payload), returned values bitwise, serial modes against parallel; the recorded Submit/Start/Finish/Deliver events are validated as behaviours of Pool.tla."),
    "level_note": _NOTE + " Histories of two cooks in one process on a cached pathos pool are outside this check.",
    "engine": "tlc+replay+trace",
}

REG["C07"] = {
    "technique": "TLC model checking of Mandoline.tla over Mesh.tla (box selection incl. half-cell neighbours, slice_box cases, level-then-header reduction into uninitialised left/right arrays, domain-face rules, interpolation; SliceRefines against the per-pixel set Acceptable, NoUninit, GridLevelOK, SpecNonEmpty) on an integer lattice with distinct positions for centres, faces and half-cell gaps + replay of emitted scenarios into the real Mandoline with poisoned numpy.empty",
    "level_text": ("Every mesh within the bounds (4x2 coarse cells, <=3 levels, <=2 nested boxes per fine level, every level-0 tiling) x EVERY lattice position of the closed domain plus the two outside x every limit is model-checked (2e5..4e5 states); "
                   "a seed-selected residue class of scenarios (quick ~900, thorough ~12000) is replayed for all six (normal, in-plane, extruded) axis assignments, serial and parallel, non-zero origins, anisotropic cells, "
                   "with random, affine-along-normal and constant-along-normal fields and grid_level; each pixel must equal the interpolation of one of the acceptable sample pairs (1e-9)."),
    "level_note": _NOTE,
}

REG["C16"] = {
    "technique": "TLC model checking of SlicePlt.tla over Mesh.tla (per-level / per-side reduction with crossed boxes first, half-cell neighbours, one-sided clamp; ByLevelRefines against LevelAcceptable, BoxesWritten, ChunkingKeepsAll) + replay with fformat='plotfile' into the real Mandoline, the written 2-D plotfile parsed independently and judged by the real taste",
    "level_text": ("Every mesh within the bounds x every in-domain lattice position x every limit is model-checked; a seed-selected residue class of scenarios is replayed for all six axis assignments, serial/parallel, four field lists with poisoned numpy.empty; "
                   "checked: well-formed 2-D plotfile, taste (with box coordinates) good, time, in-plane geometry and cell sizes, per level exactly the footprints of the crossed boxes, every written value against the interpolation of an acceptable own-level pair, min/max rows against the written data; "
                   "one configuration writes 1.18 MB at a level (two files)."),
    "level_note": _NOTE,
}

# ---- session 4: shared phases added to several checks
_REFINE = (" + Refine.tla / MC_Refine.tla (refinement ratios 2 / 4 / mixed as data: a level's refinement is the PRODUCT of the ratios below it; "
           "HierarchyOk, resolution-rule and index-rule mutants refuted) with every emitted (ratios, level-0 size, limit, query level) replayed on a "
           "nested hierarchy written with those ratios")
for _p in ("C01", "C02", "C03", "C07", "C08", "C09", "C10", "C16", "C19", "C20"):
    REG[_p]["technique"] += _REFINE
REG["C10"]["technique"] += (" + Descriptors.tla (one handle per file whatever the number of boxes, read errors propagate) bound by crowd runs: hundreds of "
                            "boxes in one file under a lowered RLIMIT_NOFILE")
REG["C13"]["technique"] += (" + FsIO!RequestRefused judged in FsTrace.tla: runs given an unknown field or an unreadable input (by kind of damage x tool) must not "
                            "return normally; default outputs written twice")
for _p in ("C08", "C10"):
    REG[_p]["technique"] += (" + trace validation at scale: covering grids recorded from the real tool on random nested meshes (up to 4 levels, 64 x 64 pixels), "
                             "every pixel decoded to the (level, cell) it names, judged line by line by spec/trace/CoverTrace.tla with Mesh!CoverSpec / CoverLevel")
for _p in ("C10", "C12"):
    REG[_p]["technique"] += (" + StartMethod.tla (what a worker needs travels in its task: holds under fork and spawn) bound by real-pool runs with workers "
                             "started by 'spawn'")
REG["C09"]["technique"] += (" + trace validation at scale: pestle on random nested meshes with the levels' indicator fields, the per-level volumes (in lattice cells) "
                            "judged line by line by spec/trace/CoverTrace.tla against Mesh!IntegralCells")
