"""
C13 -- tools never touch their inputs and report failures instead of returning.

Deciders:
  * TLC, design level (MC_C13.tla over FsIO.tla): the default-output rules written with a model
    of os.path are beside -- never inside -- the input for every invocation form
    (DefaultBeside); a write script interrupted at any write point ends in an exception
    (FailureVisible), writes only under the output root (WritesUnderOutput, InputsUntouched).
  * TLC, trace validation (FsTrace.tla): every real run -- each tool, each invocation form
    (explicit / default output, relative / absolute / trailing-separator paths, names with and
    without the replaced substring), without fault and with an injected ENOSPC at EVERY
    individual open-for-write and write() of the run, plus unknown-field and unreadable-input
    runs -- is recorded through sys.addaudithook and a wrapped open(), classified by root, and
    replayed through FsIO's actions with the three invariants evaluated after every event.
"""
import json
import os
import random
import shutil
import sys

import numpy as np

from harness import alpha, core, gamma, gamma_chk, lattice, shims, tlc, util

RECIPE = os.path.join(os.path.dirname(os.path.dirname(os.path.abspath(__file__))), "harness", "recipes", "r_u1.py")
MESH = [[{"lo": [0, 0], "hi": [3, 3]}, {"lo": [4, 0], "hi": [7, 3]}], [{"lo": [4, 2], "hi": [9, 5]}]]


# ---------------------------------------------------------------------------- templates

def make_templates(chk, seed):
    rng = random.Random(seed)
    cfg_ = gamma.Config.draw(rng, ndims=3, payload="tame")
    t = os.path.join(chk.tmp(), "templates")
    os.makedirs(t)
    lat = lattice.Lattice(MESH, 8, 4, axes=(0, 1, 2), ext0=4, ext_cut=False)
    for name, src, fields in (("plt00010", "A", ["u", "v", "w"]), ("plt00020", "B", ["p", "q"])):
        ap = lat.ap(src, fields, files_of=lambda lv, b: (b - 1) % 2 + 1)
        gamma.write_plotfile(os.path.join(t, name), ap, cfg_, values=lattice.Fields(lat, seed + len(fields)).values)
    lat2 = lattice.Lattice(MESH, 8, 4, axes=(0, 1), ndims=2)
    gamma.write_plotfile(os.path.join(t, "plt2d"), lat2.ap("C", ["u", "v"]), gamma.Config.draw(rng, ndims=2),
                         values=lattice.Fields(lat2, seed).values)
    mesh = gamma_chk.nested_mesh([[1, 2], [1]])
    lays = [{"state": {"file": [1, 2], "disk": {"1": [1], "2": [2]}}, "gradp": {"file": [1, 1], "disk": {"1": [2, 1]}},
             "ir": {"file": [1, 1], "disk": {"1": [1, 2]}}},
            {"state": {"file": [1], "disk": {"1": [1]}}, "gradp": {"file": [1], "disk": {"1": [1]}},
             "ir": {"file": [1], "disk": {"1": [1]}}}]
    gamma_chk.write_checkpoint(os.path.join(t, "chk00005"), mesh, lays, cfg_, ns=2, nghost=1)
    return t


def style_path(work, rel, style):
    if style == "rel":
        return rel
    if style == "abs":
        return os.path.join(work, rel)
    if style == "trail":
        return rel + os.sep
    if style == "abstrail":
        return os.path.join(work, rel) + os.sep
    raise core.MachineryError(style)


# ---------------------------------------------------------------------------- cases

def argv_run(main, argv):
    old = sys.argv
    sys.argv = argv
    try:
        main()
    finally:
        sys.argv = old


def cases():
    """(label, input names (template -> name in work/data), runner(work) -> list of allowed output prefixes)"""
    out = []

    def add(label, inputs, fn, allowed=(), prepare=None):
        out.append((label, inputs, fn, list(allowed), prepare))
    P = "data/plt00010"
    Q = "data/plt00020"
    for st in ("rel", "abs", "trail"):
        def colander(work, st=st):
            from amr_kitchen.colander import Colander
            o = style_path(work, "res/strained", st)
            Colander(plotfile=style_path(work, P, st), limit_level=None, output=o, variables=["w", "zz", "u"]).strain()
        add("colander/explicit/" + st, {"plt00010": "plt00010"}, colander, [os.path.join("res/strained")])

        def combine_explicit(work, st=st):
            from amr_kitchen import PlotfileCooker
            from amr_kitchen.combine import combine
            combine(PlotfileCooker(style_path(work, P, st)), PlotfileCooker(style_path(work, Q, st)),
                    pltout=style_path(work, "res/combined", st))
        add("combine/explicit/" + st, {"plt00010": "plt00010", "plt00020": "plt00020"}, combine_explicit, [os.path.join("res/combined")])

        def combine_default(work, st=st):
            from amr_kitchen import PlotfileCooker
            from amr_kitchen.combine import combine
            combine(PlotfileCooker(style_path(work, P, st)), PlotfileCooker(style_path(work, Q, st)))
        add("combine/default/" + st, {"plt00010": "plt00010", "plt00020": "plt00020"}, combine_default, [os.path.join("plt00010plt00020")])

        def chef_explicit(work, st=st):
            from amr_kitchen.chef import Chef
            Chef(style_path(work, P, st), recipe=RECIPE, outfile=style_path(work, "res/cooked", st), serial=(st == "abs"),
                 kept_fields="v zz").cook()
        add("chef/explicit/" + st, {"plt00010": "plt00010"}, chef_explicit, [os.path.join("res/cooked")])

        def chef_default(work, st=st):
            from amr_kitchen.chef import Chef
            Chef(style_path(work, P, st), recipe=RECIPE, serial=True).cook()
        add("chef/default/" + st, {"plt00010": "plt00010"}, chef_default, [os.path.join("data/plt00010_ck")])

        for fmt in ("array", "plotfile"):
            def mand_explicit(work, st=st, fmt=fmt):
                from amr_kitchen.mandoline import Mandoline
                o = style_path(work, "res/slice", "rel" if st == "trail" and fmt == "array" else st)
                Mandoline(style_path(work, P, st), fields=["u", "w"], serial=(st != "abs"), verbose=0).slice(
                    normal=0, pos=None, outfile=o, fformat=fmt)
            add("mandoline/%s/explicit/%s" % (fmt, st), {"plt00010": "plt00010"}, mand_explicit, [os.path.join("res/slice")])

            def mand_default(work, st=st, fmt=fmt):
                from amr_kitchen.mandoline import Mandoline
                Mandoline(style_path(work, P, st), fields=["u"], serial=True, verbose=0).slice(normal=1, fformat=fmt)
            add("mandoline/%s/default/%s" % (fmt, st), {"plt00010": "plt00010"}, mand_default, [os.path.join("data", "S")])

        def mand2d(work, st=st):
            from amr_kitchen.mandoline import Mandoline
            Mandoline(style_path(work, "data/plt2d", st), fields=["u"], serial=True, verbose=0).slice(
                outfile=style_path(work, "res/flat", "rel"), fformat="array")
        add("mandoline2d/array/explicit/" + st, {"plt2d": "plt2d"}, mand2d, [os.path.join("res/flat")])

        def whip_explicit(work, st=st):
            from amr_kitchen.whip import cli
            argv_run(cli.main, ["whip", "-v", "v", "-o", style_path(work, "res/grid", "rel" if st == "trail" else st), "-y",
                                style_path(work, P, st)])
        add("whip/explicit/" + st, {"plt00010": "plt00010"}, whip_explicit, [os.path.join("res/grid")])

        def chk_explicit(work, st=st):
            from amr_kitchen.chk2plt import chk2plt
            chk2plt(style_path(work, "data/chk00005", st), species=["H2", "O2"], gradp=True, species_reactions=True,
                    floor_massfracs=True, pltdir=style_path(work, "res/converted", st))
        add("chk2plt/explicit/" + st, {"chk00005": "chk00005"}, chk_explicit, [os.path.join("res/converted")])

        def chk_default(work, st=st):
            from amr_kitchen.chk2plt import chk2plt
            chk2plt(style_path(work, "data/chk00005", st), species=["H2", "O2"])
        add("chk2plt/default/" + st, {"chk00005": "chk00005"}, chk_default, [os.path.join("data/plt00005")])

        def chk_default_noname(work, st=st):
            from amr_kitchen.chk2plt import chk2plt
            chk2plt(style_path(work, "data/mydump", st), species=["H2", "O2"], gradp=False)
        add("chk2plt/default-name-without-chk/" + st, {"chk00005": "mydump"}, chk_default_noname, [os.path.join("data/mydump_")])

        def marinate(work, st=st):
            from amr_kitchen import marinate as m
            argv_run(m.main, ["marinate", style_path(work, P, st)])
        add("marinate/" + st, {"plt00010": "plt00010"}, marinate, [os.path.join("data/plt00010.pkl")])

    # ---- default outputs for the other ways of naming the input: "./x", "res/../x", "." from inside the directory,
    #      ".." from one of its level directories, and a parent directory whose name contains the replaced substrings
    def typed(work, rel, form):
        """(path as typed, directory to run from)"""
        if form == "dotslash":
            return "./" + rel, work
        if form == "updown":
            return "res/../" + rel, work
        if form == "dot":
            return ".", os.path.join(work, rel)
        if form == "dot-trail":
            return "./", os.path.join(work, rel)
        if form == "dotdot":
            return "..", os.path.join(work, rel, "Level_0")
        raise core.MachineryError(form)
    for form in ("dotslash", "updown", "dot", "dot-trail", "dotdot"):
        def chef_d(work, form=form):
            from amr_kitchen.chef import Chef
            pth, cwd = typed(work, P, form)
            os.chdir(cwd)
            Chef(pth, recipe=RECIPE, serial=True).cook()
        add("chef/default/" + form, {"plt00010": "plt00010"}, chef_d, [os.path.join("data/plt00010_ck")])

        def marinate_d(work, form=form):
            from amr_kitchen import marinate as m
            pth, cwd = typed(work, P, form)
            os.chdir(cwd)
            argv_run(m.main, ["marinate", pth])
        add("marinate/" + form, {"plt00010": "plt00010"}, marinate_d, [os.path.join("data/plt00010.pkl")])

        def mand_d(work, form=form):
            from amr_kitchen.mandoline import Mandoline
            pth, cwd = typed(work, P, form)
            os.chdir(cwd)
            Mandoline(pth, fields=["u"], serial=True, verbose=0).slice(normal=1, fformat="array")
        add("mandoline/array/default/" + form, {"plt00010": "plt00010"}, mand_d, [os.path.join("data", "S")])

        def chk_d(work, form=form):
            from amr_kitchen.chk2plt import chk2plt
            pth, cwd = typed(work, "data/chk00005", form)
            os.chdir(cwd)
            chk2plt(pth, species=["H2", "O2"])
        add("chk2plt/default/" + form, {"chk00005": "chk00005"}, chk_d, [os.path.join("data/plt00005")])

    for form in ("dotslash", "updown"):
        def combine_d(work, form=form):
            from amr_kitchen import PlotfileCooker
            from amr_kitchen.combine import combine
            combine(PlotfileCooker(typed(work, P, form)[0]), PlotfileCooker(typed(work, Q, form)[0]))
        add("combine/default/" + form, {"plt00010": "plt00010", "plt00020": "plt00020"}, combine_d, [os.path.join("plt00010plt00020")])

    # a parent directory called like the substrings the default rules replace
    def chk_parent(work):
        from amr_kitchen.chk2plt import chk2plt
        chk2plt("data/chk_plt_runs/chk00005", species=["H2", "O2"])
    add("chk2plt/default/parent-named-chk", {"chk00005": "chk_plt_runs/chk00005"}, chk_parent, [os.path.join("data/chk_plt_runs/plt00005")])

    def mand_parent(work):
        from amr_kitchen.mandoline import Mandoline
        Mandoline("data/chk_plt_runs/plt00010", fields=["u"], serial=True, verbose=0).slice(normal=1, fformat="array")
    add("mandoline/array/default/parent-named-plt", {"plt00010": "chk_plt_runs/plt00010"}, mand_parent, [os.path.join("data/chk_plt_runs", "S")])

    def whip_default(work):
        from amr_kitchen.whip import cli
        os.chdir(os.path.join(work, "data"))
        argv_run(cli.main, ["whip", "-v", "u", "-y", "plt00010"])
    add("whip/default/in-cwd", {"plt00010": "plt00010"}, whip_default, [os.path.join("data", "u_ugrid_")])

    # read-only tools: no output at all
    def taste(work):
        from amr_kitchen.taste import Taster
        Taster(os.path.join(work, P), boxes_coordinates=True, verbose=0)
    add("taste/readonly", {"plt00010": "plt00010"}, taste)

    def pestle(work):
        from amr_kitchen import PlotfileCooker
        from amr_kitchen.pestle import volume_integral
        volume_integral(PlotfileCooker(os.path.join(work, P), ghost=True), "u")
    add("pestle/readonly", {"plt00010": "plt00010"}, pestle)

    def menu(work):
        from amr_kitchen.menu.menu import Menu
        Menu(os.path.join(work, P), min_max=True)
        Menu(os.path.join(work, P))
    add("menu/readonly", {"plt00010": "plt00010"}, menu)

    def reader(work):
        from amr_kitchen import PlotfileCooker
        pck = PlotfileCooker(P + "/", maxmins=True)
        pck[:][0][:]
        list(pck["u"][1])
    add("reader/readonly", {"plt00010": "plt00010"}, reader)

    # failing runs: unknown field, unreadable input
    def mand_unknown(work):
        from amr_kitchen.mandoline import Mandoline
        Mandoline(P, fields=["nope"], serial=True, verbose=0).slice(normal=0, outfile="res/x", fformat="array")
    add("mandoline/unknown-field", {"plt00010": "plt00010"}, mand_unknown, [os.path.join("res/x")])

    def whip_unknown(work):
        from amr_kitchen.whip import cli
        argv_run(cli.main, ["whip", "-v", "nope", "-o", "res/grid", "-y", P])
    add("whip/unknown-field", {"plt00010": "plt00010"}, whip_unknown, [os.path.join("res/grid")])

    # an unknown field with missing fields NOT allowed: whatever falsy value says so (False, 0, numpy's False, a numpy zero)
    for nm, val in (("False", False), ("zero", 0), ("np-false", np.False_), ("np-zero", np.int64(0))):
        def colander_strict(work, val=val):
            from amr_kitchen.colander import Colander
            Colander(plotfile=P, output="res/strained", variables=["w", "zz", "u"], allow_missing=val).strain()
        add("colander/unknown-field/not-allowed-" + nm, {"plt00010": "plt00010"}, colander_strict, [os.path.join("res/strained")])

    def colander_missing_binary(work):
        from amr_kitchen.colander import Colander
        l1 = os.path.join(work, P, "Level_1")
        os.remove(os.path.join(l1, sorted(f for f in os.listdir(l1) if f.startswith("Cell_D_"))[0]))
        Colander(plotfile=P, output="res/strained", variables=["all"]).strain()
    add("colander/unreadable-input", {"plt00010": "plt00010"}, colander_missing_binary, [os.path.join("res/strained")])

    def chef_no_header(work):
        from amr_kitchen.chef import Chef
        os.remove(os.path.join(work, P, "Level_0", "Cell_H"))
        Chef(P, recipe=RECIPE, outfile="res/cooked", serial=True).cook()
    add("chef/unreadable-input", {"plt00010": "plt00010"}, chef_no_header, [os.path.join("res/cooked")])

    # ---- a SECOND run with the default output, when the first run's output already exists (a tool that numbers or replaces an
    #      existing default output derives the new name once more -- from whatever spelling of the input it still has)
    def twice(fn):
        def run2(work):
            fn(work)
            os.chdir(work)
            fn(work)
        return run2
    for label, inputs, fn, allowed, prep in list(out):
        if "/default" in label or label.startswith("marinate/"):
            add(label.replace("/default", "/default-twice") if "/default" in label else label.replace("marinate/", "marinate-twice/"),
                inputs, twice(fn), allowed, prep)

    # ---- inputs the tool cannot read, by KIND of damage (done by `prepare` before the run is observed): a binary file cut short
    #      inside the data of its last FAB (all but two values of it gone: every field of that box is short), cut by one value
    #      (tools that read every field), a missing binary file, a missing level header, a global header cut in half
    def damage(kind, which):
        def prep(work):
            root = os.path.join(work, "data", which)
            lv = 0 if kind.endswith("L0") else 1
            if kind.startswith("deep") or kind.startswith("cut8"):
                C = alpha.parse_cell_h(root, "Level_%d" % lv, want_mm=False)
                files = sorted(set(fn for fn, _ in C["fod"]))
                pth = os.path.join(root, "Level_%d" % lv, files[-1])
                raw = open(pth, "rb").read()
                i = raw.rfind(b"FAB ")
                j = raw.index(b"\n", i)
                with open(pth, "r+b") as f:
                    f.truncate(j + 1 + 16 if kind.startswith("deep") else len(raw) - 8)
            elif kind == "nobin":
                C = alpha.parse_cell_h(root, "Level_1", want_mm=False)
                os.remove(os.path.join(root, "Level_1", C["fod"][0][0]))
            elif kind == "nocellh":
                os.remove(os.path.join(root, "Level_1", "Cell_H"))
            elif kind == "hdrcut":
                hp = os.path.join(root, "Header")
                txt = open(hp).read()
                open(hp, "w").write(txt[:len(txt) // 2])
            else:
                raise core.MachineryError(kind)
        return prep

    def t_colander(work):
        from amr_kitchen.colander import Colander
        Colander(plotfile=P, output="res/strained", variables=["all"]).strain()

    def t_combine(work):
        from amr_kitchen import PlotfileCooker
        from amr_kitchen.combine import combine
        combine(PlotfileCooker(P), PlotfileCooker(Q), pltout="res/combined")

    def t_chef(serial):
        def run_(work):
            from amr_kitchen.chef import Chef
            Chef(P, recipe=RECIPE, outfile="res/cooked", serial=serial).cook()
        return run_

    def t_mand(fmt):
        def run_(work):
            from amr_kitchen.mandoline import Mandoline
            Mandoline(P, fields=["u", "w"], serial=(fmt == "array"), verbose=0).slice(normal=0, pos=None, outfile="res/slice", fformat=fmt)
        return run_

    def t_mand2d(work):
        from amr_kitchen.mandoline import Mandoline
        Mandoline("data/plt2d", fields=["u"], serial=True, verbose=0).slice(outfile="res/flat", fformat="array")

    def t_whip(work):
        from amr_kitchen.whip import cli
        argv_run(cli.main, ["whip", "-v", "v", "-o", "res/grid", "-y", P])

    def t_pestle(work):
        from amr_kitchen import PlotfileCooker
        from amr_kitchen.pestle import volume_integral
        volume_integral(PlotfileCooker(P, ghost=True), "u")
    one = {"plt00010": "plt00010"}
    two = {"plt00010": "plt00010", "plt00020": "plt00020"}
    ALLF = ["deepL0", "deepL1", "cut8L0", "cut8L1", "nobin", "nocellh", "hdrcut"]       # tools that read every field of every box
    SOME = ["deepL0", "deepL1", "nobin", "nocellh", "hdrcut"]
    for kind in ALLF:
        add("colander/unreadable-input/" + kind, one, t_colander, ["res/strained"], damage(kind, "plt00010"))
        add("combine/unreadable-input-1/" + kind, two, t_combine, ["res/combined"], damage(kind, "plt00010"))
        add("combine/unreadable-input-2/" + kind, two, t_combine, ["res/combined"], damage(kind, "plt00020"))
        add("chef/unreadable-input/serial/" + kind, one, t_chef(True), ["res/cooked"], damage(kind, "plt00010"))
        add("chef/unreadable-input/parallel/" + kind, one, t_chef(False), ["res/cooked"], damage(kind, "plt00010"))
    for kind in SOME:
        add("mandoline/array/unreadable-input/" + kind, one, t_mand("array"), ["res/slice"], damage(kind, "plt00010"))
        add("mandoline/plotfile/unreadable-input/" + kind, one, t_mand("plotfile"), ["res/slice"], damage(kind, "plt00010"))
        add("mandoline2d/unreadable-input/" + kind, {"plt2d": "plt2d"}, t_mand2d, ["res/flat"], damage(kind, "plt2d"))
        add("whip/unreadable-input/" + kind, one, t_whip, ["res/grid"], damage(kind, "plt00010"))
        add("pestle/unreadable-input/" + kind, one, t_pestle, [], damage(kind, "plt00010"))
    return out


def doomed(label):
    """The run is asked something it cannot honour: it must not return normally (FsIO!RequestRefused)."""
    return "unknown-field" in label or "unreadable-input" in label


# ---------------------------------------------------------------------------- one recorded run

def snapshot(paths):
    return {p: alpha.tree_digest(p) for p in paths}


def one_run(chk, templates, case, fault_at, tid, late=False):
    label, inputs, fn, allowed_rel, prepare = case
    work = chk.tmp()
    os.makedirs(os.path.join(work, "data"))
    os.makedirs(os.path.join(work, "res"))
    in_roots = []
    for tname, wname in inputs.items():
        dst = os.path.join(work, "data", wname)
        shutil.copytree(os.path.join(templates, tname), dst)
        in_roots.append(dst)
    if prepare:
        prepare(work)               # the harness's own damage to the copy, before anything is observed
    one_run.before = [alpha.tree_digest(r) for r in in_roots] if prepare else None
    old_cwd = os.getcwd()
    os.chdir(work)
    outcome = "ok"
    allowed = [os.path.join(work, a) for a in allowed_rel]
    before = None
    sys.dont_write_bytecode = True
    try:
        with shims.fs_audit(fault_at=fault_at, count=True, late=late) as audit:
            # the harness's own preparation inside fn (deleting a binary) happens before Begin:
            # events are filtered below on the snapshot taken right before the tool call
            try:
                with shims.pool_shim(shims.Scheduler()), core.quiet():
                    fn(work)
            except SystemExit as e:
                outcome = "ok" if e.code in (None, 0) else "exc"
            except BaseException as e:  # noqa
                outcome = "exc"
                exc = e
            import gc
            gc.collect()                   # files the tool never closed are closed by their finalisers now
            events = list(audit.events)
            npoints = audit.points
            faulted = audit.faulted
            one_run.point_log = list(audit.point_log)
    finally:
        os.chdir(old_cwd)
    return work, in_roots, events, npoints, faulted, outcome, allowed


def classify(path, work, in_roots, allowed):
    if not path.startswith(work + os.sep):
        return None, None               # outside the sandbox of the run: environment noise
    for i, r in enumerate(in_roots):
        if path == r or path.startswith(r + os.sep):
            return "in%d" % (i + 1), os.path.relpath(path, r).split(os.sep)
    for a in allowed or []:
        if path.startswith(a):           # the output itself, anything below it, extensions, numbered siblings
            return "out", os.path.relpath(path, os.path.dirname(a)).split(os.sep)
    # the parent directory of an allowed output may be created (mkdir -p res)
    for a in allowed or []:
        if a.startswith(path + os.sep):
            return "out", ["(parent)"]
    return "other", os.path.relpath(path, work).split(os.sep)


def record(chk, templates, case, fault_at, tid, lines, meta, late=False):
    label = case[0]
    work, in_roots, events, npoints, faulted, outcome, allowed = one_run(chk, templates, case, fault_at, tid, late)
    # inputs compared with the templates (the unreadable-input cases delete a file themselves before
    # calling the tool: that deletion is the harness's, it shows as a Remove event we skip)
    same = True
    for ri, (r, (tname, wname)) in enumerate(zip(in_roots, case[1].items())):
        a, b = alpha.tree_digest(r), alpha.tree_digest(os.path.join(templates, tname))
        if one_run.before is not None:
            b = one_run.before[ri]          # the input as the harness handed it over (damaged on purpose)
            a2 = a
        elif "unreadable-input" in label:
            b = {k: v for k, v in b.items() if k in a}
            a2 = a
        else:
            a2 = a
        if a2 != b:
            same = False
    lines.append({"tid": tid, "ev": "Begin", "fault": fault_at or 0, "doomed": doomed(label)})
    for e in events:
        root, rel = classify(e["path"], work, in_roots, allowed)
        if root is None:
            continue
        if "unreadable-input" in label and case[4] is None and e["ev"] == "Remove" and root == "in1":
            continue
        if e["ev"] == "WP":
            lines.append({"tid": tid, "ev": "WritePoint", "root": root, "rel": rel, "faulted": bool(e["faulted"])})
        else:
            lines.append({"tid": tid, "ev": "Mutate", "root": root, "rel": rel, "kind": e["ev"]})
    lines.append({"tid": tid, "ev": "Return", "outcome": outcome, "same": same})
    meta[tid] = {"case": label, "fault_at": fault_at, "late": late, "points": npoints, "faulted": faulted, "outcome": outcome}
    shutil.rmtree(work, ignore_errors=True)
    return npoints


def run(chk, replay):
    chk.rule = ("recorded runs of the real tools: case = tool x output form (explicit / default) x path style (relative / absolute / "
                "trailing separator) [+ unknown field, unreadable input, read-only tools]; for every case one fault-free run and one "
                "run per write point with ENOSPC injected there; all traces validated by FsTrace.tla; signature = (case, fault class: "
                "none / open / write); non-trivial = every run with a fault or a default output")
    chk.assumptions = ["paths outside the per-run scratch directory (font caches, interpreter temp files) are environment noise",
                       "tasks run in-process (scheduled pool), so a worker's OSError reaches the parent like a pickled exception does"]
    core.import_repo()
    # 1. design level
    for what, consts in (("path algebra + fault scripts", {"Norm": '"abspath"', "PropagateFault": "TRUE", "OutRoot": '"out"'}),):
        r = chk.add_tlc(tlc.run("MC_C13", {"SPECIFICATION": "Spec", "CONSTANTS": consts,
                                           "INVARIANTS": ["DefaultBeside", "WritesUnderOutput", "InputsUntouched", "FailureVisible"],
                                           "PROPERTIES": ["Terminates"]}, workers=4, timeout=600), what)
        if r.violated:
            chk.note_drift("TLC: %s violated in FsIO.tla (design level)" % r.violated)
    # buffered writers: a loss is reported whatever the sizes when files are closed explicitly (with-blocks), as the tools do
    for nw, cap, df in ((3, 4, 1), (5, 2, 3), (4, 4, 0), (4, 1, 2)):
        r = chk.add_tlc(tlc.run("BufWriter", {"SPECIFICATION": "Spec", "CONSTANTS": {"NWrites": nw, "Cap": cap, "DevFailsAt": df, "CloseMode": '"explicit"'},
                                              "INVARIANTS": ["LossIsReported", "NothingLostSilently"], "PROPERTIES": ["Terminates"]},
                                workers=1, timeout=120), "buffered writer (%d writes, capacity %d, device fails after %d)" % (nw, cap, df))
        if r.violated:
            chk.note_drift("TLC: %s violated in BufWriter.tla" % r.violated)
    # 2. traces of real runs
    templates = make_templates(chk, chk.seed + 7)
    all_cases = cases()
    if replay:
        want = replay["scenario"]["case"]
        all_cases = [c for c in all_cases if c[0] == want]
    lines, meta = [], {}
    tid = 0
    quick = chk.tier == "quick"
    for ci, case in enumerate(all_cases):
        tid += 1
        n = record(chk, templates, case, None, tid, lines, meta)
        plog = list(one_run.point_log)
        ks = list(range(1, n + 1))
        if quick and len(ks) > 14:
            # every open-for-write is a distinct kind of point; sample the writes
            step = max(1, len(ks) // 14)
            ks = sorted(set(ks[::step] + ks[:3] + ks[-3:]))
        if quick and "twice" in case[0]:
            ks = ks[::max(1, len(ks) // 4)][:4]        # the second run's write points are the first run's again: a few faults do
        if replay and replay["scenario"].get("fault_at"):
            ks = [] if replay["scenario"].get("late") else [replay["scenario"]["fault_at"]]
        for k in ks:
            tid += 1
            record(chk, templates, case, k, tid, lines, meta)
        # LATE faults (spec/BufWriter.tla): the write() returns, the error is raised by the call that empties the buffer (a later
        # write once the buffer overflows, flush, close); for every file the tool writes, its first and its last write()
        first, last = {}, {}
        for k, (what, pth) in enumerate(plog, 1):
            if what == "write":
                first.setdefault(pth, k)
                last[pth] = k
        lks = sorted(set(first.values()) | set(last.values()))
        if quick and len(lks) > 8:
            lks = sorted(set(lks[::max(1, len(lks) // 8)] + lks[-2:]))
        if quick and "twice" in case[0]:
            lks = lks[-2:]
        if replay and replay["scenario"].get("fault_at"):
            lks = [replay["scenario"]["fault_at"]] if replay["scenario"].get("late") else []
        for k in lks:
            tid += 1
            record(chk, templates, case, k, tid, lines, meta, late=True)
    tf = os.path.join(chk.scratch, "fs_trace.ndjson")
    with open(tf, "w") as f:
        for ln in lines:
            f.write(json.dumps(ln) + "\n")
    r = tlc.run("FsTrace", {"SPECIFICATION": "TraceSpec", "CONSTANTS": {"Norm": '"abspath"'}, "INVARIANTS": ["Report"],
                            "POSTCONDITION": "TraceAccepted"}, workers=1, timeout=1800, env={"TRACE_FILE": tf})
    chk.add_tlc(r, "trace validation of %d runs (%d events)" % (tid, len(lines)))
    if r.violated:
        raise core.MachineryError("FsTrace.tla did not consume the recorded traces (%s):\n%s" % (r.violated, r.stdout[-1500:]))
    if not r.emitted:
        raise core.MachineryError("FsTrace.tla printed no report:\n%s" % r.stdout[-1500:])
    rep = r.emitted[-1]
    bad = {}
    for t, inv in rep["violations"]:
        bad.setdefault(int(t), []).append(inv)
    for t in sorted(meta):
        m = meta[t]
        fclass = "none" if not m["fault_at"] else ("late-fault" if m.get("late") else "fault")
        sigs = util.sig_str(m["case"], fclass)
        chk.executed(sigs, nontrivial=bool(m["fault_at"]) or "default" in m["case"],
                     sample={"case": m["case"], "fault_at": m["fault_at"], "write_points": m["points"], "outcome": m["outcome"]})
        chk.traces += 1
        if t in bad:
            ev = [ln for ln in lines if ln["tid"] == t]
            detail = "%s violated by run '%s' (fault at write point %r, outcome %s); first offending events: %s" % (
                ", ".join(sorted(set(bad[t]))), m["case"], m["fault_at"], m["outcome"],
                core.jdump([e for e in ev if e.get("root") not in ("out", None)][:3]))
            chk.violation(sigs, detail, {"case": m["case"], "fault_at": m["fault_at"], "late": bool(m.get("late")), "events": ev[:200]},
                          klass="%s/%s" % (m["case"], ",".join(sorted(set(bad[t])))))
    if not replay:
        # histories across working directories (PoolEnv.tla): what a run writes lies under ITS output, the plotfiles of the other
        # directories and the outputs of earlier runs stay as they are
        from harness import poolenv
        for t_ in ['combine', 'colander']:
            poolenv.tool_phase(chk, t_, cap=(8, 80))
    chk.extra["runs"] = tid
    chk.extra["trace_events"] = len(lines)
