"""
Shared machinery of C03 / C04 / C20: TLC runs of MC_Taste.tla, concretisation of the (possibly
corrupted) abstract on-disk state emitted by TLC, execution of the real Taster, oracles.

The oracles are the requirement-layer values computed by TLC (`wellformed`, `damaged`,
`bounds_damaged`); the model's own verdict is only used for SPEC-DRIFT notes.
"""
import os
import random
import re

import numpy as np

from harness import alpha, compare, core, gamma, shims, tlc, util

KINDS_BASE = ["DeleteFile", "Truncate", "Extend", "InsertData", "RemoveData", "HeadCut", "HeadPad", "FabIdx", "FabNComp",
              "CellHIdx", "DropBoxLine", "DropFodLine", "GarbleBox", "GarbleFod", "NFieldsLine",
              "FodFile", "FodOffset", "BoxBound"]
KINDS_C04 = KINDS_BASE + ["DataShift"]
KINDS_C20 = KINDS_BASE + ["FabBlanks", "FodEarly"]
EARLY = 8              # bytes by which a FodEarly position precedes the FAB header (one zero-valued cell of the preceding payload)
INVS = ["AcceptsWellFormed", "RejectsDamaged", "AcceptedIsReadable", "NeverRaisesNoFail", "Emit"]
HEAD_EDIT = 3          # bytes cut from / put in front of a FAB header line by HeadCut / HeadPad
PATTERN = [1, 2, 1, 2]
NF = 2
FIELDS = ["a", "b"]
CROWD = 300            # filler boxes of a crowded level (style "crowd")


def kinds_set(kinds):
    return "{" + ",".join('"%s"' % k for k in kinds) + "}"


def cfg(maxbox, maxcorrupt, kinds, optmode="default", maxfile=2, emit=True, **over):
    c = dict(NF=NF, MaxBox=maxbox, MaxFile=maxfile, MaxCorrupt=maxcorrupt, Kinds=kinds_set(kinds),
             CheckFirstHeader="TRUE", SortOffsets="TRUE", EOFRule="TRUE", ExactNext="TRUE",
             OptMode='"%s"' % optmode, DataCheckBroken="TRUE")
    c.update(over)
    inv = list(INVS) if emit else INVS[:-1]
    return {"INIT": "Init", "NEXT": "Next", "CONSTANTS": c, "INVARIANTS": inv,
            "PROPERTIES": ["ValidatorReadOnly"]}


# ------------------------------------------------------------------ concretisation of a model state

FOREIGN_SHIFT = {91: 50, 92: 60}


def build_ap(sc, ndims):
    nb = len(sc["lay"]["file"])
    classes = []
    layouts = []
    for l in range(1, sc["nlev"] + 1):
        if l == sc["cl"]:
            classes.append([PATTERN[b] for b in range(nb)])
            disk = sc["lay"]["disk"]
            if isinstance(disk, list):
                disk = {str(i + 1): v for i, v in enumerate(disk)}
            layouts.append({"file": sc["lay"]["file"], "disk": disk})
        else:
            classes.append([1])
            layouts.append(None)
    return gamma.make_ap("A", FIELDS, classes, layouts, ndims=ndims)


def idx_range(ap, lv, idx):
    """Concrete index range of an abstract index-range id (box number or foreign id)."""
    boxes = ap["levels"][lv]["boxes"]
    if idx in FOREIGN_SHIFT:
        cls = 1 if idx == 91 else 2
        ref = None
        for b, box in enumerate(boxes):
            if not box.get("filler") and PATTERN[b] == cls:
                ref = box
        if ref is None:
            # no box of that class at this level: synthesise one from the first box
            ref = dict(boxes[0])
            w = (cls + 1) if lv == 0 else 2 * (cls + 1)
            ref = {"lo": list(ref["lo"]), "hi": list(ref["hi"])}
            ref["hi"][0] = ref["lo"][0] + w - 1
        lo = list(ref["lo"])
        hi = list(ref["hi"])
        lo[0] += FOREIGN_SHIFT[idx]
        hi[0] += FOREIGN_SHIFT[idx]
        return lo, hi
    box = boxes[idx - 1]
    return list(box["lo"]), list(box["hi"])


def concretise(chk, sc, cfgseed, ndims, style=None):
    """Write the directory that the TLC state describes.  Returns (path, ap, reg)."""
    rng = random.Random(cfgseed)
    style = style or {}
    cfg_ = gamma.Config.draw(rng, ndims=ndims, payload=style.get("payload", "tame"))
    ap = build_ap(sc, ndims)
    if style.get("ishift"):
        # an index space that does not start at 0 (validated by the default checks, which never turn indices into coordinates)
        # (also FAR from 0: four to six digits per index, as on the finest level of a production run -- the FAB header and the
        # level header's box entries are then well over a hundred characters long)
        shifts = [[-8, -3, -16], [-4, 0, -1], [5, -2, 0], [1000, 20000, 300000], [-100000, 4096, 65536]]
        # (style value "far": one of the two far shifts, with the large component on the axis along which the boxes sit side by
        # side -- neighbouring boxes then differ by a few cells in a hundred thousand)
        sh_ = shifts[cfgseed % 5] if style["ishift"] != "far" else [[300000, 1000, 20000], [-400000, 4096, 65536]][cfgseed % 2]
        gamma.shift_indices(ap, sh_)
    d = os.path.join(chk.tmp_reuse(), "p")
    os.makedirs(os.path.dirname(d))
    lv = sc["cl"] - 1
    nb = len(ap["levels"][lv]["boxes"])
    # CROWD: the level the model describes shares its binary files with hundreds of further, well-formed boxes (one cell each,
    # far along the first axis), stored IN FRONT of the modelled FABs of every file: counts pass every small threshold (255 / 256
    # boxes per file or per task), the modelled FABs stay the last ones of their files, and nothing about the requirement changes
    nfill = CROWD if style.get("crowd") else (1 if style.get("far") else 0)
    fill_file = []
    if style.get("far"):
        # FAR: one further box of zeros, more than 2 GiB of payload stored as a hole, in front of the modelled FABs of the first
        # file: every recorded position of that file lies beyond 2**31 (what a 32-bit offset cannot hold)
        Lc = ap["levels"][lv]
        cross = 1
        for dd in range(1, ndims):
            cross *= ap["dom"][dd] * 2 ** lv
        nx = -(-(2 ** 31 + 2 ** 20) // (cross * NF * 8))
        w_lv = ap["dom"][0] * 2 ** lv
        ap["dom"][0] += -(-nx // 2 ** lv)
        lo = [w_lv] + [0] * (ndims - 1)
        hi = [w_lv + nx - 1] + [ap["dom"][dd] * 2 ** lv - 1 for dd in range(1, ndims)]
        Lc["boxes"].append({"lo": lo, "hi": hi, "filler": True, "sparse": True})
        f = Lc["file"][0]
        fill_file.append(f)
        Lc["file"].append(f)
        Lc["disk"][str(f)] = [nb + 1] + list(Lc["disk"][str(f)])
    elif nfill:
        Lc = ap["levels"][lv]
        used = sorted(set(Lc["file"]))
        # (inside the domain, which is made longer along the first axis to hold them)
        w_lv = ap["dom"][0] * 2 ** lv
        ap["dom"][0] += -(-nfill // 2 ** lv)
        for i in range(nfill):
            lo = [w_lv + i] + [0] * (ndims - 1)
            Lc["boxes"].append({"lo": list(lo), "hi": list(lo), "filler": True})
            f = used[i % len(used)]
            fill_file.append(f)
            Lc["file"].append(f)
        for f in used:
            Lc["disk"][str(f)] = [nb + 1 + i for i in range(nfill) if fill_file[i] == f] + list(Lc["disk"][str(f)])
    reg = gamma.write_plotfile(d, ap, cfg_)
    ldir = os.path.join(d, "Level_%d" % lv)
    L = ap["levels"][lv]
    prefix = {}
    fill_off = {}
    for i in range(nfill):
        f = fill_file[i]
        fab = len(gamma.fab_header(L["boxes"][nb + i]["lo"], L["boxes"][nb + i]["hi"], NF)) + 8 * NF * gamma.box_cells(L["boxes"][nb + i])
        fill_off[i] = prefix.get(f, 0)
        prefix[f] = prefix.get(f, 0) + fab
    prefix_blob = {}
    kept_aside = {}
    for f, n in prefix.items():
        if style.get("far"):
            # too large to hold in memory: the file is kept aside and cut back to the filler when it is rewritten
            kept_aside[f] = os.path.join(d, "aside_%d" % f)
            os.rename(os.path.join(ldir, gamma.file_name(f, cfg_)), kept_aside[f])
            continue
        with open(os.path.join(ldir, gamma.file_name(f, cfg_)), "rb") as bf:
            prefix_blob[f] = bf.read(n)
    # keep the min/max tables of the pristine level header
    pristine = open(os.path.join(ldir, "Cell_H")).read()
    mm_tail = pristine[pristine.index("\n\n") + 1:]
    cells_abs = {b + 1: PATTERN[b] + 1 for b in range(nb)}
    cells_abs.update({91: 2, 92: 3})
    box0 = L["boxes"][0]
    unit = gamma.box_cells(box0) // cells_abs[1] * 8      # bytes per abstract payload unit
    junk_rng = np.random.default_rng(cfgseed)

    def junk(n):
        a = junk_rng.integers(128, 256, n, dtype=np.uint8)   # never ASCII, never a newline
        return a.tobytes()

    # remove the pristine binaries, rewrite from the model state
    for fn in os.listdir(ldir):
        if fn != "Cell_H":
            os.remove(os.path.join(ldir, fn))
    st = sc["state"]
    files = st["files"]
    if isinstance(files, list):
        files = {str(i + 1): u for i, u in enumerate(files)}
    gone = set(st["gone"])
    byte_pos = {}
    for f, units in files.items():
        f = int(f)
        pos = [prefix.get(f, 0)]
        out = []
        i = 0
        while i < len(units):
            u = units[i]
            if u == 0:
                blob = junk(unit)
                out.append(blob)
                pos.append(pos[-1] + len(blob))
                i += 1
                continue
            idx, nc, canon = u[:3]
            sh = u[3] if len(u) > 3 else 0
            mv = u[4] if len(u) > 4 else 0
            lo, hi = idx_range(ap, lv, idx)
            hdr = gamma.fab_header(lo, hi, nc)
            nominal = len(hdr)
            if sh < 0:
                hdr = hdr[HEAD_EDIT:]                 # bytes cut from the start of the line: its tail still parses
            elif sh > 0:
                hdr = b"fab"[:HEAD_EDIT] + hdr        # ASCII bytes in front of the line
            elif not canon and not mv:
                hdr = hdr.replace(b") (", b")  (", 1)
                nominal = len(hdr)                    # blanks: the level header records the positions as they are
            if mv and out:
                # DataShift: 1..3 values leave the end of the FAB in front and enter this FAB's payload right behind its header
                nshift = 8 * (1 + (cfgseed + i) % 3)
                out[-1] = out[-1][:-nshift]
            out.append(hdr)
            if mv and out:
                out.append(junk(nshift))
            # recorded byte positions do not follow a cut / pad / shift: that is the damage
            pos.append(pos[-1] + nominal)
            i += 1
            # intact FAB of a real box: real data, so that reads can be compared
            need = cells_abs[idx] * nc
            follow = units[i:i + need]
            intact = (idx <= nb and nc == NF and len(follow) == need and all(x == 0 for x in follow))
            if intact:
                for fi in range(1, NF + 1):
                    arr = gamma.component(ap, cfg_, reg, lv, idx, fi)
                    raw = arr.tobytes()
                    for k in range(cells_abs[idx]):
                        blob = raw[k * unit:(k + 1) * unit]
                        out.append(blob)
                        pos.append(pos[-1] + len(blob))
                i += need
        byte_pos[f] = pos
        if f in gone and style.get("ghost"):
            # a file that is GONE may leave its directory entry behind: a link to purged scratch storage, a directory of that name
            gp = os.path.join(ldir, gamma.file_name(f, cfg_))
            if cfgseed % 2:
                os.symlink(os.path.join(ldir, "purged", "nowhere"), gp)
            else:
                os.makedirs(gp)
        if f not in gone and f in kept_aside:
            os.rename(kept_aside.pop(f), os.path.join(ldir, gamma.file_name(f, cfg_)))
            with open(os.path.join(ldir, gamma.file_name(f, cfg_)), "r+b") as bf:
                bf.truncate(prefix[f])
                bf.seek(prefix[f])
                bf.write(b"".join(out))
        elif f not in gone:
            with open(os.path.join(ldir, gamma.file_name(f, cfg_)), "wb") as bf:
                bf.write(prefix_blob.get(f, b"") + b"".join(out))

    # RAGGED ends: a truncation / an extension by ONE unit stands for every length error of at most a unit -- also one of less
    # than a single value (1, 3, 4 or 7 bytes: a short write inside the last float64).  The file is still not what the headers
    # declare, so the requirement values TLC computed for the state (damaged, not readable) stand
    ap_ = sc.get("applied") or []
    if style.get("ragged") and len(ap_) == 1 and ap_[0].get("k") in ("Truncate", "Extend") and ap_[0].get("u") == 1 \
            and int(ap_[0]["f"]) not in gone:
        k = [1, 3, 4, 7][cfgseed % 4]
        pth = os.path.join(ldir, gamma.file_name(int(ap_[0]["f"]), cfg_))
        if os.path.exists(pth) and unit > k:
            if ap_[0]["k"] == "Truncate":
                with open(pth, "ab") as bf:
                    bf.write(junk(unit - k))          # all but k bytes of the removed unit are back
            else:
                with open(pth, "r+b") as bf:
                    bf.truncate(os.path.getsize(pth) - (unit - k))   # only k bytes of the added unit stay

    for pth_ in kept_aside.values():
        os.remove(pth_)                 # the file the filler sat in is one the model deleted

    def off_bytes(f, off):
        p = byte_pos.get(f)
        if p is None:
            return off * unit
        if off < len(p):
            return p[off]
        return p[-1] + (off - (len(p) - 1)) * unit

    # FodEarly: the bytes in front of the header become a zero-valued cell (reads as text without a line end)
    for fl in st["fodlines"]:
        if fl["k"] == "fod" and fl.get("early") and fl["file"] not in gone:
            pth = os.path.join(ldir, gamma.file_name(fl["file"], cfg_))
            pos_b = off_bytes(fl["file"], fl["off"])
            if os.path.exists(pth) and EARLY <= pos_b <= os.path.getsize(pth):
                with open(pth, "r+b") as bf:
                    bf.seek(pos_b - EARLY)
                    bf.write(b"\x00" * EARLY)
    z = ",".join("0" for _ in range(ndims))
    with open(os.path.join(ldir, "Cell_H"), "w") as c:
        c.write("1\n1\n%d\n0\n" % st["nfline"])
        c.write("(%d 0\n" % (st["cnt1"] + nfill))
        for bi, bl in enumerate(st["boxlines"]):
            if bl["k"] == "box":
                lo, hi = idx_range(ap, lv, bl["idx"])
                c.write("((%s) (%s) (%s))\n" % (",".join(map(str, lo)), ",".join(map(str, hi)), z))
            else:
                # an entry that cannot be parsed: cut short, or -- with every integer of the entry still there -- a stray
                # character in a number, a missing blank between the corners, another separator, a token too many
                lo, hi = idx_range(ap, lv, min(bi + 1, nb))
                slo, shi = ",".join(map(str, lo)), ",".join(map(str, hi))
                c.write(["((0,0 (7,\n",
                         "((%s) (%sx) (%s))\n" % (slo, shi, z),
                         "((%s)(%s) (%s))\n" % (slo, shi, z),
                         "((%s) (%s) (%s))\n" % (slo.replace(",", ";", 1), shi, z),
                         "((%s) (%s) (%s)) 1\n" % (slo, shi, z)][(cfgseed + bi) % 5])
        for i in range(nfill):
            bx = L["boxes"][nb + i]
            c.write("((%s) (%s) (%s))\n" % (",".join(map(str, bx["lo"])), ",".join(map(str, bx["hi"])), z))
        c.write(")\n")
        c.write("%d\n" % (st["cnt2"] + nfill))
        for k, fl in enumerate(st["fodlines"]):
            if fl["k"] == "fod":
                ob = off_bytes(fl["file"], fl["off"])
                if fl.get("early"):
                    ob = max(0, ob - EARLY)
                txt = str(ob)
                if style.get("offset_text") == "plus":
                    txt = "+" + txt
                elif style.get("offset_text") == "zero":
                    txt = "00" + txt
                sep = "  " if style.get("fod_blanks") else " "
                c.write("FabOnDisk:%s%s%s%s\n" % (sep, gamma.file_name(fl["file"], cfg_), sep, txt))
            else:
                c.write("FabOnDisk: Cell_D_00000 12x7\n" if k % 2 == 0 else "FabOnDisk: Cell_D_00000\n")
        for i in range(nfill):
            c.write("FabOnDisk: %s %d\n" % (gamma.file_name(fill_file[i], cfg_), fill_off[i]))
        c.write(mm_tail)
    # box bounds contradicting the index ranges (by one cell)
    bad_bounds = [b for b, ok in enumerate(st["bounds_ok"]) if not ok]
    if bad_bounds:
        hp = os.path.join(d, "Header")
        lines = open(hp).read().split("\n")
        # locate the level's box block: line "<lv> <nb> <time>"
        start = None
        for i, ln in enumerate(lines):
            parts = ln.split()
            if len(parts) == 3 and parts[0] == str(lv) and parts[1] == str(nb + nfill) and i + 1 < len(lines) \
                    and lines[i + 1].strip().isdigit() and i > 10:
                start = i + 2
        if start is None:
            raise core.MachineryError("cannot locate the box block of level %d in the Header" % lv)
        dx = gamma.level_dx(cfg_, ndims, lv)
        for b in bad_bounds:
            dim = b % ndims
            ln = start + b * ndims + dim
            lo, hi = [float(v) for v in lines[ln].split()]
            # by how much the bound contradicts the index range: several cells, one cell, or a fraction of a cell (well above
            # any rounding of the header's decimal numbers)
            mag = [1.0, 0.4, 3.0, 0.25, 0.05][(b + cfgseed) % 5] * dx[dim]
            if (b // ndims) % 2 == 0:
                hi += mag
            else:
                lo -= mag
            lines[ln] = "%r %r" % (lo, hi)
        open(hp, "w").write("\n".join(lines))
    return d, ap, reg


# ------------------------------------------------------------------ running the real validator

def taste(d, sc):
    """`d` may be any spelling of the directory (harness/spell.py)."""
    from amr_kitchen.taste import Taster
    o = sc["opts"]
    try:
        with shims.pool_shim(shims.Scheduler()), core.quiet():
            t = Taster(d, limit_level=sc["lim"], binary_headers=o["hdr"], binary_shape=o["shape"],
                       binary_data=o["data"], boxes_coordinates=o["coords"], nofail=sc["nofail"], verbose=0)
        try:
            good = bool(t)
        except Exception as e:
            return {"verdict": "bad", "raised": True, "exc": "bool: %r" % e}
        return {"verdict": "good" if good else "bad", "raised": False}
    except Exception as e:
        return {"verdict": "bad", "raised": True, "exc": "%s: %s" % (type(e).__name__, str(e)[:120])}


FAB_ANY = re.compile(rb"FAB \(\(8, \(64 11 52 0 1 12 0 1023\)\),\(8, \(8 7 6 5 4 3 2 1\)\)\)"
                     rb"\(\(([-0-9,]+)\)\s+\(([-0-9,]+)\)\s+\(([-0-9,]+)\)\)\s+(\d+)\n")


def read_consistency(d, sc, ndims, open_as=None):
    """C20 oracle: every box of every validated level reads, with the declared shape for all fields,
    the values of the FAB in its file whose header names its index range.  Returns None or text."""
    from amr_kitchen import PlotfileCooker
    try:
        with core.quiet():
            pck = PlotfileCooker(open_as or d, limit_level=sc["lim"])
    except Exception as e:
        return "accepted by taste but the reader cannot open it: %r" % e
    H = alpha.parse_header(d)
    nf = len(H["fields"])
    for l in range(sc["lim"] + 1):
        C = alpha.parse_cell_h(d, "Level_%d" % l, want_mm=False)
        for b, (idx, (fn, off)) in enumerate(zip(C["idx"], C["fod"])):
            try:
                with core.quiet():
                    arr = pck[slice(None)][l][b]
            except Exception as e:
                return "accepted by taste but reading level %d box %d raises %s: %s" % (l, b, type(e).__name__, str(e)[:100])
            shape = tuple(h - a + 1 for a, h in zip(*idx)) + (nf,)
            if not isinstance(arr, np.ndarray) or tuple(arr.shape) != shape:
                return "level %d box %d read with shape %r, level header declares %r" % (
                    l, b, getattr(arr, "shape", None), shape)
            raw = open(os.path.join(d, "Level_%d" % l, fn), "rb").read()
            ncells = int(np.prod(shape[:-1]))
            got = np.asfortranarray(arr).ravel(order="F").tobytes()
            ok = False
            for m in FAB_ANY.finditer(raw):
                lo = [int(v) for v in m.group(1).split(b",")]
                hi = [int(v) for v in m.group(2).split(b",")]
                if [lo, hi] == idx:
                    pay = raw[m.end():m.end() + ncells * nf * 8]
                    if pay == got:
                        ok = True
            if not ok:
                return "level %d box %d: values read are not those of a FAB named %r in %s" % (l, b, idx, fn)
    return None


def sig_of(sc, ndims, extra=None):
    return util.sig_str(sc["sig"], ndims, extra)


def is_redirect(sc):
    """A single FodOffset that points exactly at the FAB header of ANOTHER box of the same file (the validator then reads a genuine
    header: only the comparison of its index range with the level header's tells the damage)."""
    a = sc.get("applied") or []
    if len(a) != 1 or a[0].get("k") != "FodOffset":
        return False
    b, off = a[0]["b"], a[0]["off"]
    f = sc["lay"]["file"][b - 1]
    files = sc["state"]["files"]
    units = files[str(f)] if isinstance(files, dict) else files[f - 1]
    for p, u in enumerate(units):
        if p == off:
            return u != 0 and u[0] != b
    return False
