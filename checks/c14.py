"""
C14 -- tool outputs are valid tool inputs: pipelines equal the composed pure operations.

Decider: TLC enumerates every history of Kitchen.tla up to MaxOps operations over
{colander(vars, L), combine(with a generated sibling or any earlier directory), chef(user
recipe, kept)}, checks the algebraic lemmas (strain-all is the identity, cook-then-combine adds
exactly one field) and AllValidInputs in every state, and emits each history with the symbolic
content (one term per field) of every directory it creates.  Each history is executed with the
real tools; after every operation the real validator must accept the new directory and every
box of it must hold, field by field, the value of its term evaluated on that box.
"""
import os
import random

import numpy as np

from checks.c02 import rand_layout
from harness import alpha, compare, core, gamma, gamma_chk, shims, tlc, util

RECIPE = os.path.join(os.path.dirname(os.path.dirname(os.path.abspath(__file__))), "harness", "recipes", "r_u1.py")


def eval_term(t, reg, l, b):
    if t[0] == "src":
        return reg.array_of((t[1], l, b, t[2]))
    if t[0] == "cook":
        return eval_term(t[1], reg, l, b) * 2.0 + eval_term(t[2], reg, l, b)
    raise core.MachineryError("unknown term %r" % (t,))


def run_history(chk, sc, cfgseed, nlev, consumers=False):
    from amr_kitchen import PlotfileCooker
    from amr_kitchen.chef import Chef
    from amr_kitchen.colander import Colander
    from amr_kitchen.combine import combine
    from amr_kitchen.taste import Taster
    rng = random.Random(cfgseed)
    cfg_ = gamma.Config.draw(rng, ndims=3, payload="tame")
    classes = [[1, 2, 1][:rng.randint(2, 3)] for _ in range(nlev)]
    d = chk.tmp_reuse()
    os.makedirs(d)
    reg = gamma.Registry()
    aps = {}
    for src, fields in (("A", ["a", "b"]), ("B", ["c", "d"])):
        lays = [rand_layout(rng, len(c)) for c in classes]
        aps[src] = gamma.make_ap(src, fields, classes, lays, ndims=3, time=cfg_.time)
        gamma.write_plotfile(os.path.join(d, src), aps[src], cfg_, reg)
    refs = {"m": alpha.content(alpha.abstract(os.path.join(d, "A"), reg))}
    digests = {s: alpha.tree_digest(os.path.join(d, s)) for s in ("A", "B")}
    if any(h["src"] == "K" or h.get("src2") == "K" for h in sc["hist"]):
        # "K": a plotfile written by the real chk2plt from a synthetic checkpoint (its own mesh); its correctness is C17's
        # business, here its stored arrays simply become the source tokens <<"src", "K", i>>
        from amr_kitchen.chk2plt import chk2plt
        mesh = gamma_chk.nested_mesh([[1, 2, 1][:rng.randint(2, 3)] for _ in range(1)] + [[1]] * (nlev - 1))
        lays = []
        for l in range(nlev):
            nb = len(mesh["levels"][l])
            lays.append({k: rand_layout(rng, nb) for k in ("state", "gradp", "ir")})
        ng = 1 + cfgseed % 3
        kdata = gamma_chk.write_checkpoint(os.path.join(d, "chk00007"), mesh, lays, cfg_, ns=2, nghost=ng)
        # the conversion is the first operation of the pipeline: with or without pressure gradient and reaction rates (the
        # extra fields ride along; the histories only name the first nine)
        extra = cfgseed % 2 == 1
        with shims.pool_shim(shims.Scheduler(default="random", rng=random.Random(cfgseed))), core.quiet():
            chk2plt(os.path.join(d, "chk00007"), species=["H2", "O2"], gradp=False, floor_massfracs=False, pltdir=os.path.join(d, "K"))
            if extra:
                # the same checkpoint converted with pressure gradient and reaction rates: judged by name below (the histories
                # of Kitchen.tla go on from the nine-field conversion)
                chk2plt(os.path.join(d, "chk00007"), species=["H2", "O2"], gradp=True, species_reactions=True, floor_massfracs=False,
                        pltdir=os.path.join(d, "Kx"))
        AK = alpha.abstract(os.path.join(d, "K"))
        if alpha.wellformed(AK):
            return "chk2plt's output is not a well-formed plotfile: %s" % "; ".join(alpha.wellformed(AK)[:2])
        judged = [("K", AK)]
        if extra:
            AKx = alpha.abstract(os.path.join(d, "Kx"))
            if alpha.wellformed(AKx):
                return "chk2plt's output (with gradp and reaction rates) is not a well-formed plotfile: %s" % "; ".join(alpha.wellformed(AKx)[:2])
            judged.append(("Kx", AKx))
        # every field of the converted plotfile holds, under its NAME, the checkpoint's interior data
        state_names = ["x_velocity", "y_velocity", "z_velocity", "density", "Y(H2)", "Y(O2)", "rhoh", "temp", "RhoRT"]
        for kname, AKj in judged:
          for l, Cl in enumerate(AKj["lev"]):
            for b, (fn, off) in enumerate(Cl["fod"], 1):
                fab = alpha.read_fab_at(os.path.join(d, kname, Cl["dir"], fn), off)
                for name, arr in zip(AKj["hdr"]["fields"], fab["arrays"]):
                    if name in state_names:
                        want = kdata[("state", l, b)][ng:-ng, ng:-ng, ng:-ng, state_names.index(name)]
                    elif name.startswith("gradp"):
                        want = kdata[("gradp", l, b)][..., "xyz".index(name[-1])]
                    elif name.startswith("I_R("):
                        want = kdata[("ir", l, b)][..., ["H2", "O2"].index(name[4:-1])]
                    else:
                        return "chk2plt wrote a field called %r" % name
                    if not np.array_equal(np.asarray(arr), np.asarray(want).ravel(order="F"), equal_nan=True):
                        return "the converted checkpoint's field %r (level %d box %d) does not hold the checkpoint's %s data" % (name, l, b, name)
        for l, Cl in enumerate(AK["lev"]):
            for b, (fn, off) in enumerate(Cl["fod"], 1):
                fab = alpha.read_fab_at(os.path.join(d, "K", Cl["dir"], fn), off)
                for i, arr in enumerate(fab["arrays"], 1):
                    reg.add(("K", l, b, i), np.array(arr), strict=False)
        refs["mk"] = alpha.content(alpha.abstract(os.path.join(d, "K"), reg))
        digests["K"] = alpha.tree_digest(os.path.join(d, "K"))
    for i, (h, exp) in enumerate(zip(sc["hist"], sc["expect"])):
        src, out = os.path.join(d, h["src"]), os.path.join(d, h["out"])
        sched = shims.Scheduler(default="random", rng=random.Random(cfgseed + i))
        try:
            with shims.pool_shim(sched), core.quiet():
                if h["op"] == "colander":
                    Colander(plotfile=src, limit_level=h["L"], output=out, variables=list(h["vars"])).strain()
                elif h["op"] == "combine":
                    combine(PlotfileCooker(src), PlotfileCooker(os.path.join(d, h["src2"])), pltout=out)
                else:
                    Chef(src, recipe=RECIPE, outfile=out, serial=(i % 2 == 0),
                         kept_fields=" ".join(h["kept"]) if h["kept"] else None).cook()
        except Exception as e:
            return "step %d %s raised %s: %s" % (i + 1, core.jdump(h), type(e).__name__, str(e)[:200])
        for s, dg in digests.items():
            if alpha.tree_digest(os.path.join(d, s)) != dg:
                return "step %d %s modified directory %s" % (i + 1, h["op"], s)
        digests[h["out"]] = alpha.tree_digest(out)
        A = alpha.abstract(out, reg)
        wf = alpha.wellformed(A)
        if wf:
            return "step %d %s: output is not a well-formed plotfile: %s" % (i + 1, h["op"], "; ".join(wf[:3]))
        try:
            with shims.pool_shim(shims.Scheduler()), core.quiet():
                good = bool(Taster(out, nofail=True, verbose=0))
        except Exception as e:
            return "step %d: taste raised %r" % (i + 1, e)
        if not good:
            return "step %d %s: taste rejects the intermediate result" % (i + 1, h["op"])
        H = A["hdr"]
        if list(H["fields"]) != list(exp["fields"]):
            return "step %d %s: fields %r, the pure operations give %r" % (i + 1, h["op"], H["fields"], exp["fields"])
        if H["finest"] + 1 != exp["nlev"]:
            return "step %d %s: %d levels, expected %d" % (i + 1, h["op"], H["finest"] + 1, exp["nlev"])
        C = alpha.content(A)
        diff = compare.compare_meta(C, refs[exp.get("mesh", "m")], exp["nlev"])
        if diff:
            return "step %d %s: %s" % (i + 1, h["op"], diff)
        for l in range(exp["nlev"]):
            Cl = A["lev"][l]
            for b, (fn, off) in enumerate(Cl["fod"], 1):
                fab = alpha.read_fab_at(os.path.join(out, Cl["dir"], fn), off)
                for j, t in enumerate(exp["terms"]):
                    want = eval_term(t, reg, l, b)
                    if not np.array_equal(fab["arrays"][j], want, equal_nan=True):
                        return "step %d %s: level %d box %d field %r is not %s evaluated on that box" % (
                            i + 1, h["op"], l, b, exp["fields"][j], core.jdump(t))
                    for which, fun in (("mins", np.min), ("maxs", np.max)):
                        hv, tv = Cl[which][b - 1][j], float(fun(want))
                        if not (compare.same_float(hv, tv) or hv == tv):
                            return "step %d %s: level %d box %d %s[%r] = %r, extremum of the data %r" % (
                                i + 1, h["op"], l, b, which, exp["fields"][j], hv, tv)
    if consumers and sc["hist"]:
        return consumers_agree(chk, d, sc["hist"][-1]["out"], cfg_, cfgseed)
    return None


def plain_twin(d, name, cfg_):
    """A plotfile with the SAME contents as d/name (fields, mesh, time, every array) written afresh by gamma in its plainest
    layout (one binary file per level, header order): what every reading tool must treat exactly like the pipeline's output."""
    X = os.path.join(d, name)
    A = alpha.abstract(X)
    H = A["hdr"]
    arrays = {}
    levels = []
    for l, Cl in enumerate(A["lev"]):
        boxes = []
        for b, (idx, (fn, off)) in enumerate(zip(Cl["idx"], Cl["fod"]), 1):
            boxes.append({"lo": list(idx[0]), "hi": list(idx[1])})
            fab = alpha.read_fab_at(os.path.join(X, Cl["dir"], fn), off)
            for fi, arr in enumerate(fab["arrays"], 1):
                arrays[(l, b, fi)] = np.array(arr)
        levels.append({"boxes": boxes, "file": [1] * len(boxes), "disk": {"1": list(range(1, len(boxes) + 1))}})
    dom = [h - a + 1 for a, h in zip(*H["domains"][0])] if H.get("domains") else None
    ap = {"src": "twin", "ndims": H["ndims"], "fields": list(H["fields"]), "time": H["time"], "dom": dom, "levels": levels}
    Y = os.path.join(d, name + "_twin")
    # the twin's geometry is the one X's header states (a converted checkpoint's differs from the generated inputs' in its last digits)
    import copy
    cfg_ = copy.copy(cfg_)
    cfg_.origin = tuple(list(H["geo_lo"]) + [0.0] * (3 - len(H["geo_lo"])))
    cfg_.dx0 = tuple(list(H["dx"][0]) + [1.0] * (3 - len(H["dx"][0])))
    gamma.write_plotfile(Y, ap, cfg_, values=lambda lv, b, fi, box: arrays[(lv, b, fi)].reshape(gamma.box_shape(box), order="F"))
    return Y


def consumers_agree(chk, d, name, cfg_, cfgseed):
    """C14, second half: the pipeline's output as an INPUT of the reading tools.  Each tool must give, on the pipeline's output,
    exactly what it gives on a plain plotfile with the same contents (the twin): same values, or the same refusal."""
    import sys
    from amr_kitchen import PlotfileCooker
    from amr_kitchen.mandoline import Mandoline
    from amr_kitchen.pestle import volume_integral
    X = os.path.join(d, name)
    try:
        Y = plain_twin(d, name, cfg_)
    except Exception as e:
        raise core.MachineryError("cannot write the plain twin of %s: %r" % (name, e))

    def norm(x):
        if isinstance(x, dict):
            return {k: norm(v) for k, v in sorted(x.items())}
        if isinstance(x, (list, tuple)):
            return [norm(v) for v in x]
        if isinstance(x, np.ndarray):
            return np.asarray(x)
        if isinstance(x, (float, np.floating)):
            return float(x)
        if isinstance(x, (int, np.integer, str, bool)) or x is None:
            return x
        return repr(type(x))

    def same(a, b, path="$"):
        """None if equal up to 1e-9 (header numbers of the two directories may differ in their last digits), else where."""
        if isinstance(a, dict) and isinstance(b, dict):
            if sorted(a) != sorted(b):
                return "%s: keys %r != %r" % (path, sorted(a), sorted(b))
            for k in a:
                r = same(a[k], b[k], "%s.%s" % (path, k))
                if r:
                    return r
            return None
        if isinstance(a, list) and isinstance(b, list):
            if len(a) != len(b):
                return "%s: length %d != %d" % (path, len(a), len(b))
            for i, (x, y) in enumerate(zip(a, b)):
                r = same(x, y, "%s[%d]" % (path, i))
                if r:
                    return r
            return None
        if isinstance(a, np.ndarray) and isinstance(b, np.ndarray):
            if a.shape != b.shape or a.dtype != b.dtype:
                return "%s: array %r %s != %r %s" % (path, a.shape, a.dtype, b.shape, b.dtype)
            if a.dtype.kind == "f":
                ok = np.isclose(a, b, rtol=1e-9, atol=1e-9 * float(np.nanmax(np.abs(b))) if b.size and np.isfinite(b).any() else 0.0, equal_nan=True)
                if not ok.all():
                    k = tuple(int(i) for i in np.argwhere(~ok)[0])
                    return "%s: %d of %d values differ, e.g. at %r: %r != %r" % (path, int((~ok).sum()), a.size, k, float(a[k]), float(b[k]))
                return None
            return None if np.array_equal(a, b) else "%s: arrays differ" % path
        if isinstance(a, float) and isinstance(b, float):
            if a == b or (a != a and b != b) or abs(a - b) <= 1e-9 * max(abs(a), abs(b)):
                return None
            return "%s: %r != %r" % (path, a, b)
        return None if (type(a) is type(b) and a == b) else "%s: %r != %r" % (path, a, b)

    def both(label, fn):
        res = []
        for p in (X, Y):
            try:
                # (numpy.empty poisoned with one value: the generated level-0 boxes need not cover the domain, and what a tool
                # shows where there is no data must at least be the same for the two directories)
                with shims.pool_shim(shims.Scheduler()), shims.poison(5.5e299), core.quiet():
                    res.append(("ok", norm(fn(p))))
            except SystemExit as e:
                res.append(("exit", repr(e.code)))
            except Exception as e:
                res.append(("exc", type(e).__name__))
        if res[0][0] != res[1][0]:
            return "%s on the pipeline's output %s: %s; on a plain plotfile with the same contents: %s" % (
                label, name, res[0][0] + (" " + str(res[0][1]) if res[0][0] != "ok" else ""), res[1][0] + (" " + str(res[1][1]) if res[1][0] != "ok" else ""))
        diff = same(res[0][1], res[1][1]) if res[0][0] == "ok" else (None if res[0][1] == res[1][1] else "%r != %r" % (res[0][1], res[1][1]))
        if diff:
            return "%s gives another result on the pipeline's output %s than on a plain plotfile with the same contents: %s" % (label, name, diff)
        return None
    H = alpha.parse_header(X)
    f0 = H["fields"][cfgseed % len(H["fields"])]

    def reader(p):
        pck = PlotfileCooker(p, maxmins=True)
        return {"time": pck.time, "dx": [list(map(float, x)) for x in pck.dx], "lo": list(map(float, pck.geo_low)), "hi": list(map(float, pck.geo_high)),
                "grid": [list(map(int, g)) for g in pck.grid_sizes], "fields": list(pck.fields), "first": pck[f0][0][0], "all": pck[:][pck.limit_level][-1]}

    def mand(p):
        # a plane in general position (not on a face or a cell centre, where the last digits of the two headers' numbers decide)
        cn = cfgseed % 3
        pos = H["geo_lo"][cn] + (H["geo_hi"][cn] - H["geo_lo"][cn]) * 0.3713
        out = Mandoline(p, fields=[f0, "grid_level"], serial=True, verbose=0).slice(normal=cn, pos=pos, fformat="return")
        return {k: np.asarray(v) for k, v in out.items() if isinstance(v, np.ndarray)}

    def pestle(p):
        return volume_integral(PlotfileCooker(p, ghost=True), f0)

    def whip(p):
        from amr_kitchen.whip import cli
        o = p + "_grid"
        old = sys.argv
        sys.argv = ["whip", "-v", f0, "-o", o, "-y", p]
        try:
            cli.main()
        finally:
            sys.argv = old
        return np.load(o + ".npy")

    def point(p):
        pck = PlotfileCooker(p)
        mid = [float(a + (b - a) * 0.37) for a, b in zip(pck.geo_low, pck.geo_high)]
        return pck[f0](*mid)

    def menu(p):
        import io
        from amr_kitchen.menu.menu import Menu
        so = sys.stdout
        sys.stdout = io.StringIO()
        try:
            Menu(plt_file=p, min_max=True)
            return sys.stdout.getvalue().replace(p, "<plt>")
        finally:
            sys.stdout = so
    for label, fn in (("the reader", reader), ("mandoline", mand), ("pestle", pestle), ("whip", whip), ("a point query", point), ("menu", menu)):
        v = both(label, fn)
        chk.executed("consumer/%s" % label.split()[-1], True)
        if v:
            return v
    return None


def run(chk, replay):
    chk.rule = ("histories of Kitchen.tla emitted by TLC (all sequences of <= MaxOps operations over colander / combine / chef "
                "with small argument sets, starting from two generated plotfiles on one mesh with independent random layouts), each "
                "executed with the real tools under a seeded random pool schedule; signature = sequence of (operation, argument "
                "class, generated/derived source); trivial = a single colander(all, finest)")
    chk.assumptions = ["user recipe new1 = 2*field1 + field2 (bit-exact numpy evaluation)"]
    nlev = 2
    if replay and replay["scenario"].get("chef_cwd_history"):
        from checks import c11
        return c11.cwd_history(chk)
    if replay and replay["scenario"].get("recipe_history"):
        from checks import c11
        return c11.recipe_histories(chk, only=replay["scenario"]["recipe_history"])
    if replay:
        s = replay["scenario"]
        v = run_history(chk, s["sc"], s["cfgseed"], nlev)
        chk.executed("replay")
        if v:
            chk.violation(s["sigs"], v, s)
        return
    scenarios = []
    runs = [("histories <= 2", 2, None)] if chk.tier == "quick" else [("histories <= 2", 2, None), ("histories <= 3", 3, None)]
    for what, maxops, _ in runs:
        c = {"INIT": "Init", "NEXT": "Next", "CONSTANTS": {"MaxOps": maxops, "NLev": nlev},
             "INVARIANTS": ["AllValidInputs", "StrainAllIsIdentity", "CookThenCombineAddsOneField", "Emit"],
             "PROPERTIES": ["NothingOverwritten"]}
        c["CONSTANTS"]["WithK"] = "TRUE"
        r = chk.add_tlc(tlc.run("MC_C14", c, timeout=2400), what)
        if r.violated:
            chk.note_drift("TLC: %s violated in Kitchen.tla (%s)" % (r.violated, what))
        scenarios += r.emitted
    if chk.tier == "thorough":
        c = {"INIT": "Init", "NEXT": "Next", "CONSTANTS": {"MaxOps": 4, "NLev": nlev, "WithK": "TRUE"},
             "INVARIANTS": ["AllValidInputs", "StrainAllIsIdentity", "CookThenCombineAddsOneField", "Emit"]}
        r = chk.add_tlc(tlc.run("MC_C14", c, timeout=600, simulate=400, depth=5, seed=chk.seed + 1, workers=1), "histories of length 4 (simulation)")
        scenarios += r.emitted
    if not scenarios:
        raise core.MachineryError("TLC emitted no histories")
    cap = 700 if chk.tier == "quick" else 3000
    chosen = util.select(scenarios, cap, chk.rng)
    chk.exhaustive = len(chosen) == len(scenarios)
    for sc in chosen:
        cfgseed = chk.rng.randrange(1 << 30)
        v = run_history(chk, sc, cfgseed, nlev, consumers=(len(chk.sigs) % (5 if chk.tier == "quick" else 2) == 0))
        sigs = util.sig_str(sc["sig"])
        triv = len(sc["hist"]) == 1 and sc["hist"][0]["op"] == "colander" and sc["hist"][0]["vars"] == ["all"]
        chk.executed(sigs, not triv, sample=sc["hist"])
        chk.traces += 1
        if v:
            chk.violation(sigs, v, {"sc": sc, "cfgseed": cfgseed, "sigs": sigs})
    # code -> spec: longer pipelines over all writers and both readers on large generated inputs and the assets; every step is
    # judged by OpTrace.tla on the state the earlier steps really left on disk
    from harness import optrace
    optrace.phase(chk, ["strain", "combine", "cook", "read", "iter"], "pipelines on large inputs", 80, 800,
                  assets=["example_plt_3d", "plt1_Y", "plt2_F"], nops=6)
    # pipelines whose chef steps use DIFFERENT recipe files in one process, serial and parallel, with chef's genuine cached pool
    # (RecipeCache.tla): every step evaluates the file it was given
    from checks import c11
    c11.recipe_histories(chk)
