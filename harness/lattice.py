"""
gamma for lattice meshes (spec/Mesh.tla): a 2-axis abstract mesh is extruded along a third
axis (with its own cell count and its own cut into slabs, so that no two axes are
interchangeable), the lattice axes are assigned to physical axes, and every level gets a
full-domain pseudo random (or prescribed) field from which box data are slices.
No property logic.
"""
import numpy as np

from . import gamma


class Lattice(object):
    def __init__(self, mesh, n1, n2, axes=(0, 1, 2), ext0=2, ext_cut=True, ndims=3, scale=1, tile=None):
        """
        mesh : [[{"lo":[a,b],"hi":[c,d]},..],..]   abstract boxes per level
        axes : (physical axis of lattice axis 1, of lattice axis 2, of the extrusion axis)
        ext0 : level-0 cells along the extrusion axis;  ext_cut: cut every box in two slabs there
        scale: every lattice cell becomes `scale` cells along both lattice axes (block meshes)
        """
        self.mesh = mesh
        self.n1, self.n2 = n1, n2
        self.axes = tuple(axes)
        self.ext0 = ext0
        self.ext_cut = ext_cut
        self.ndims = ndims
        self.scale = scale if isinstance(scale, int) else None
        self.scale1, self.scale2 = (scale, scale) if isinstance(scale, int) else tuple(scale)
        self.nlev = len(mesh)
        # tile: every concrete box is cut further into boxes of at most `tile` cells along each axis.  The cells of the level
        # are the same, so every expectation computed on the abstract mesh stands; the NUMBER of boxes (and of neighbours,
        # of tasks, of digits in a box number) grows into the hundreds
        self.tile = tile

    def dom(self):
        d = [0] * self.ndims
        d[self.axes[0]] = self.n1 * self.scale1
        d[self.axes[1]] = self.n2 * self.scale2
        if self.ndims == 3:
            d[self.axes[2]] = self.ext0
        return d

    def level_shape(self, lv):
        return [n * 2 ** lv for n in self.dom()]

    def concrete_boxes(self, lv):
        """[(abstract box number (1-based), {"lo","hi"}), ...] in header order."""
        out = self._concrete_boxes(lv)
        if not self.tile:
            return out
        tiled = []
        for b, box in out:
            ranges = []
            for d in range(self.ndims):
                ranges.append([(a, min(a + self.tile - 1, box["hi"][d])) for a in range(box["lo"][d], box["hi"][d] + 1, self.tile)])
            import itertools
            for combo in itertools.product(*ranges):
                tiled.append((b, {"lo": [c[0] for c in combo], "hi": [c[1] for c in combo]}))
        return tiled

    def _concrete_boxes(self, lv):
        out = []
        s1, s2 = self.scale1, self.scale2
        for b, ab in enumerate(self.mesh[lv], 1):
            lo = [0] * self.ndims
            hi = [0] * self.ndims
            lo[self.axes[0]], hi[self.axes[0]] = ab["lo"][0] * s1, (ab["hi"][0] + 1) * s1 - 1
            lo[self.axes[1]], hi[self.axes[1]] = ab["lo"][1] * s2, (ab["hi"][1] + 1) * s2 - 1
            if self.ndims == 2:
                out.append((b, {"lo": lo, "hi": hi}))
                continue
            ne = self.ext0 * 2 ** lv
            slabs = [(0, ne - 1)]
            if self.ext_cut and ne >= 2:
                cut = max(1, (ne // 2) - (ne // 2) % 2) if ne >= 4 else 1
                slabs = [(0, cut - 1), (cut, ne - 1)]
            for a, c in slabs:
                l2, h2 = list(lo), list(hi)
                l2[self.axes[2]], h2[self.axes[2]] = a, c
                out.append((b, {"lo": l2, "hi": h2}))
        return out

    def ap(self, src, fields, files_of=None, shuffle=None, time=0.5):
        """
        Abstract plotfile for gamma.write_plotfile.  files_of(lv, abstract box) -> file label;
        shuffle(lv, file, [concrete box numbers]) -> on-disk order.
        """
        levels = []
        for lv in range(self.nlev):
            cb = self.concrete_boxes(lv)
            file = [(files_of(lv, b) if files_of else 1) for b, _ in cb]
            disk = {}
            for k, f in enumerate(file, 1):
                disk.setdefault(str(f), []).append(k)
            if shuffle:
                disk = {f: shuffle(lv, int(f), v) for f, v in disk.items()}
            levels.append({"boxes": [bx for _, bx in cb], "file": file, "disk": disk})
        return {"src": src, "ndims": self.ndims, "fields": list(fields), "time": time,
                "dom": self.dom(), "levels": levels}


class Fields(object):
    """Full-domain level fields: value(lv, field) -> ndarray of the level's shape."""

    def __init__(self, lat, seed, payload="tame", special=None):
        self.lat = lat
        self.seed = seed
        self.payload = payload
        self.special = special or {}
        self.cache = {}

    def level(self, lv, fi):
        key = (lv, fi)
        if key not in self.cache:
            shape = self.lat.level_shape(lv)
            if fi in self.special:
                arr = np.asarray(self.special[fi](lv, shape), dtype=np.float64)
            else:
                n = int(np.prod(shape))
                arr = gamma.token_array(self.seed, ("lat", lv, fi), n, self.payload).reshape(shape)
            self.cache[key] = arr
        return self.cache[key]

    def values(self, lv, b, fi, box):
        sl = tuple(slice(a, h + 1) for a, h in zip(box["lo"], box["hi"]))
        return self.level(lv, fi)[sl]


def phys_axis_cell(lat, lv, lattice_axis, idx):
    """index along a lattice axis (in lattice cells of level lv) -> first concrete index"""
    return idx * lat.scale
