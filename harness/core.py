"""
Common machinery of all checks: scratch space, importing the repository from /repo's working
tree, quiet execution of the tools, violation / known-finding / drift book-keeping, evidence.
No property logic.
"""
import contextlib
import hashlib
import io
import json
import os
import random
import shutil
import sys
import tempfile
import time
import traceback

VERIF = os.path.dirname(os.path.dirname(os.path.abspath(__file__)))
REPO = os.environ.get("VERIF_REPO", "/repo")
GUARD = "AMR_KITCHEN_VERIF"


class MachineryError(Exception):
    pass


def import_repo():
    """Make `import amr_kitchen` resolve to /repo's current working tree."""
    os.environ[GUARD] = "1"
    os.environ.setdefault("MPLBACKEND", "Agg")
    if sys.path[0] != REPO:
        sys.path.insert(0, REPO)
    import amr_kitchen  # noqa
    p = os.path.dirname(os.path.abspath(amr_kitchen.__file__))
    if not p.startswith(os.path.abspath(REPO)):
        raise MachineryError("amr_kitchen imported from %s, not from %s" % (p, REPO))
    return amr_kitchen


@contextlib.contextmanager
def quiet():
    """Silence the tools' prints and tqdm bars (they write to stdout / stderr)."""
    so, se = sys.stdout, sys.stderr
    sys.stdout = io.StringIO()
    sys.stderr = io.StringIO()
    try:
        yield sys.stdout
    finally:
        sys.stdout, sys.stderr = so, se


@contextlib.contextmanager
def chdir(path):
    old = os.getcwd()
    os.chdir(path)
    try:
        yield
    finally:
        os.chdir(old)


def jdump(x):
    return json.dumps(x, sort_keys=True, default=_jdefault)


def _jdefault(o):
    try:
        import numpy as np
        if isinstance(o, np.integer):
            return int(o)
        if isinstance(o, np.floating):
            return float(o)
        if isinstance(o, np.ndarray):
            return o.tolist()
        if isinstance(o, np.bool_):
            return bool(o)
    except Exception:
        pass
    if isinstance(o, (set, frozenset)):
        return sorted(o, key=repr)
    if isinstance(o, bytes):
        return o.decode("latin1")
    return repr(o)


def first_diff(a, b, path="$"):
    """First JSON path where two JSON-like values differ (None if equal)."""
    if type(a) != type(b) and not (isinstance(a, (int, float)) and isinstance(b, (int, float))):
        return "%s: %r != %r" % (path, _short(a), _short(b))
    if isinstance(a, dict):
        for k in sorted(set(a) | set(b), key=str):
            if k not in a or k not in b:
                return "%s.%s: missing on one side" % (path, k)
            d = first_diff(a[k], b[k], "%s.%s" % (path, k))
            if d:
                return d
        return None
    if isinstance(a, (list, tuple)):
        if len(a) != len(b):
            return "%s: length %d != %d" % (path, len(a), len(b))
        for i, (x, y) in enumerate(zip(a, b)):
            d = first_diff(x, y, "%s[%d]" % (path, i))
            if d:
                return d
        return None
    if isinstance(a, float) and isinstance(b, float):
        if a != b and not (a != a and b != b):
            return "%s: %r != %r" % (path, a, b)
        return None
    if a != b:
        return "%s: %r != %r" % (path, _short(a), _short(b))
    return None


def _short(x):
    s = repr(x)
    return s if len(s) < 120 else s[:117] + "..."


class Check(object):
    """One run of one property's check."""

    def __init__(self, prop, tier, seed, level="model_checking"):
        self.prop = prop
        self.tier = tier
        self.seed = seed
        self.level = level
        self.t0 = time.time()
        self.rng = random.Random(seed * 1000003 + int(hashlib.sha1(prop.encode()).hexdigest()[:6], 16))
        self.scratch = tempfile.mkdtemp(prefix="verif_%s_" % prop)
        self.violations = []       # (sig, detail, replay path)
        self.known_hits = {}       # sig -> what
        self.drift = []
        self.notes = []
        self.sigs = set()          # distinct non-trivial scenario signatures executed on the code
        self.evaluations = 0
        self.samples = []
        self.tlc = []              # TLCResult summaries
        self.states = 0
        self.transitions = 0
        self.traces = 0
        self.exhaustive = False
        self.rule = ""
        self.assumptions = []
        self.extra = {}
        self.known = [k for k in load_known() if k.get("property") == prop and k.get("status") == "open"]
        self._n = 0

    # -- scratch
    def tmp(self, name=None):
        """A fresh scratch path.  One in three has a blank and brackets in its name, one in three parentheses and an equals sign:
        legal characters of a directory name that mean something to glob / regular-expression / shell-like helpers."""
        self._n += 1
        if name is None:
            name = ["d%06d", "d%06d [b=1]", "d%06d(Re=100)"][self._n % 3] % self._n
        return os.path.join(self.scratch, name)

    def tmp_reuse(self, name=None):
        """A scratch path for ONE scenario at a time: every path is handed out twice in a row (its previous content removed
        first), so that consecutive scenarios see different plotfiles at the SAME path -- what a cache keyed by path would
        confuse.  Only for callers that are done with the previous scenario's directory."""
        last = getattr(self, "_reuse_last", None)
        if last is not None and getattr(self, "_reuse_count", 0) < 2:
            shutil.rmtree(last, ignore_errors=True)
            self._reuse_count += 1
            return last
        if last is not None:
            shutil.rmtree(last, ignore_errors=True)
        self._reuse_last = self.tmp(name)
        self._reuse_count = 1
        return self._reuse_last

    def cleanup(self):
        shutil.rmtree(self.scratch, ignore_errors=True)

    # -- TLC bookkeeping
    def add_tlc(self, res, what):
        if res.error:
            raise MachineryError("TLC (%s): %s" % (what, res.error))
        s = res.summary()
        s["what"] = what
        self.tlc.append(s)
        self.states += res.distinct
        self.transitions += res.states
        return res

    # -- verdicts
    def executed(self, sig, nontrivial=True, sample=None):
        self.evaluations += 1
        if nontrivial:
            self.sigs.add(sig)
        if sample is not None and len(self.samples) < 3:
            self.samples.append(sample)

    def violation(self, sig, detail, scenario, klass=None):
        """A requirement-layer violation observed on the real code.  `klass` is the scenario-class
        signature (computed from the input only) that known findings are matched on."""
        key = klass if klass is not None else sig
        for k in self.known:
            if k["sig"] == key or (k["sig"].endswith("*") and key.startswith(k["sig"][:-1])):
                if k["sig"] not in self.known_hits:
                    self.known_hits[k["sig"]] = {"what": k["what"], "count": 0, "example": detail}
                self.known_hits[k["sig"]]["count"] += 1
                return False
        if len(self.violations) < 20:
            os.makedirs(os.path.join(VERIF, "replays"), exist_ok=True)
            h = hashlib.sha1(jdump([sig, scenario]).encode()).hexdigest()[:10]
            path = os.path.join(VERIF, "replays", "%s-%s-%d.json" % (self.prop, h, self.seed))
            with open(path, "w") as f:
                f.write(jdump({"property": self.prop, "sig": sig, "detail": detail,
                               "seed": self.seed, "scenario": scenario}))
            self.violations.append((sig, detail, path))
        else:
            self.violations.append((sig, detail, self.violations[0][2]))
        return True

    def note_drift(self, text):
        if len(self.drift) < 50:
            self.drift.append(text)

    # -- finish
    def finish(self):
        wall = time.time() - self.t0
        cov = {"states": max(self.states, 0), "transitions": max(self.transitions, 0),
               "traces_validated_against_impl": self.traces,
               "evaluations": self.evaluations,
               "distinct_nontrivial": len(self.sigs),
               "rule": self.rule,
               "samples": self.samples if self.samples else ["(none)"],
               "exhaustive": self.exhaustive,
               "tlc_runs": self.tlc,
               "spec_drift": self.drift,
               "known_findings_hit": self.known_hits,
               "notes": self.notes}
        cov.update(self.extra)
        ev = {"property_id": self.prop, "tier": self.tier, "seed": self.seed, "level": self.level,
              "coverage": cov, "assumptions": self.assumptions, "wall_s": round(wall, 2),
              "violations": len(self.violations)}
        evdir = os.environ.get("VERIF_EVIDENCE_DIR", os.path.join(VERIF, "evidence"))
        os.makedirs(evdir, exist_ok=True)
        with open(os.path.join(evdir, "%s.json" % self.prop), "w") as f:
            f.write(json.dumps(ev, indent=1, sort_keys=True, default=_jdefault))
        for sig, k in sorted(self.known_hits.items()):
            print("KNOWN-FINDING: property=%s %s [%s] (%d scenarios)" % (self.prop, k["what"], sig, k["count"]))
        for d in self.drift[:10]:
            print("SPEC-DRIFT: property=%s %s" % (self.prop, d))
        if os.environ.get("VERIF_DEBUG"):
            import collections, re as _re
            grp = collections.Counter()
            for sig, detail, path in self.violations:
                grp[(_re.sub(r"[0-9]+", "#", sig)[:140], _re.sub(r"[-0-9.e+]+", "#", detail)[:160])] += 1
            for (sg, dt), n in grp.most_common(60):
                print("DEBUG %5d  %s\n             %s" % (n, sg, dt))
        seen = set()
        for sig, detail, path in self.violations:
            if path in seen:
                continue
            seen.add(path)
            print("VIOLATION property=%s replay=%s" % (self.prop, path))
            print("  sig=%s :: %s" % (sig, detail[:400]))
        print("%s %s: %d evaluations, %d distinct signatures, TLC %d states, %d traces, %d violations, %.1fs"
              % (self.prop, self.tier, self.evaluations, len(self.sigs), self.states, self.traces,
                 len(self.violations), wall))
        self.cleanup()
        return 1 if self.violations else 0


def load_known():
    p = os.path.join(VERIF, "known_findings.json")
    if not os.path.exists(p):
        return []
    return json.load(open(p))


def main_wrapper(prop, runner, argv=None):
    """Entry used by ./check: parse args, run, map exceptions to exit codes."""
    import argparse
    ap = argparse.ArgumentParser()
    ap.add_argument("--tier", default=os.environ.get("VERIF_TIER", "quick"))
    ap.add_argument("--replay", default=None)
    ap.add_argument("--seed", type=int, default=int(os.environ.get("VERIF_SEED", "0")))
    a = ap.parse_args(argv)
    tier = a.tier if a.tier in ("quick", "thorough") else "quick"
    chk = Check(prop, tier, a.seed)
    try:
        import_repo()
        replay = None
        if a.replay:
            replay = json.load(open(a.replay))
        if replay and isinstance(replay.get("scenario"), dict) and "optrace" in replay["scenario"]:
            # a recorded operation history (harness/optrace.py): re-record it from its seed and validate it again
            from harness import optrace
            optrace.replay(chk, replay["scenario"])
        elif replay and isinstance(replay.get("scenario"), dict) and replay["scenario"].get("poolenv"):
            from harness import poolenv
            poolenv.replay(chk, replay["scenario"])
        elif replay and isinstance(replay.get("scenario"), dict) and replay["scenario"].get("keys"):
            from harness import keys
            keys.replay(chk, replay["scenario"])
        elif replay and isinstance(replay.get("scenario"), dict) and replay["scenario"].get("phase_module"):
            # a scenario of one of the shared phases (harness/<module>.py: refine, limits, ...): the module replays it itself
            import importlib
            importlib.import_module("harness." + replay["scenario"]["phase_module"]).replay(chk, replay["scenario"])
        elif replay and isinstance(replay.get("scenario"), dict) and replay["scenario"].get("cli"):
            from harness import cli
            cli.replay(chk, replay["scenario"])
        else:
            runner(chk, replay)
        if tier == "thorough" and not replay:
            from checks import liveness
            liveness.run(chk)
        return chk.finish()
    except MachineryError as e:
        print("MACHINERY-ERROR: property=%s %s" % (prop, e))
        chk.cleanup()
        return 2
    except Exception:
        print("MACHINERY-ERROR: property=%s unexpected exception in the harness" % prop)
        traceback.print_exc()
        chk.cleanup()
        return 2
