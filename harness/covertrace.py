"""
Code -> spec at scale for the covering-grid tools (spec/trace/CoverTrace.tla).

Random properly nested ratio-2 meshes well beyond the bounds of MC_C08 / MC_C10 (up to 4 levels, up to 4 boxes per level, 8 x 8
level-0 cells, 64 x 64 pixels) are written with cell values that NAME themselves (level, cell); the real tool runs under a seeded
random pool schedule; every pixel of its output is decoded back to the (level, cell) it names and the whole grid is written as one
ndjson line.  TLC judges every line with Mesh!CoverSpec / CoverLevel.  Nothing in a line is computed from an expectation.
  tool = "plate" (C08): mandoline's 2-D flattening (fformat='return'), with grid_level
  tool = "whip"  (C10): whip's uniform grid of a 3-D extrusion of the mesh (every column along the extruded axis must name one cell)
"""
import json
import os
import random
import sys

import numpy as np

from harness import alpha, core, gamma, lattice, shims, tlc, util

BASE = 4096.0        # value of cell (c1, c2) of level l: l * BASE * BASE + c1 * BASE + c2 + 0.25  (exact in float64)


def encode(lv, shape, a1, a2):
    i1 = np.arange(shape[a1]).reshape([-1 if d == a1 else 1 for d in range(len(shape))])
    i2 = np.arange(shape[a2]).reshape([-1 if d == a2 else 1 for d in range(len(shape))])
    return np.broadcast_to(lv * BASE * BASE + i1 * BASE + i2 + 0.25, shape).copy()


def decode(v):
    if not np.isfinite(v) or v < 0 or abs((v - 0.25) - round(v - 0.25)) > 1e-9:
        return [-1, -1, -1]
    n = int(round(v - 0.25))
    return [int(n // (BASE * BASE)), int((n // BASE) % BASE), int(n % BASE)]


def random_mesh(rng, maxlev=4):
    """Level 0 tiles an n1 x n2 domain; every finer level has 1-3 disjoint boxes, aligned (even lo, odd hi) and nested."""
    n1, n2 = rng.randint(3, 8), rng.randint(3, 8)
    xs = sorted({0, n1} | ({rng.randint(1, n1 - 1)} if rng.random() < 0.6 else set()))
    ys = sorted({0, n2} | ({rng.randint(1, n2 - 1)} if rng.random() < 0.6 else set()))
    mesh = [[{"lo": [xs[i], ys[j]], "hi": [xs[i + 1] - 1, ys[j + 1] - 1]} for j in range(len(ys) - 1) for i in range(len(xs) - 1)]]
    rng.shuffle(mesh[0])
    nlev = rng.randint(1, maxlev)
    for lv in range(1, nlev):
        prev = mesh[-1]
        boxes = []
        for _ in range(rng.randint(1, 3)):
            for _try in range(20):
                pb = rng.choice(prev)
                a = rng.randint(pb["lo"][0], pb["hi"][0])
                c = rng.randint(a, pb["hi"][0])
                b = rng.randint(pb["lo"][1], pb["hi"][1])
                d = rng.randint(b, pb["hi"][1])
                nb = {"lo": [2 * a, 2 * b], "hi": [2 * c + 1, 2 * d + 1]}
                if all(nb["hi"][0] < o["lo"][0] or o["hi"][0] < nb["lo"][0] or nb["hi"][1] < o["lo"][1] or o["hi"][1] < nb["lo"][1] for o in boxes):
                    boxes.append(nb)
                    break
        if not boxes:
            break
        mesh.append(boxes)
    return n1, n2, mesh


def record(chk, seed, tool, tid):
    rng = random.Random(seed)
    n1, n2, mesh = random_mesh(rng, 4 if tool == "plate" else 3)
    lim = rng.randint(0, len(mesh) - 1)
    axes = rng.choice([(0, 1), (1, 0)]) if tool == "plate" else rng.choice([(0, 1, 2), (1, 2, 0), (2, 0, 1), (0, 2, 1), (1, 0, 2), (2, 1, 0)])
    nd = 2 if tool == "plate" else 3
    cfg_ = gamma.Config.draw(rng, ndims=nd, payload="tame")
    lat = lattice.Lattice(mesh, n1, n2, axes=axes, ndims=nd, scale=1, ext0=rng.choice([2, 3]), ext_cut=rng.random() < 0.5)
    a1, a2 = axes[0], axes[1]
    special = {1: lambda lv, shape: encode(lv, shape, a1, a2)}
    flds = lattice.Fields(lat, seed, payload="tame", special=special)
    nfiles = rng.randint(1, 4)
    ap = lat.ap("A", ["tag", "other"], files_of=lambda lv, b: rng.randint(1, nfiles), shuffle=lambda lv, f, v: rng.sample(v, len(v)))
    d = chk.tmp_reuse()
    os.makedirs(d)
    src = os.path.join(d, "plt")
    gamma.write_plotfile(src, ap, cfg_, values=flds.values)
    line = {"tid": tid, "tool": tool, "n1": n1, "n2": n2, "lim": lim, "mesh": mesh, "outcome": "ok", "grid": [], "glev": [], "hasglev": tool == "plate",
            "counts": [], "seed": seed}
    before = alpha.tree_digest(src)
    try:
        with shims.pool_shim(shims.Scheduler(default="random", rng=rng)), shims.poison(-7.0), core.quiet():
            if tool == "plate":
                from amr_kitchen.mandoline import Mandoline
                out = Mandoline(src, fields=["tag", "grid_level"], limit_level=lim, serial=rng.random() < 0.5, verbose=0).slice(fformat="return")
                arr = np.asarray(out["tag"]).T          # (x, y)
                gl = np.asarray(out["grid_level"]).T
                if axes == (1, 0):
                    arr, gl = arr.T, gl.T               # -> (lattice axis 1, lattice axis 2)
                line["grid"] = [[decode(float(v)) for v in row] for row in arr]
                line["glev"] = [[int(v) if float(v).is_integer() else -1 for v in row] for row in gl]
            else:
                from amr_kitchen.whip import cli
                outp = os.path.join(d, "grid")
                old = sys.argv
                sys.argv = ["whip", "-v", "tag", "-o", outp, "-y", "-l", str(lim), src]
                try:
                    cli.main()
                finally:
                    sys.argv = old
                g = np.load(outp + ".npy")
                g = np.moveaxis(g, [axes[0], axes[1], axes[2]], [0, 1, 2])      # -> (lattice 1, lattice 2, extruded)
                grid = []
                for i in range(g.shape[0]):
                    row = []
                    for j in range(g.shape[1]):
                        col = g[i, j, :]
                        row.append(decode(float(col[0])) if np.all(col == col[0]) else [-2, -2, -2])
                    grid.append(row)
                line["grid"] = grid
    except SystemExit as e:
        line["outcome"] = "exit %r" % (e.code,)
    except Exception as e:
        line["outcome"] = "%s: %s" % (type(e).__name__, str(e)[:120])
    if alpha.tree_digest(src) != before:
        line["outcome"] = "input-modified"
    return line


def record_pestle(chk, seed, tid):
    """pestle on an extrusion of a random nested mesh (two cells per lattice cell: an even blocking factor) whose fields are the
    INDICATORS of the levels: the integral of indicator l up to the limit, in units of lattice cells of level l."""
    rng = random.Random(seed)
    n1, n2, mesh = random_mesh(rng, 3)
    lim = rng.randint(0, len(mesh) - 1)
    axes = rng.choice([(0, 1, 2), (1, 2, 0), (2, 0, 1), (0, 2, 1), (1, 0, 2), (2, 1, 0)])
    cfg_ = gamma.Config.draw(rng, ndims=3, payload="tame", dyadic=True)
    ext0 = rng.choice([2, 4])
    lat = lattice.Lattice(mesh, n1, n2, axes=axes, ndims=3, scale=2, ext0=ext0, ext_cut=rng.random() < 0.5)
    names = ["ind%d" % l for l in range(len(mesh))]
    special = {l + 1: (lambda lv, shape, l=l: np.full(shape, 1.0 if lv == l else 0.0)) for l in range(len(mesh))}
    flds = lattice.Fields(lat, seed, payload="tame", special=special)
    ap = lat.ap("A", names, files_of=lambda lv, b: rng.randint(1, 3), shuffle=lambda lv, f, v: rng.sample(v, len(v)))
    d = chk.tmp_reuse()
    os.makedirs(d)
    src = os.path.join(d, "plt")
    gamma.write_plotfile(src, ap, cfg_, values=flds.values)
    line = {"tid": tid, "tool": "pestle", "n1": n1, "n2": n2, "lim": lim, "mesh": mesh, "outcome": "ok", "grid": [], "glev": [], "hasglev": False,
            "counts": [], "seed": seed}
    before = alpha.tree_digest(src)
    try:
        with shims.pool_shim(shims.Scheduler(default="random", rng=rng)), core.quiet():
            from amr_kitchen import PlotfileCooker
            from amr_kitchen.pestle import volume_integral
            pck = PlotfileCooker(src, ghost=True)
            for l in range(lim + 1):
                got = float(volume_integral(pck, names[l], limit_level=lim))
                dv = float(np.prod(gamma.level_dx(cfg_, 3, l)))
                x = got / dv / (4.0 * ext0 * 2 ** l)        # 2 x 2 concrete cells per lattice cell, ext0 * 2**l cells along the extrusion
                line["counts"].append(int(round(x)) if abs(x - round(x)) < 1e-6 else -1)
    except Exception as e:
        line["outcome"] = "%s: %s" % (type(e).__name__, str(e)[:120])
    if alpha.tree_digest(src) != before:
        line["outcome"] = "input-modified"
    return line


def validate(chk, lines, what):
    tf = os.path.join(chk.scratch, "covertrace_%s.ndjson" % what)
    with open(tf, "w") as f:
        for ln in lines:
            f.write(json.dumps(ln) + "\n")
    r = tlc.run("CoverTrace", {"SPECIFICATION": "TraceSpec", "INVARIANTS": ["Report"], "POSTCONDITION": "TraceAccepted"},
                workers=1, timeout=1800, env={"TRACE_FILE": tf})
    if r.error or r.violated:
        raise core.MachineryError("CoverTrace.tla did not consume the recorded runs (%s):\n%s" % (r.error or r.violated, r.stdout[-1500:]))
    rep = [e for e in r.emitted if isinstance(e, dict) and "violations" in e]
    if not rep or rep[-1]["lines"] != len(lines):
        raise core.MachineryError("CoverTrace.tla printed no complete report:\n%s" % r.stdout[-1500:])
    chk.add_tlc(r, "CoverTrace: %s (%d recorded runs)" % (what, len(lines)))
    return [tuple(v) for v in rep[-1]["violations"]]


def phase(chk, tool, quick_n=40, thorough_n=400, seeds=None):
    n = quick_n if chk.tier == "quick" else thorough_n
    seeds = seeds or [chk.rng.randrange(1 << 30) for _ in range(n)]
    lines = [(record_pestle(chk, s, k + 1) if tool == "pestle" else record(chk, s, tool, k + 1)) for k, s in enumerate(seeds)]
    bad = {}
    for tid, clause in validate(chk, lines, tool):
        bad.setdefault(int(tid), []).append(clause)
    for ln in lines:
        sig = util.sig_str("covertrace", tool, len(ln["mesh"]), ln["lim"], [len(L) for L in ln["mesh"]])
        chk.executed(sig, len(ln["mesh"]) > 1, sample={"n1": ln["n1"], "n2": ln["n2"], "lim": ln["lim"], "levels": len(ln["mesh"])})
        chk.traces += 1
        cl = bad.get(ln["tid"])
        if cl:
            if any(c.startswith("MACHINERY") for c in cl):
                raise core.MachineryError("CoverTrace: generated mesh of seed %d is not well-formed" % ln["seed"])
            chk.violation(sig, "recorded run of %s on a generated %d-level mesh (%d x %d level-0 cells, limit %d) is rejected by CoverTrace.tla: %s%s" % (
                {"plate": "mandoline's 2-D flattening", "whip": "whip", "pestle": "pestle"}[tool], len(ln["mesh"]), ln["n1"], ln["n2"], ln["lim"], ", ".join(sorted(cl)),
                " (%s)" % ln["outcome"] if ln["outcome"] != "ok" else ""),
                {"phase_module": "covertrace", "tool": tool, "seed": ln["seed"], "sigs": sig})


def replay(chk, s):
    lines = [record_pestle(chk, s["seed"], 1) if s["tool"] == "pestle" else record(chk, s["seed"], s["tool"], 1)]
    chk.executed("replay")
    for tid, clause in validate(chk, lines, s["tool"]):
        chk.violation(s["sigs"], "recorded run rejected by CoverTrace.tla: %s" % clause, s)
        break
