"""
Recorder and validator for OPERATION HISTORIES (spec/trace/OpTrace.tla).

Real tools are run on generated inputs that are far larger than what the model instances
enumerate (up to 4 levels, a dozen boxes per level spread over up to a dozen binary files in
any on-disk order, a dozen fields) and on the repository's own assets; after every operation
the independent parser (alpha) abstracts the directories involved into the vocabulary of
Plotfile.tla!Content -- every component array is named by the digest of its bytes, every
min/max entry by the bits of the floats -- and one ndjson line is written.  TLC then judges
every line with the requirement operators of the tool modules applied to the state the trace
itself built up.  This file contains no property logic: it generates, runs, abstracts, writes
lines and turns TLC's report into verdicts.
"""
import json
import os
import random

import numpy as np

from . import alpha, core, gamma, shims, tlc

NONEV = 99
RECIPE = os.path.join(os.path.dirname(os.path.abspath(__file__)), "recipes", "r_u1.py")


class DigestReg(object):
    """Stand-in for gamma.Registry: an array is named by the digest of its bytes."""

    def token_of(self, arr):
        return gamma.digest(arr)


def shaped(tok, shape):
    """token of a component array = digest of its values (x fastest) + the shape of the box it belongs to"""
    return "%s:%s" % (tok, "x".join(str(int(n)) for n in shape))


def fhex(x):
    return float(x).hex()


class Kitchen(object):
    """The directories of one history and the box-id registry of their common mesh."""

    def __init__(self, root):
        self.root = root
        self.ids = {}            # (level, lo, hi) -> id (order of first appearance at that level)
        self.count = {}
        self.shapes = {}         # (level, id) -> box shape

    def path(self, d):
        return os.path.join(self.root, d)

    def box_id(self, lv, idx):
        key = (lv, tuple(idx[0]), tuple(idx[1]))
        if key not in self.ids:
            self.count[lv] = self.count.get(lv, 0) + 1
            self.ids[key] = self.count[lv]
            self.shapes[(lv, self.ids[key])] = tuple(h - a + 1 for a, h in zip(idx[0], idx[1]))
        return self.ids[key]

    def content(self, d):
        """OpTrace content of directory d, or {"k": "malformed", ...}."""
        A = alpha.abstract(self.path(d), DigestReg())
        wf = alpha.wellformed(A)
        if wf:
            return {"k": "malformed", "why": "; ".join(wf[:3])[:300]}
        C = alpha.content(A)
        lev = []
        for l, boxes in enumerate(C["lev"]):
            row = []
            for b in boxes:
                mm = [fhex(mn) + "/" + fhex(mx) for mn, mx in zip(b["mins"], b["maxs"])]
                bid = self.box_id(l, b["idx"])
                row.append({"idx": bid, "comps": [shaped(t, self.shapes[(l, bid)]) for t in b["comps"]], "mm": mm})
            lev.append(row)
        return {"k": "ok", "fields": list(C["fields"]), "lev": lev}

    def arrays(self, d):
        """[(level, id, [component arrays], mins, maxs)] of directory d (independent reader)."""
        A = alpha.abstract(self.path(d))
        out = []
        for l, Cl in enumerate(A["lev"]):
            for idx, (fn, off), mn, mx in zip(Cl["idx"], Cl["fod"], Cl["mins"], Cl["maxs"]):
                fab = alpha.read_fab_at(os.path.join(self.path(d), Cl["dir"], fn), off)
                out.append((l, self.box_id(l, idx), fab.get("arrays", []), mn, mx))
        return out


def plain(C):
    return {"fields": C["fields"], "lev": C["lev"]}


def rand_layout(rng, nb, maxfile):
    nf = rng.randint(1, max(1, min(nb, maxfile)))
    file = [rng.randint(1, nf) for _ in range(nb)]
    used = sorted(set(file))
    ren = {f: i + 1 for i, f in enumerate(used)}
    file = [ren[f] for f in file]
    disk = {}
    for b, f in enumerate(file, 1):
        disk.setdefault(str(f), []).append(b)
    for f in disk:
        rng.shuffle(disk[f])
    return {"file": file, "disk": disk}


def make_inputs(kit, rng, ndims, big=True, blanks=True):
    """Two generated plotfiles A and B on one mesh with independent layouts; returns their field lists."""
    nl = rng.randint(1, 4 if big else 2)
    maxb = 12 if big else 4
    classes = [[rng.randint(1, 3) for _ in range(rng.randint(1, maxb))] for _ in range(nl)]
    # one history in five: TWIN boxes (gamma.twin_ap) -- equal cell counts and header lengths, permuted extents, few files
    twins = rng.random() < 0.2
    if twins:
        nl = rng.randint(1, 2)
        classes = [[1, 1, 1], [1, 1]][:nl]
    nfa = rng.randint(2, 12 if big else 4)
    # names: plain, or awkward but legal (one a prefix of another, parentheses, dots, digits; a blank only where no tool of the
    # history takes names as one blank-separated string)
    r_ = rng.random()
    if r_ < 0.4:
        pa = ["a%d" % i for i in range(12)]
        pb = ["b%d" % i for i in range(6)]
    elif r_ < 0.55:
        # letters outside ASCII (headers are UTF-8 text): every tool of the history writes, reads back and looks up these names
        pa = ["temp\u00e9rature", "\u0394p", "\u03bc_t", "\u03c1", "\u0394T", "Y(H\u2082)", "\u00e91", "\u00f12", "\u00fc3", "\u00f84", "\u00e55", "\u00e76"]
        pb = ["\u03c0", "\u0394q", "\u03c3", "\u03c4_w", "\u03ba", "\u03bb"]
    else:
        pa = ["temp", "temperature", "Y(H2)", "Y(H2O)", "rho.E", "x_velocity", "density", "density2", "I_R(CH4)", "T-1", "mag", "magvort"]
        pb = ["p", "pressure", "Y(O2)", "Y(O)", "avg_pressure", "divu"]
        if blanks:
            pa[-1], pb[-1] = "mag vort", "div u"
        rng.shuffle(pa)
        rng.shuffle(pb)
    fa = pa[:nfa]
    # B shares some names with A (combine must skip them) and brings new ones
    shared = rng.sample(fa, rng.randint(0, min(2, nfa)))
    fb = shared + pb[:rng.randint(1, 6 if big else 3)]
    rng.shuffle(fb)
    cfg_ = gamma.Config.draw(rng, ndims=ndims, payload="tame")
    rel = rng.choice(["independent", "independent", "same", "same-files"])
    # one history in six lives in an index space far from 0 or below it (FAB headers of more than a hundred characters, signs)
    far_shift = [None, None, None, None, None, [[1000, 20000, 300000], [-100000, 4096, 65536], [-8, -3, -16]][rng.randrange(3)]][rng.randrange(6)]
    lays_a = None
    for src, fields in (("A", fa), ("B", fb)):
        lays = [rand_layout(rng, len(c), (1 + rng.randint(0, 1)) if twins else (12 if big else 3)) for c in classes]
        if src == "A":
            lays_a = lays
        elif rel == "same":
            lays = [dict(file=list(L["file"]), disk={f: list(v) for f, v in L["disk"].items()}) for L in lays_a]
        elif rel == "same-files":
            # the same boxes in the same binary files, stored in another order at some of the levels
            lays = [dict(file=list(L["file"]), disk={f: (rng.sample(v, len(v)) if rng.random() < 0.5 else list(v)) for f, v in L["disk"].items()})
                    for L in lays_a]
        if twins:
            ap = gamma.twin_ap(src, fields, ndims, nl, lays, time=cfg_.time)
        else:
            ap = gamma.make_ap(src, fields, classes, lays, ndims=ndims, time=cfg_.time)
            if far_shift is not None:
                gamma.shift_indices(ap, far_shift)        # the same index space for both plotfiles of the history
        gamma.write_plotfile(kit.path(src), ap, cfg_, gamma.Registry())
    return {"A": fa, "B": fb}


# ---------------------------------------------------------------- selector generators (forms of MC_C01)

def rand_fsel(rng, fields):
    n = len(fields)
    k = rng.choice(["name", "name", "int", "ilist", "nlist", "slice", "slice"])
    if k == "name":
        return {"k": "name", "v": rng.choice(fields + [fields[0] + "_", (fields[-1][:-1] if fields[-1][:-1] not in fields else "zz") or "zz"]
                                            if rng.random() < 0.15 else fields)}
    if k == "int":
        return {"k": "int", "v": rng.randint(-n, n) if rng.random() < 0.3 else rng.randrange(n)}
    if k == "ilist":
        m = rng.randint(1, min(n, 4))
        v = sorted(rng.sample(range(n), m))
        if rng.random() < 0.1:
            v = v + [n]
        return {"k": "ilist", "v": v}
    if k == "nlist":
        m = rng.randint(1, min(n, 4))
        idx = sorted(rng.sample(range(n), m))
        return {"k": "nlist", "v": [fields[i] for i in idx]}
    while True:
        a = rng.choice([NONEV] + list(range(n)))
        b = rng.choice([NONEV] + list(range(1, n + 2)))
        s = rng.choice([NONEV, 1, 2, 3])
        lo = 0 if a == NONEV else a
        hi = n if b == NONEV else min(b, n)
        if lo < hi:
            return {"k": "slice", "a": a, "b": b, "s": s}


def rand_bsel(rng, nb):
    k = rng.choice(["int", "int", "npint", "slice", "list", "mask"])
    if k in ("int", "npint"):
        return {"k": k, "v": rng.randint(-nb, nb) if rng.random() < 0.3 else rng.randrange(nb)}
    if k == "slice":
        return {"k": "slice", "a": rng.choice([NONEV] + list(range(nb))), "b": rng.choice([NONEV] + list(range(nb + 2))),
                "s": rng.choice([NONEV, 1, 2])}
    if k == "list":
        v = [rng.randrange(nb) for _ in range(rng.randint(1, min(nb + 1, 5)))]
        if rng.random() < 0.1:
            v.append(nb)
        return {"k": "list", "v": v}
    v = [rng.random() < 0.5 for _ in range(nb)]
    if rng.random() < 0.1:
        v.append(True)
    return {"k": "mask", "v": v}


def py_none(v):
    return None if v == NONEV else v


def py_fsel(f):
    if f["k"] in ("name", "int"):
        return f["v"]
    if f["k"] in ("ilist", "nlist"):
        return list(f["v"])
    return slice(py_none(f["a"]), py_none(f["b"]), py_none(f["s"]))


def py_bsel(b, variant):
    k = b["k"]
    if k == "int":
        return b["v"]
    if k == "npint":
        return np.int64(b["v"])
    if k == "slice":
        return slice(py_none(b["a"]), py_none(b["b"]), py_none(b["s"]))
    if k == "list":
        return np.array(b["v"], dtype=int) if variant else list(b["v"])
    return np.array(b["v"], dtype=bool) if variant else [bool(x) for x in b["v"]]


def abs_box(arr, S, kit, lv, ndims, with_idxs=True):
    """Returned array -> {"idxs": ids of the boxes of level lv holding these values with this shape, "comps", "scalar"}."""
    if not isinstance(arr, np.ndarray) or arr.dtype != np.float64 or arr.ndim not in (ndims, ndims + 1):
        out = {"comps": ["not-a-float64-box-array"], "scalar": False}
        if with_idxs:
            out["idxs"] = []
        return out
    scalar = arr.ndim == ndims
    planes = [arr] if scalar else [arr[..., j] for j in range(arr.shape[-1])]
    comps = [shaped(gamma.digest(p.ravel(order="F")), arr.shape[:ndims]) for p in planes]
    out = {"comps": comps, "scalar": scalar}
    if with_idxs:
        out["idxs"] = [b["idx"] for b in S["lev"][lv] if comps and comps[0] in b["comps"]] if lv is not None else []
    return out


# ---------------------------------------------------------------- one history

def record_history(chk, hseed, kinds, tid, ndims=3, big=True, nops=4, asset=None):
    """
    Run one seeded history of real operations; returns (lines, summary).  `kinds` is a subset of
    {"strain", "combine", "cook", "read", "iter"}.  With `asset`, the history starts from a copy
    of that repository asset instead of generated inputs.
    """
    from amr_kitchen import PlotfileCooker
    from amr_kitchen.chef import Chef
    from amr_kitchen.colander import Colander
    from amr_kitchen.combine import combine
    from amr_kitchen.taste import Taster
    rng = random.Random(hseed)
    root = chk.tmp()
    os.makedirs(root)
    kit = Kitchen(root)
    lines = [{"ev": "Begin", "tid": tid}]
    if asset:
        import shutil
        shutil.copytree(asset, kit.path("A"))
        present = ["A"]
    else:
        make_inputs(kit, rng, ndims, big, blanks="cook" not in kinds)
        present = ["A", "B"]
    conts = {}
    for d in present:
        conts[d] = kit.content(d)
        if conts[d]["k"] != "ok":
            raise core.MachineryError("alpha finds an input malformed: %s" % conts[d]["why"])
        lines.append({"ev": "Have", "d": d, "C": plain(conts[d])})
    nlev = {d: len(conts[d]["lev"]) for d in present}
    ops = []
    nout = 0
    readers, streams = {}, {}

    def sched():
        return shims.Scheduler(default="random", rng=random.Random(rng.randrange(1 << 30)))

    def taste(path):
        try:
            with shims.pool_shim(shims.Scheduler()), core.quiet():
                return bool(Taster(path, nofail=True, verbose=0))
        except Exception:
            return False

    def reuse_out(*srcs):
        """Sometimes the output path is one that an EARLIER operation of the history wrote (a second run into the same output):
        what the directory then holds must be what THIS operation was asked for."""
        prev = [d for d in present if d.startswith("d") and d not in srcs]
        if prev and rng.random() < 0.3:
            return rng.choice(prev)
        return None

    for step in range(nops):
        kind = rng.choice(kinds)
        src = rng.choice(present)
        fields = conts[src]["fields"]
        line = None
        if kind == "strain":
            if rng.random() < 0.25:
                vs = ["all"]
            else:
                m = rng.randint(1, len(fields))
                vs = rng.sample(fields, m)
                if rng.random() < 0.2:
                    # an unknown name: a proper prefix of a known one
                    vs.insert(rng.randrange(len(vs) + 1), fields[0][:-1] if len(fields[0]) > 1 and fields[0][:-1] not in fields else "zz")
            L = rng.randrange(nlev[src])
            out = reuse_out(src, locals().get("src2") if kind == "combine" else None)
            if out is None:
                nout += 1
                out = "d%d" % nout
            line = {"ev": "Strain", "src": src, "out": out, "vars": vs, "L": L}
            call = lambda: Colander(plotfile=kit.path(src), limit_level=L, output=kit.path(out), variables=list(vs)).strain()
        elif kind == "combine":
            others = [d for d in present if d != src]
            if not others or ndims != 3:
                continue
            src2 = rng.choice(others)
            f2 = conts[src2]["fields"]

            def sub(fs):
                r = rng.random()
                if r < 0.35:
                    return ["None"]
                if r < 0.5 and len(fs) >= 4:
                    # a run of consecutive fields, first and last in place, the inner ones out of file order
                    n = rng.randint(4, min(len(fs), 6))
                    a = rng.randrange(len(fs) - n + 1)
                    inner = list(range(a + 1, a + n - 1))
                    while inner == sorted(inner):
                        rng.shuffle(inner)
                    return [fs[i] for i in [a] + inner + [a + n - 1]]
                idx = rng.sample(range(len(fs)), rng.randint(1, len(fs)))
                if r < 0.8:
                    idx = sorted(idx)
                return [fs[i] for i in idx]
            v1, v2 = sub(fields), sub(f2)
            out = reuse_out(src, locals().get("src2") if kind == "combine" else None)
            if out is None:
                nout += 1
                out = "d%d" % nout
            line = {"ev": "Combine", "src": src, "src2": src2, "out": out, "v1": v1, "v2": v2}

            def call():
                a1 = None if v1 == ["None"] else list(v1)
                a2 = None if v2 == ["None"] else list(v2)
                combine(PlotfileCooker(kit.path(src)), PlotfileCooker(kit.path(src2)), vars1=a1, vars2=a2, pltout=kit.path(out))
        elif kind == "cook":
            # chef refuses 2-D plotfiles (documented); a field already called like the recipe's output would be duplicated
            if len(fields) < 2 or "new1" in fields or ndims != 3:
                continue
            r = rng.random()
            kept = [] if r < 0.3 else (list(fields) if r < 0.5 else
                                        [fields[i] for i in sorted(rng.sample(range(len(fields)), rng.randint(1, len(fields))))])
            serial = rng.random() < 0.5
            out = reuse_out(src, locals().get("src2") if kind == "combine" else None)
            if out is None:
                nout += 1
                out = "d%d" % nout
            line = {"ev": "Cook", "src": src, "out": out, "kept": kept, "nnew": 1}
            call = lambda: Chef(kit.path(src), recipe=RECIPE, outfile=kit.path(out), serial=serial,
                                kept_fields=" ".join(kept) if kept else None).cook()
        elif kind in ("read", "iter"):
            fsel = rand_fsel(rng, fields)
            prev = [k for k in streams if k[0] == src]
            if prev and rng.random() < 0.5:
                fsel = json.loads(rng.choice(sorted(prev))[1])
            lv = rng.randrange(nlev[src]) if rng.random() < 0.8 else rng.choice([-1, -nlev[src], nlev[src]])
            S = conts[src]
            line = {"ev": "Read" if kind == "read" else "Iter", "src": src, "fsel": fsel, "lv": lv}
            lvp = lv if 0 <= lv < nlev[src] else (lv + nlev[src] if -nlev[src] <= lv < 0 else None)
            try:
                # readers, selectors and streams are kept and used again within a history (two times out of three): a
                # selection must not depend on what the same objects were asked before
                reuse = rng.random() < 0.67
                if not (reuse and src in readers):
                    with core.quiet():
                        readers[src] = PlotfileCooker(kit.path(src))
                pck = readers[src]
                skey = (src, json.dumps(fsel, sort_keys=True), lv)
                if kind == "read":
                    nb = len(S["lev"][lvp]) if lvp is not None else 1
                    bsel = rand_bsel(rng, nb)
                    line["bsel"] = bsel
                    variant = rng.random() < 0.5
                    use_iter = bsel["k"] in ("slice", "list", "mask") and rng.random() < 0.3
                    with shims.pool_shim(sched()), core.quiet():
                        if not (reuse and skey in streams):
                            streams[skey] = pck[py_fsel(fsel)][lv]
                        stream = streams[skey]
                        r = stream.iter(py_bsel(bsel, variant)) if use_iter else stream[py_bsel(bsel, variant)]
                        if use_iter and r is not None and not isinstance(r, np.ndarray):
                            r = list(r)
                    if isinstance(r, np.ndarray):
                        R = {"k": "ok", "one": True, "boxes": [abs_box(r, S, kit, lvp, ndims)]}
                    elif isinstance(r, (list, tuple)):
                        R = {"k": "ok", "one": False, "boxes": [abs_box(a, S, kit, lvp, ndims) for a in r]}
                    else:
                        R = {"k": "nothing"}
                else:
                    got, stopped = [], True
                    budget = 4 * sum(len(x) for x in S["lev"]) + 8
                    with shims.pool_shim(sched()), core.quiet():
                        if not (reuse and skey in streams):
                            streams[skey] = pck[py_fsel(fsel)][lv]
                        for arr in streams[skey]:
                            got.append(abs_box(arr, S, kit, lvp, ndims, with_idxs=False))
                            if len(got) > budget:
                                stopped = False
                                break
                    R = {"k": "ok", "stopped": stopped, "bag": got}
            except Exception as e:
                R = {"k": "err", "exc": type(e).__name__}
            after = kit.content(src)
            line["S"] = plain(after) if after["k"] == "ok" else {"fields": [], "lev": []}
            line["R"] = R
            lines.append(line)
            ops.append(kind)
            continue
        # ---- writers
        wrote = False
        reused = os.path.exists(kit.path(line["out"])) if "out" in line else False
        before_out = alpha.tree_digest(kit.path(line["out"])) if reused else None
        if reused:
            line["reused_out"] = True
            readers.pop(line["out"], None)            # objects opened on the directory's earlier content are gone with it
            for k in [k for k in streams if k[0] == line["out"]]:
                del streams[k]
        try:
            with shims.pool_shim(sched()), core.quiet():
                call()
            outcome = "ok"
        except Exception as e:
            outcome = "exc"
            line["exc"] = "%s: %s" % (type(e).__name__, str(e)[:160])
        wrote = os.path.exists(kit.path(line["out"])) if not reused else alpha.tree_digest(kit.path(line["out"])) != before_out
        line["outcome"] = outcome
        line["wrote"] = wrote
        for key, d in (("S", line["src"]), ("S2", line.get("src2"))):
            if d:
                after = kit.content(d)
                line[key] = plain(after) if after["k"] == "ok" else {"fields": [], "lev": []}
        R = kit.content(line["out"]) if outcome == "ok" and os.path.exists(kit.path(line["out"])) else {"k": "absent"}
        line["R"] = R
        line["tasted"] = taste(kit.path(line["out"])) if R["k"] == "ok" else False
        if line["ev"] == "Cook":
            # the recipe's value, evaluated independently on the arrays the independent reader finds in the source,
            # and whether the level-header rows of the output are the true extrema of what is stored
            src_arr = kit.arrays(line["src"])
            self_shapes = kit.shapes
            per = {}
            for l, bid, arrs, _, _ in src_arr:
                per.setdefault(l, {})[bid] = [shaped(gamma.digest(arrs[0] * 2.0 + arrs[1]), self_shapes[(l, bid)])] if len(arrs) >= 2 else ["?"]
            line["newtoks"] = [[per[l][b] for b in sorted(per[l])] for l in sorted(per)]
            ext = True
            if R["k"] == "ok":
                for l, bid, arrs, mn, mx in kit.arrays(line["out"]):
                    for a, lo, hi in zip(arrs, mn, mx):
                        if not (float(np.min(a)) == lo and float(np.max(a)) == hi):
                            ext = False
            line["extrema"] = ext
        lines.append(line)
        ops.append(kind)
        if R["k"] == "ok":
            if line["out"] not in present:
                present.append(line["out"])
            conts[line["out"]] = R
            nlev[line["out"]] = len(R["lev"])
        else:
            break
    import shutil
    shutil.rmtree(root, ignore_errors=True)
    return lines, {"ops": ops, "levels": nlev.get("A"), "boxes": [len(x) for x in conts["A"]["lev"]],
                   "fields": len(conts["A"]["fields"])}


# ---------------------------------------------------------------- validation

def validate(chk, all_lines, what):
    """Run OpTrace.tla over the recorded lines; returns the list of (tid, line number, event, failing clause)."""
    tf = os.path.join(chk.scratch, "optrace_%s.ndjson" % what.replace(" ", "_"))
    with open(tf, "w") as f:
        for ln in all_lines:
            f.write(json.dumps(ln) + "\n")
    r = tlc.run("OpTrace", {"SPECIFICATION": "TraceSpec", "INVARIANTS": ["Report"], "POSTCONDITION": "TraceAccepted",
                            "CHECK_DEADLOCK": False}, workers=1, timeout=1800, env={"TRACE_FILE": tf})
    if r.error or r.violated:
        raise core.MachineryError("OpTrace.tla did not consume the recorded histories (%s):\n%s"
                                  % (r.error or r.violated, r.stdout[-1500:]))
    rep = [e for e in r.emitted if isinstance(e, dict) and "violations" in e]
    if not rep or rep[-1]["lines"] != len(all_lines):
        raise core.MachineryError("OpTrace.tla printed no complete report:\n%s" % r.stdout[-1500:])
    chk.add_tlc(r, "OpTrace: %s" % what)
    return [tuple(v) for v in rep[-1]["violations"]]


def run_histories(chk, kinds, n, what, ndims_of=lambda i: 3, big=True, nops=4, seeds=None, assets=()):
    """Record n seeded histories (plus one per asset), validate them in one TLC run, report violations."""
    all_lines, meta = [], {}
    plan = []
    for i in range(n):
        hseed = seeds[i] if seeds else chk.rng.randrange(1 << 30)
        plan.append((hseed, ndims_of(i), None))
    for a in assets:
        plan.append((chk.rng.randrange(1 << 30), 3 if "3d" in a or "plt1" in a or "plt2" in a else 2, a))
    for tid, (hseed, ndims, asset) in enumerate(plan, 1):
        lines, summ = record_history(chk, hseed, kinds, tid, ndims=ndims, big=big, nops=nops, asset=asset)
        base = len(all_lines)
        all_lines += lines
        meta[tid] = {"hseed": hseed, "ndims": ndims, "asset": asset, "base": base, "summ": summ, "kinds": list(kinds),
                     "big": big, "nops": nops}
        chk.traces += 1
        for op in summ["ops"]:
            chk.executed("optrace/%s/L%s/boxes<=%d/fields%d/%dd%s" % (
                op, summ["levels"], max(summ["boxes"]), summ["fields"], ndims, "/asset" if asset else ""))
    viol = validate(chk, all_lines, what)
    for tid, lno, ev, why in viol:
        m = meta[tid]
        ln = all_lines[lno - 1]
        detail = "history %d, operation %s%s: %s" % (
            tid, ev, json.dumps({k: ln[k] for k in ("src", "src2", "out", "vars", "L", "v1", "v2", "kept", "fsel", "lv", "bsel") if k in ln}),
            why) + (" (%s)" % ln["exc"] if "exc" in ln else "") + (" [%s]" % ln["R"].get("why") if ln.get("R", {}).get("k") == "malformed" else "")
        chk.violation("optrace/%s/%s" % (ev, why), detail, {"optrace": {k: m[k] for k in ("hseed", "ndims", "asset", "kinds", "big", "nops")}})
    return len(viol)


def replay(chk, scenario):
    m = scenario["optrace"]
    lines, summ = record_history(chk, m["hseed"], m["kinds"], 1, ndims=m["ndims"], big=m["big"], nops=m["nops"], asset=m.get("asset"))
    viol = validate(chk, lines, "replay")
    chk.executed("optrace/replay")
    for tid, lno, ev, why in viol:
        chk.violation("optrace/%s/%s" % (ev, why), "operation %s: %s" % (ev, why), scenario)


ASSETS3 = ["example_plt_3d", "plt1_Y", "plt2_F"]


def phase(chk, kinds, what, quick_n, thorough_n, assets=(), twod=True, nops=4):
    """The code -> spec direction of a check: seeded histories of the given operation kinds on large generated inputs
    (and copies of repository assets), validated by OpTrace.tla.  Returns the number of violations."""
    n = quick_n if chk.tier == "quick" else thorough_n
    paths = [os.path.join(core.REPO, "test_assets", a) for a in assets]
    paths = [p for p in paths if os.path.isdir(p)]
    nv = run_histories(chk, kinds, n, what, ndims_of=(lambda i: 2 if (twod and i % 4 == 3) else 3), nops=nops, assets=paths)
    chk.extra.setdefault("optrace", []).append({"what": what, "histories": n + len(paths), "operation_kinds": list(kinds),
                                                "violations": nv,
                                                "inputs": "generated: 1-4 levels, <= 12 boxes per level over <= 12 binary files in any "
                                                          "on-disk order, 2-12 fields, 2-D and 3-D; assets: %s" % (list(assets) or "none")})
    return nv
