"""Small helpers shared by the checks (selection of scenarios, signature strings)."""
import json


def sig_str(sig, *extra):
    return json.dumps([sig] + list(extra), sort_keys=True, separators=(",", ":"))


def select(scenarios, cap, rng, key=lambda s: json.dumps(s["sig"], sort_keys=True)):
    """
    Deterministic selection: every scenario if there are at most `cap`; otherwise one
    representative per signature (the first in a canonical order) plus a seeded random sample.
    """
    scenarios = sorted(scenarios, key=lambda s: json.dumps(s, sort_keys=True))
    if len(scenarios) <= cap:
        return scenarios
    by = {}
    for s in scenarios:
        by.setdefault(key(s), []).append(s)
    chosen = []
    seen = set()
    for k in sorted(by):
        pick = by[k][rng.randrange(len(by[k]))]
        chosen.append(pick)
        seen.add(id(pick))
    rest = [s for s in scenarios if id(s) not in seen]
    rng.shuffle(rest)
    chosen += rest[:max(0, cap - len(chosen))]
    return chosen
