"""
gamma for PeleLMeX checkpoints: abstract checkpoint (vocabulary of spec/Chk2plt.tla) -> real
directory in the format CheckpointReader expects (taken from test_assets/example_chk_3d).
Three data subsets (state with ghost cells, gradp, I_R) each with its own layout; divU and p are
written header-only (chk2plt never reads their data).
"""
import os

import numpy as np

from . import gamma


def _rng(seed, *key):
    return np.random.default_rng(gamma._tok_seed(seed, key))


def state_array(seed, lv, b, shape_g, ns):
    """Ghosted state FAB (nx+2g, ny+2g, nz+2g, 7+ns)."""
    nst = 7 + ns
    arr = _rng(seed, "S", lv, b).uniform(-100.0, 100.0, tuple(shape_g) + (nst,))
    arr[..., 4:4 + ns] = _rng(seed, "SY", lv, b).uniform(0.05, 1.0, tuple(shape_g) + (ns,))
    if seed % 3 == 1 and ns >= 2:
        # what a real checkpoint carries: undershoots of the advection scheme (slightly negative mass fractions, the cell's sum
        # stays positive) and negative zeros; "rescaled to sum to one" means divided by the sum, whatever the signs
        pick = _rng(seed, "SYu", lv, b).random(tuple(shape_g) + (ns,))
        y = arr[..., 4:4 + ns]
        y[..., 1:][pick[..., 1:] < 0.10] *= -1e-3
        y[..., 1:][(pick[..., 1:] >= 0.10) & (pick[..., 1:] < 0.13)] = -0.0
    return arr


def sub_array(seed, kind, lv, b, shape, nc):
    return _rng(seed, kind, lv, b).uniform(-10.0, 10.0, tuple(shape) + (nc,))


def write_checkpoint(path, mesh, layouts, cfg, ns=2, nghost=2, time=1.6457727058794072e-11, step=5, int_line=None):
    """
    mesh: {"dom":[nx,ny,nz], "levels":[[{"lo","hi"},..],..]}
    layouts[lv] = {"state": {"file":[..],"disk":{..}}, "gradp": .., "ir": ..}
    Returns dict with the generated arrays: data[(kind, lv, b)] (b 1-based).
    """
    os.makedirs(path)
    nlev = len(mesh["levels"])
    lo = [cfg.origin[d] for d in range(3)]
    hi = [cfg.origin[d] + cfg.dx0[d] * mesh["dom"][d] for d in range(3)]
    with open(os.path.join(path, "Header"), "w") as h:
        h.write("Checkpoint version: 1\n")
        h.write("%d\n%d\n" % (nlev - 1, step))
        if int_line is not None:
            h.write("%d\n" % int_line)          # the layout with an integer line in front of the time
        h.write("%r\n" % time)
        h.write("3.946824488833992e-12\n3.5880222625763559e-12\n")
        h.write(" ".join(repr(float(v)) for v in lo) + " \n")
        h.write(" ".join(repr(float(v)) for v in hi) + " \n")
        for lv in range(nlev):
            boxes = mesh["levels"][lv]
            h.write("(%d 0\n" % len(boxes))
            for b in boxes:
                h.write("((%s) (%s) (0,0,0))\n" % (",".join(map(str, b["lo"])), ",".join(map(str, b["hi"]))))
            h.write(")\n")
        h.write("101325\n0\n0\n")
        for k in range(7 + ns):
            h.write("%r\n" % (0.5 + k))
    data = {}
    for lv in range(nlev):
        ldir = os.path.join(path, "Level_%d" % lv)
        os.makedirs(ldir)
        boxes = mesh["levels"][lv]
        nb = len(boxes)
        subs = [("state", 7 + ns, nghost, "state"), ("gradp", 3, 0, "gradp"), ("I_R", ns, 0, "ir"),
                ("divU", 1, 1, None), ("p", 1, 1, None)]
        for name, nc, ng, laykey in subs:
            offs = {}
            files = {}
            if laykey is not None:
                lay = layouts[lv][laykey]
                disk = lay["disk"]
                if isinstance(disk, list):
                    disk = {str(i + 1): v for i, v in enumerate(disk)}
                for f, order in sorted(disk.items(), key=lambda kv: int(kv[0])):
                    fn = "%s_D_%05d" % (name, int(f) - 1)
                    with open(os.path.join(ldir, fn), "wb") as bf:
                        for b in order:
                            box = boxes[b - 1]
                            shape = gamma.box_shape(box)
                            glo = [v - ng for v in box["lo"]]
                            ghi = [v + ng for v in box["hi"]]
                            offs[b] = bf.tell()
                            bf.write(gamma.fab_header(glo, ghi, nc))
                            if name == "state":
                                arr = state_array(cfg.seed, lv, b, [s + 2 * ng for s in shape], ns)
                            else:
                                arr = sub_array(cfg.seed, name, lv, b, shape, nc)
                            data[(laykey, lv, b)] = arr
                            bf.write(np.asfortranarray(arr).ravel(order="F").tobytes())
                    for b in order:
                        files[b] = fn
            else:
                for b in range(1, nb + 1):
                    files[b] = "%s_D_00000" % name
                    offs[b] = 0
            with open(os.path.join(ldir, name + "_H"), "w") as c:
                c.write("1\n1\n%d\n%d\n" % (nc, ng))
                c.write("(%d 0\n" % nb)
                for b in boxes:
                    c.write("((%s) (%s) (0,0,0))\n" % (",".join(map(str, b["lo"])), ",".join(map(str, b["hi"]))))
                c.write(")\n%d\n" % nb)
                for b in range(1, nb + 1):
                    c.write("FabOnDisk: %s %d\n" % (files[b], offs[b]))
                c.write("\n%d,%d\n" % (nb, nc))
                for b in range(1, nb + 1):
                    c.write(",".join("0.0000000000000000e+00" for _ in range(nc)) + ",\n")
                c.write("\n%d,%d\n" % (nb, nc))
                for b in range(1, nb + 1):
                    c.write(",".join("1.0000000000000000e+00" for _ in range(nc)) + ",\n")
                c.write("\n")
    return data


def nested_mesh(level_classes):
    """
    Mesh for checkpoints (3D, level 0 covers the domain exactly: chk2plt derives the grid size
    from the level-0 boxes).  Level 0: class c is (c+1) cells wide along x, cross-section 4 x 2.
    Finer levels: class c is 2(c+1) cells wide, y in 2..5, z in 0..3.
    """
    ny0, nz0 = 4, 2
    # level-0 boxes are m(c+1) cells wide, m the smallest multiplier that makes room for every finer level
    m = 1
    while any(sum(2 * (c + 1) for c in cl) > m * sum(c + 1 for c in level_classes[0]) * 2 ** lv
              for lv, cl in enumerate(level_classes[1:], 1)):
        m += 1
    width0 = m * sum(c + 1 for c in level_classes[0])
    levels = []
    for lv, cl in enumerate(level_classes):
        boxes, x = [], 0
        for c in cl:
            if lv == 0:
                w = m * (c + 1)
                boxes.append({"lo": [x, 0, 0], "hi": [x + w - 1, ny0 - 1, nz0 - 1]})
            else:
                w = 2 * (c + 1)
                boxes.append({"lo": [x, 2, 0], "hi": [x + w - 1, 5, 3]})
            x += w
        levels.append(boxes)
    return {"dom": [width0, ny0, nz0], "levels": levels}
