"""
Spellings of a path (spec/FsIO.tla, part 1): the same existing directory named as a user may legally type it.  The operating
system resolves a symbolic link BEFORE the ".." that follows it, a textual normalisation (os.path.normpath / abspath) does not:
"work/latest/../plt00010" with latest -> store/run3 is store/plt00010, not work/plt00010.  Code that canonicalises the path it
was given before OPENING it therefore opens something else (or nothing).  Every check hands a share of its inputs to the tools
under one of these spellings; the expectation never depends on the spelling.
"""
import os

KINDS = ["plain", "trailing-separator", "dot", "down-up", "link-then-up", "link-to-it", "relative"]


def of(path, seed):
    """(spelled path, kind) for the existing directory `path` (absolute).  Helper directories / links are created beside it."""
    path = os.path.abspath(path)
    parent, base = os.path.split(path)
    kind = KINDS[seed % len(KINDS)]
    if kind == "plain":
        return path, kind
    if kind == "trailing-separator":
        return path + os.sep, kind
    if kind == "dot":
        return os.path.join(parent, ".", base), kind
    sub = os.path.join(parent, "sub_%d" % (seed % 97))
    if kind == "down-up":
        os.makedirs(sub, exist_ok=True)
        return os.path.join(sub, "..", base), kind
    if kind == "link-then-up":
        # elsewhere/latest -> parent/sub ;  elsewhere/latest/../base  IS  parent/base for the operating system, while the text
        # collapses to elsewhere/base (which does not exist)
        os.makedirs(sub, exist_ok=True)
        elsewhere = os.path.join(parent, "else_%d" % (seed % 97), "work")
        os.makedirs(elsewhere, exist_ok=True)
        link = os.path.join(elsewhere, "latest")
        if not os.path.islink(link):
            os.symlink(sub, link)
        return os.path.join(link, "..", base), kind
    if kind == "link-to-it":
        link = os.path.join(parent, "lnk_%d_%s" % (seed % 97, base))
        if not os.path.islink(link):
            os.symlink(path, link)
        return link, kind
    return os.path.relpath(path), "relative"
