"""
Refinement ratios as data (spec/Refine.tla, spec/mc/MC_Refine.tla).

TLC checks, for every ratio list over {2, 4} (uniform and MIXED), level-0 size, level limit and query level, that the
hierarchy the header states is well-formed (HierarchyOk: a level's refinement is the PRODUCT of the ratios below it), that
the validator's resolution rule accepts it and that the point -> cell conversion lands in the cell whose centre was asked;
it emits every (ratios, n0, limit, query level).  Each is replayed on a properly nested hierarchy written with those ratios:
  what = "meta"  (C02)  the reader exposes the ratios, cell sizes, grid sizes and boxes the header states
  what = "taste" (C03)  the validator accepts it under every option set, the scenario's limit, both modes
  what = "read"  (C20, C01)  accepted => every box reads completely and consistently
  what = "point" (C19)  interior cell centres of the query level (finest level covering them) return the stored value;
                        a point outside the domain is refused
  what = "grid"  (C10)  whip's uniform grid is the covering grid at the scenario's limit (a level's cells are Fac(l) per level-0 cell)
  what = "plate" (C08)  mandoline's 2-D flattening is the covering grid at the scenario's limit
  what = "slice" (C07)  mandoline's 3-D slice at the scenario's limit: a field affine along the normal is reproduced exactly at every
                        pixel (positions between the outermost level-0 cell centres), a field constant along the normal shows, at
                        every pixel, the value of a level that has a box over that pixel, grid_level is such a level; beyond the
                        refined region the slice is the level-0 data
  what = "integral" (C09)  pestle's volume integral up to the scenario's limit is the sum over the covering grid (hierarchies on an
                        EVEN blocking factor: every box corner is even)
"""
import itertools
import os
import random

import numpy as np

from harness import alpha, core, gamma, shims, tlc, util
from harness import spell

FIELDS = ["u", "v", "w"]
LAST_KLASS = None          # scenario class of the last run_one (for known-finding matching), set by the runners
SHIFT_KLASS = {"grid": None,        # (whip was repaired: no class, a failure is a violation)
               "plate": None,                                  # (the 2-D flattening was repaired)
               "integral": None, "point": None}       # (the point query was repaired: no class, a failure is a violation)


def models(tier):
    return {"INIT": "Init", "NEXT": "Next",
            "INVARIANTS": ["HeaderWellFormed", "AcceptsWellFormed", "PointIndexRight", "Emit"],
            "CONSTANTS": {"ResolutionRule": '"none"', "IndexRule": '"own-dx"', "MaxJumps": 2 if tier == "quick" else 3,
                          "N0s": "{4, 5}"}}


def nested_ap(sc, ndims, split, rng, even=False):
    """One box per level (cut in two along the first axis when `split`): level 0 is the domain, level l covers the first two cells
    of level l-1 along every axis.  even: every box corner is an even index (a blocking factor of two)."""
    rs = list(sc["ratios"])
    n0 = sc["n0"]
    dom = [n0, n0 + 1, n0 + 2][:ndims]
    if even:
        n0 += n0 % 2
        dom = [n0, n0 + 2, n0 + 4][:ndims]
    levels = []
    lo = [0] * ndims
    size = list(dom)
    for lv in range(len(rs) + 1):
        if lv > 0:
            lo = [v * rs[lv - 1] for v in lo]
            size = [2 * rs[lv - 1]] * ndims
        hi = [a + s - 1 for a, s in zip(lo, size)]
        boxes = [{"lo": list(lo), "hi": list(hi)}]
        if split:
            cut = lo[0] + size[0] // 2
            boxes = [{"lo": list(lo), "hi": [cut - 1] + hi[1:]}, {"lo": [cut] + lo[1:], "hi": list(hi)}]
            if rng.random() < 0.5:
                boxes.reverse()
        nb = len(boxes)
        file = [rng.randint(1, 2) for _ in range(nb)]
        used = sorted(set(file))
        file = [used.index(f) + 1 for f in file]
        disk = {}
        for b, f in enumerate(file, 1):
            disk.setdefault(str(f), []).append(b)
        for f in disk:
            rng.shuffle(disk[f])
        levels.append({"boxes": boxes, "file": file, "disk": disk})
    return {"src": "A", "ndims": ndims, "fields": list(FIELDS), "time": 0.5, "dom": dom, "levels": levels,
            "ratios": rs}


def write(chk, sc, cfgseed, ndims, split, even=False, values=None, fields=None):
    rng = random.Random(cfgseed)
    cfg_ = gamma.Config.draw(rng, ndims=ndims, payload="tame")
    cfg_.ratios = tuple(sc["ratios"])
    ap = nested_ap(sc, ndims, split, rng, even)
    if fields:
        ap["fields"] = list(fields)
    ap["time"] = cfg_.time if cfg_.time is not None else 0.5
    d = os.path.join(chk.tmp_reuse(), "p")
    os.makedirs(os.path.dirname(d))
    reg = gamma.write_plotfile(d, ap, cfg_, values=values(ap, cfg_) if values else None)
    return d, ap, cfg_, reg


def run_one(chk, sc, cfgseed, what):
    if what in ("slice", "sliceplt"):
        return slice3d(chk, sc, cfgseed, plt=(what == "sliceplt"))
    ndims = 3 if what in ("point", "grid", "integral") else (2 if what == "plate" or cfgseed % 3 == 0 else 3)
    # (validations: one configuration in three has ONE field and one box per level -- one-row, one-column min/max tables)
    thin = what in ("taste", "read") and cfgseed % 3 == 1
    # the mesh tools: one configuration in five lives in an index space that does not start at 0 (physical coordinates unchanged).
    # KNOWN FINDINGS (known_findings.json, classes "<tool>/index-space-not-at-0"): whip, pestle, the 2-D flattening and the point
    # query take raw cell indices for positions in the domain
    global LAST_KLASS
    shifted = what in SHIFT_KLASS and cfgseed % 5 == 2
    orig_nested = nested_ap
    if shifted:
        LAST_KLASS = SHIFT_KLASS[what]

        def shifted_ap(sc_, nd_, split_, rng_, even_=False):
            return gamma.shift_indices(orig_nested(sc_, nd_, split_, rng_, even_), [[4, -2, 6], [-8, -4, -16]][(cfgseed // 5) % 2])
        globals()["nested_ap"] = shifted_ap
    try:
        d, ap, cfg_, reg = write(chk, sc, cfgseed, ndims, split=(what != "point" and cfgseed % 2 == 0 and not thin), even=(what == "integral"),
                                 fields=["only"] if thin else None)
    finally:
        globals()["nested_ap"] = orig_nested
    before = alpha.tree_digest(d)
    ds = spell.of(d, cfgseed)[0]
    rs = list(sc["ratios"])
    nlev = len(rs) + 1
    v = None
    if what == "meta":
        v = meta(ds, d, ap, cfg_, reg, sc, ndims)
    elif what in ("taste", "read"):
        v = taste_all(ds, sc, what)
        if v is None and what == "read":
            from checks import taste_common as T
            v = T.read_consistency(d, {"lim": sc["lim"]}, ndims, open_as=ds)
    elif what == "point":
        v = point(ds, ap, cfg_, reg, sc, cfgseed)
    elif what in ("grid", "plate"):
        v = cover(chk, ds, d, ap, cfg_, reg, sc, cfgseed, what)
    elif what == "integral":
        v = integral(ds, ap, cfg_, reg, sc, cfgseed)
    if v is None and alpha.tree_digest(d) != before:
        v = "the plotfile was modified"
    if v:
        v = "refinement ratios %r (%d levels, %dD): %s" % (rs, nlev, ndims, v)
    return v


def taste_all(ds, sc, what):
    from amr_kitchen.taste import Taster
    optsets = list(itertools.product([True, False], repeat=4)) if what == "taste" else [(True, True, False, False)]
    for hdr, shape, data, coords in optsets:
        if data and not (hdr and shape):
            continue            # the recorded known-finding class of C03 (checked by the main phase)
        for nofail in (False, True):
            for lim in sorted({sc["lim"], len(sc["ratios"])}):
                try:
                    with shims.pool_shim(shims.Scheduler()), core.quiet():
                        good = bool(Taster(ds, limit_level=lim, binary_headers=hdr, binary_shape=shape, binary_data=data,
                                           boxes_coordinates=coords, nofail=nofail, verbose=0))
                except Exception as e:
                    return "well-formed plotfile rejected (hdr/shape/data/coords = %r, limit %d, nofail=%s): %s: %s" % (
                        (hdr, shape, data, coords), lim, nofail, type(e).__name__, str(e)[:160])
                if not good:
                    return "well-formed plotfile reported bad (hdr/shape/data/coords = %r, limit %d, nofail=%s)" % (
                        (hdr, shape, data, coords), lim, nofail)
    return None


def meta(ds, d, ap, cfg_, reg, sc, ndims):
    from amr_kitchen import PlotfileCooker
    from checks.c02 import seq_eq
    H = alpha.parse_header(d)
    lim = sc["lim"]
    try:
        with core.quiet():
            pck = PlotfileCooker(ds, limit_level=lim)
    except Exception as e:
        return "opening (limit %d) raised %s: %s" % (lim, type(e).__name__, str(e)[:160])
    if [int(x) for x in pck.factors] != H["ratios"]:
        return "factors = %r, the header states %r" % (list(pck.factors), H["ratios"])
    for l in range(lim + 1):
        if not seq_eq(pck.dx[l], H["dx"][l]):
            return "dx[%d] = %r, header states %r" % (l, pck.dx[l], H["dx"][l])
        want = [b - a + 1 for a, b in zip(*H["domains"][l])]
        if list(pck.grid_sizes[l]) != want:
            return "grid_sizes[%d] = %r, header states %r" % (l, list(pck.grid_sizes[l]), want)
        hb = H["levels"][l]["bounds"]
        if len(pck.boxes[l]) != len(hb):
            return "level %d: %d boxes exposed, header states %d" % (l, len(pck.boxes[l]), len(hb))
        for b, (pb, ab) in enumerate(zip(pck.boxes[l], hb)):
            for dd in range(ndims):
                if not seq_eq(pb[dd], ab[dd]):
                    return "level %d box %d dim %d bounds %r, header states %r" % (l, b, dd, pb[dd], ab[dd])
        C = alpha.parse_cell_h(d, "Level_%d" % l, want_mm=False)
        if [[list(map(int, i[0])), list(map(int, i[1]))] for i in pck.cells[l]["indexes"]] != C["idx"]:
            return "level %d index ranges %r, level header states %r" % (l, pck.cells[l]["indexes"], C["idx"])
    from checks.c02 import grids_ok
    return grids_ok(pck, H, lim, ndims, cfg_.numfmt)


def point(ds, ap, cfg_, reg, sc, cfgseed):
    from amr_kitchen import PlotfileCooker
    rs = list(sc["ratios"])
    ql = sc["ql"]
    rng = random.Random(cfgseed + 5)
    try:
        with core.quiet():
            pck = PlotfileCooker(ds)
    except Exception as e:
        return "opening raised %s: %s" % (type(e).__name__, str(e)[:160])
    # interior cells of a level's box (one cell away from its faces) that the next level does not cover (it covers the first
    # two cells of the box along every axis, i.e. 2 * r cells of its own)
    def cells_of(lv):
        shp = gamma.box_shape(ap["levels"][lv]["boxes"][0])
        cs = [c for c in itertools.product(*[range(1, n - 1) for n in shp]) if lv == len(rs) or any(k >= 2 for k in c)]
        rng.shuffle(cs)
        return cs
    # queries at the scenario's level interleaved with queries at the OTHER levels; half of the scenarios ask them all of ONE
    # selector object per selection (every level has a single box, box number 0: what a selector keeps from one query --
    # a box, its indices, a level -- must not reach the next one)
    asks = []
    for n, c in enumerate(cells_of(ql)[:6]):
        asks.append((ql, c))
        other = (ql + 1 + n) % (len(rs) + 1)
        oc = cells_of(other)
        if other != ql and oc:
            asks.append((other, oc[0]))
    if not asks:
        return None
    sels = ["v", ["u", "w"], 0, [0, 1, 2], [0, 1, 1, 2], ["u", "u", "w"]]
    keep = cfgseed % 2 == 0
    probes = {}
    for n, (ql, c) in enumerate(asks):
        box = ap["levels"][ql]["boxes"][0]
        shape = gamma.box_shape(box)
        dx = gamma.level_dx(cfg_, 3, ql)
        sel = sels[(cfgseed + n // 3) % len(sels)]
        idx = [box["lo"][d] + c[d] for d in range(3)]
        s0 = gamma.ishift(ap, ql)
        pt = [cfg_.origin[d] + dx[d] * (idx[d] - s0[d] + 0.5) for d in range(3)]
        try:
            with shims.pool_shim(shims.Scheduler()), core.quiet():
                if keep:
                    if repr(sel) not in probes:
                        probes[repr(sel)] = pck[sel]
                    got = probes[repr(sel)](*pt)
                else:
                    got = pck[sel](*pt)
        except Exception as e:
            return "query %r at the centre of level-%d cell %r raised %s: %s" % (sel, ql, idx, type(e).__name__, str(e)[:150])
        names = sel if isinstance(sel, list) else [sel]
        fis = [(FIELDS.index(x) if isinstance(x, str) else x) + 1 for x in names]
        got = np.atleast_1d(np.asarray(got, dtype=float)).ravel()
        if got.shape[0] != len(fis):
            return "query %r returned %d values for %d fields" % (sel, got.shape[0], len(fis))
        for g, fi in zip(got, fis):
            arr = reg.array_of(("A", ql, 1, fi)).reshape(shape, order="F")
            want = float(arr[tuple(c)])
            if not abs(g - want) <= 1e-9 * float(np.max(np.abs(arr))):
                return "query %d (%r%s) at the centre of level-%d cell %r (finest level covering it, interior of its box): %r, stored value %r" % (
                    n + 1, sel, ", one selector object for all queries" if keep else "", ql, idx, float(g), want)
    # a point outside the domain is refused
    lo, hi = gamma.geo(ap, cfg_)
    out = [hi[d] + 3.0 * cfg_.dx0[d] if d == cfgseed % 3 else 0.5 * (lo[d] + hi[d]) for d in range(3)]
    try:
        with shims.pool_shim(shims.Scheduler()), core.quiet():
            got = pck["u"](*out)
    except Exception:
        return None
    return "point %r outside the domain was answered with %r" % (out, got)


def covering_grid(ap, cfg_, reg, lim, fi):
    """The covering grid of field fi at level lim (CoverSpec with Fac in place of 2**l): finer boxes overwrite coarser ones."""
    nd = ap["ndims"]
    R = [gamma.rfac(cfg_, l) for l in range(lim + 1)]
    shape = [n * R[lim] for n in ap["dom"]]
    exp = np.full(shape, np.nan)
    glev = np.full(shape, -1.0)
    for l in range(lim + 1):
        f = R[lim] // R[l]
        for b, box in enumerate(ap["levels"][l]["boxes"], 1):
            arr = reg.array_of(("A", l, b, fi)).reshape(gamma.box_shape(box), order="F")
            for ax in range(nd):
                arr = np.repeat(arr, f, axis=ax)
            s0 = gamma.ishift(ap, l)          # (index spaces that do not start at 0: positions are relative to the domain's first cell)
            sl = tuple(slice((a - o) * f, (h + 1 - o) * f) for a, h, o in zip(box["lo"], box["hi"], s0))
            exp[sl] = arr
            glev[sl] = l
    return exp, glev


def cover(chk, ds, d, ap, cfg_, reg, sc, cfgseed, what):
    lim = sc["lim"]
    fi = 1 + cfgseed % len(FIELDS)
    exp, glev = covering_grid(ap, cfg_, reg, lim, fi)
    rng = random.Random(cfgseed)
    try:
        with shims.pool_shim(shims.Scheduler(default="random", rng=rng)), shims.poison(1.2345e300), core.quiet():
            if what == "grid":
                import sys
                from amr_kitchen.whip import cli
                out = os.path.join(os.path.dirname(d), "grid")
                old = sys.argv
                sys.argv = ["whip", "-v", FIELDS[fi - 1], "-o", out, "-y", "-l", str(lim), ds]
                try:
                    cli.main()
                finally:
                    sys.argv = old
                got = np.load(out + ".npy")
                gl = None
            else:
                from amr_kitchen.mandoline import Mandoline
                res = Mandoline(ds, fields=[FIELDS[fi - 1], "grid_level"], limit_level=lim, serial=bool(cfgseed % 2), verbose=0).slice(fformat="return")
                got = np.asarray(res[FIELDS[fi - 1]]).T
                gl = np.asarray(res["grid_level"]).T
    except SystemExit as e:
        return "%s exited with %r" % (what, e.code)
    except Exception as e:
        return "%s (limit %d) raised %s: %s" % ("whip" if what == "grid" else "mandoline", lim, type(e).__name__, str(e)[:160])
    if got.shape != exp.shape:
        return "the %s has shape %r, the level-%d covering grid is %r" % (what, got.shape, lim, exp.shape)
    if got.tobytes() != exp.tobytes():
        bad = np.argwhere(got != exp)
        k = tuple(int(x) for x in bad[0])
        return "cell %r of the level-%d %s holds %r, the finest selected level covering it (level %d) stores %r (%d cells differ)" % (
            k, lim, what, float(got[k]), int(glev[k]), float(exp[k]), len(bad))
    if gl is not None and not np.array_equal(gl, glev):
        return "grid_level differs from the level of the finest box over the pixel"
    return None


def slice3d(chk, sc, cfgseed, plt=False):
    from amr_kitchen.mandoline import Mandoline
    rs = list(sc["ratios"])
    lim = sc["lim"]
    cn = cfgseed % 3
    cx, cy = [a for a in range(3) if a != cn]
    base = {}

    def values(ap, cfg_):
        def level_shape(lv):
            return [n * gamma.rfac(cfg_, lv) for n in ap["dom"]]

        def val(lv, b, fi, box):
            shape = gamma.box_shape(box)
            if fi == 1:
                return gamma.token_array(cfgseed, ("u", lv, b), int(np.prod(shape)), "tame").reshape(shape, order="F")
            s0 = gamma.ishift(ap, lv)
            sl = tuple(slice(a - o, h + 1 - o) for a, h, o in zip(box["lo"], box["hi"], s0))
            if fi == 2:
                dx = gamma.level_dx(cfg_, 3, lv)[cn]
                coord = cfg_.origin[cn] + dx * (np.arange(level_shape(lv)[cn]) + 0.5)
                sh = [1, 1, 1]
                sh[cn] = -1
                return np.broadcast_to((3.0 * coord - 2.0).reshape(sh), level_shape(lv))[sl]
            if lv not in base:
                full = np.random.default_rng(cfgseed * 7 + lv).uniform(-1000.0, 1000.0, level_shape(lv))
                first = [slice(None)] * 3
                first[cn] = slice(0, 1)
                base[lv] = np.broadcast_to(full[tuple(first)], level_shape(lv)).copy()
            return base[lv][sl]
        return val
    global LAST_KLASS
    LAST_KLASS = None
    shifted = cfgseed % 5 == 2
    if shifted:
        # the same hierarchy in an index space that does not start at 0 (physical coordinates unchanged).  The slicer used
        # to place boxes at their raw indices (known_findings.json, "mandoline/index-space-not-at-0", repaired): no class,
        # a failure is a violation
        LAST_KLASS = None
        orig_nested = nested_ap

        def shifted_ap(sc_, nd_, split_, rng_, even_=False):
            ap_ = orig_nested(sc_, nd_, split_, rng_, even_)
            return gamma.shift_indices(ap_, [[5, -2, 3], [-8, -4, -16]][(cfgseed // 5) % 2])
        globals()["nested_ap"] = shifted_ap
    try:
        d, ap, cfg_, reg = write(chk, sc, cfgseed, 3, split=False, values=values)
    finally:
        if shifted:
            globals()["nested_ap"] = orig_nested
    ds = spell.of(d, cfgseed)[0]
    before = alpha.tree_digest(d)
    R = [gamma.rfac(cfg_, l) for l in range(lim + 1)]
    glo, ghi = gamma.geo(ap, cfg_)
    dx0 = gamma.level_dx(cfg_, 3, 0)[cn]
    dxL = gamma.level_dx(cfg_, 3, lim)[cn]
    rng = random.Random(cfgseed + 3)
    # positions between the outermost level-0 cell centres: inside the refined corner, on a cell centre / a cell face of the
    # limit level, and beyond every refined box along the normal (the level-1 box ends two level-0 cells from the lower face)
    cands = [glo[cn] + dx0 * 0.75, glo[cn] + dxL * (R[lim] + 0.5), glo[cn] + dxL * (R[lim] + 1), glo[cn] + dx0 * rng.uniform(0.6, 1.9),
             glo[cn] + dx0 * rng.uniform(3.1, ap["dom"][cn] - 0.6)]
    shape = [n * R[lim] for n in ap["dom"]]
    v = None
    if plt:
        return sliceplt(chk, d, ds, ap, cfg_, sc, cfgseed, cn, cx, cy, base, before)
    for pos in cands:
        try:
            with shims.pool_shim(shims.Scheduler(default="random", rng=rng)), shims.poison(1.2345e300), core.quiet():
                out = Mandoline(ds, fields=["v", "w", "grid_level"], limit_level=lim, serial=bool(cfgseed % 2), verbose=0).slice(
                    normal=cn, pos=pos, fformat="return")
        except Exception as e:
            v = "slice(normal=%d, pos=%r, limit %d) raised %s: %s" % (cn, pos, lim, type(e).__name__, str(e)[:160])
            break
        far = pos > glo[cn] + 3.0 * dx0
        # within a (coarser) cell of the upper face of a refined box along the normal the two bracketing samples may belong to
        # different levels: a field that is constant along the normal only level by level is then a blend -- not judged there
        near = any(abs(pos - (glo[cn] + 2.0 * gamma.level_dx(cfg_, 3, l - 1)[cn])) <= gamma.level_dx(cfg_, 3, l - 1)[cn] for l in range(1, lim + 1))
        for name in ("v", "grid_level") if near else ("v", "w", "grid_level"):
            arr = np.asarray(out[name])
            if arr.shape != (shape[cy], shape[cx]):
                v = "slice of %r has shape %r, the level-%d plane grid is %r" % (name, arr.shape, lim, (shape[cy], shape[cx]))
                break
            for i in range(shape[cx]):
                for j in range(shape[cy]):
                    got = float(arr[j, i])
                    if name == "v":
                        want = 3.0 * pos - 2.0
                        ok = abs(got - want) <= 1e-9 * max(1.0, abs(want))
                        why = "a field affine along the normal gives %r there" % want
                    else:
                        # levels that have a box over the pixel (the box of level l covers the first 2 * ratio cells of its level)
                        levs = [l for l in range(lim + 1) if l == 0 or (i * R[l] // R[lim] < 2 * rs[l - 1] and j * R[l] // R[lim] < 2 * rs[l - 1])]
                        if far:
                            levs = [0]
                        if name == "grid_level":
                            ok = got in [float(l) for l in levs]
                            why = "levels with a box over that pixel%s: %r" % (" crossed by the plane" if far else "", levs)
                        else:
                            wants = []
                            for l in levs:
                                q = [0, 0, 0]
                                q[cx], q[cy] = i * R[l] // R[lim], j * R[l] // R[lim]
                                wants.append(float(base[l][tuple(q)]))
                            ok = any(abs(got - w_) <= 1e-9 * max(1.0, abs(w_)) for w_ in wants)
                            why = "a field constant along the normal holds %r in the levels over that pixel" % wants
                    if not ok:
                        v = "slice(normal=%d, pos=%r, limit %d): pixel (%d, %d) of %r is %r; %s" % (cn, pos, lim, i, j, name, got, why)
                        break
                if v:
                    break
            if v:
                break
        if v:
            break
    if v is None and alpha.tree_digest(d) != before:
        v = "the plotfile was modified"
    if v:
        v = "refinement ratios %r (%d levels, 3D): %s" % (rs, len(rs) + 1, v)
    return v


def sliceplt(chk, d, ds, ap, cfg_, sc, cfgseed, cn, cx, cy, base, before):
    """C16 on hierarchies with ratios 2 / 4 / mixed: a plane through the refined corner (it meets the box of every level up to the
    limit) saved in plotfile format.  Per level: exactly the in-plane footprint of that level's box; the field constant along the
    normal holds the box's own stored values; the affine field is reproduced where the plane lies between the level's outermost
    cell centres; the validator accepts the output; time, geometry and cell sizes are the input's."""
    from amr_kitchen.mandoline import Mandoline
    from amr_kitchen.taste import Taster
    rs = list(sc["ratios"])
    lim = sc["lim"]
    glo, ghi = gamma.geo(ap, cfg_)
    dxs = [gamma.level_dx(cfg_, 3, l) for l in range(lim + 1)]
    rng = random.Random(cfgseed + 9)
    # inside the box of the finest selected level along the normal (it ends two cells of level lim - 1 from the lower face)
    top = 2.0 * dxs[lim - 1][cn] if lim > 0 else dxs[0][cn] * ap["dom"][cn]
    pos = glo[cn] + top * rng.choice([0.3, 0.5, 0.62, 0.8])
    out = os.path.join(os.path.dirname(d), "slice2d")
    try:
        with shims.pool_shim(shims.Scheduler(default="random", rng=rng)), shims.poison(1.2345e300), core.quiet():
            Mandoline(ds, fields=["v", "w"], limit_level=lim, serial=bool(cfgseed % 2), verbose=0).slice(normal=cn, pos=pos, outfile=out, fformat="plotfile")
    except Exception as e:
        return "refinement ratios %r: slice(normal=%d, pos=%r, limit %d, plotfile format) raised %s: %s" % (rs, cn, pos, lim, type(e).__name__, str(e)[:160])
    v = None
    A = alpha.abstract(out)
    wf = alpha.wellformed(A)
    if wf:
        v = "the 2-D plotfile written is not well-formed: %s" % "; ".join(wf[:2])
    else:
        H = A["hdr"]
        if H["fields"] != ["v", "w"] or H["ndims"] != 2 or len(A["lev"]) != lim + 1:
            v = "the 2-D plotfile has fields %r, %d dimensions, %d levels; asked: ['v', 'w'] of levels 0..%d" % (H["fields"], H["ndims"], len(A["lev"]), lim)
        for l in range(lim + 1):
            if v:
                break
            box = ap["levels"][l]["boxes"][0]
            # (index spaces that do not start at 0: footprints are compared relative to the first cell of each file's OWN level
            # domain -- the 2-D plotfile may keep the input's index space or start its own at 0, both are well-formed)
            s0 = gamma.ishift(ap, l)
            box = {"lo": [a - b for a, b in zip(box["lo"], s0)], "hi": [a - b for a, b in zip(box["hi"], s0)]}
            want_idx = [[box["lo"][cx], box["lo"][cy]], [box["hi"][cx], box["hi"][cy]]]
            C = A["lev"][l]
            o0 = H["domains"][l][0] if l < len(H.get("domains", [])) else [0, 0]
            got_idx = [[[a - b for a, b in zip(lo_, o0)], [a - b for a, b in zip(hi_, o0)]] for lo_, hi_ in C["idx"]]
            if got_idx != [want_idx]:
                v = "level %d holds the footprints %r (relative to the first cell of its domain), the plane meets one box of that level with footprint %r" % (l, got_idx, want_idx)
                break
            for dd, ax in enumerate((cx, cy)):
                if abs(H["dx"][l][dd] - dxs[l][ax]) > 1e-12 * abs(dxs[l][ax]):
                    v = "cell size of level %d along in-plane axis %d is %r, the input states %r" % (l, dd, H["dx"][l][dd], dxs[l][ax])
            fn, off = C["fod"][0]
            fab = alpha.read_fab_at(os.path.join(out, C["dir"], fn), off)
            if fab.get("k") == "nofab" or len(fab.get("arrays", [])) != 2 or any(a is None for a in fab["arrays"]):
                v = "level %d: no complete FAB with two components at the recorded position" % l
                break
            nx, ny = box["hi"][cx] - box["lo"][cx] + 1, box["hi"][cy] - box["lo"][cy] + 1
            va = fab["arrays"][0].reshape((nx, ny), order="F")
            wa = fab["arrays"][1].reshape((nx, ny), order="F")
            q = [slice(None)] * 3
            q[cn] = 0
            q[cx] = slice(box["lo"][cx], box["hi"][cx] + 1)
            q[cy] = slice(box["lo"][cy], box["hi"][cy] + 1)
            wwant = base[l][tuple(q)]
            if wwant.shape != wa.shape:
                wwant = wwant.T
            if not np.all(np.abs(wa - wwant) <= 1e-9 * np.maximum(1.0, np.abs(wwant))):
                k = np.argwhere(~(np.abs(wa - wwant) <= 1e-9 * np.maximum(1.0, np.abs(wwant))))[0]
                v = "level %d: the field constant along the normal holds %r at cell %r of the written box, the level's own stored value there is %r" % (
                    l, float(wa[tuple(k)]), [int(x) for x in k], float(wwant[tuple(k)]))
                break
            if glo[cn] + dxs[l][cn] / 2 <= pos <= ghi[cn] - dxs[l][cn] / 2:
                want = 3.0 * pos - 2.0
                if not np.all(np.abs(va - want) <= 1e-9 * max(1.0, abs(want))):
                    v = "level %d: the field affine along the normal holds %r in the written box, at the plane it is %r" % (l, float(va.ravel()[0]), want)
                    break
        if v is None and not compare_time(H, ap):
            v = "time of the 2-D plotfile is %r, the input's is %r" % (H["time"], ap["time"])
        if v is None:
            try:
                with shims.pool_shim(shims.Scheduler()), core.quiet():
                    good = bool(Taster(out, boxes_coordinates=True, nofail=True, verbose=0))
            except Exception as e:
                good = False
            if not good:
                v = "the validator (with box coordinates) does not accept the 2-D plotfile written"
    if v is None and alpha.tree_digest(d) != before:
        v = "the input plotfile was modified"
    if v:
        v = "refinement ratios %r (%d levels, 3D), slice(normal=%d, pos=%r, limit %d) in plotfile format: %s" % (rs, len(rs) + 1, cn, pos, lim, v)
    return v


def compare_time(H, ap):
    a, b = float(H["time"]), float(ap["time"])
    return a == b or (a != a and b != b)


def integral(ds, ap, cfg_, reg, sc, cfgseed):
    from amr_kitchen import PlotfileCooker
    from amr_kitchen.pestle import volume_integral
    lim = sc["lim"]
    fi = 1 + cfgseed % len(FIELDS)
    exp, _ = covering_grid(ap, cfg_, reg, lim, fi)
    dv = float(np.prod(gamma.level_dx(cfg_, 3, lim)))
    want = float(exp.sum()) * dv
    mag = float(np.abs(exp).sum()) * dv
    try:
        with shims.pool_shim(shims.Scheduler(default="random", rng=random.Random(cfgseed))), core.quiet():
            if cfgseed % 2:
                got = volume_integral(PlotfileCooker(ds, ghost=True), FIELDS[fi - 1], limit_level=lim)
            else:
                got = volume_integral(PlotfileCooker(ds, limit_level=lim, ghost=True), FIELDS[fi - 1])
    except Exception as e:
        return "pestle (limit %d) raised %s: %s" % (lim, type(e).__name__, str(e)[:160])
    if not abs(float(got) - want) <= 1e-9 * mag:
        return "integral of %r up to level %d = %r, the sum of value x cell volume over the cells not covered by a finer selected level is %r" % (
            FIELDS[fi - 1], lim, float(got), want)
    return None


def phase(chk, what):
    r = chk.add_tlc(tlc.run("MC_Refine", models(chk.tier), timeout=600), "refinement ratios (MC_Refine)")
    if r.violated:
        chk.note_drift("TLC: %s violated in MC_Refine" % r.violated)
    if not r.emitted:
        raise core.MachineryError("MC_Refine emitted no scenarios")
    scs = r.emitted
    if what == "point":
        scs = [s for s in scs if s["lim"] == len(s["ratios"])]
    elif what in ("grid", "plate", "integral", "slice", "sliceplt"):
        scs = [s for s in scs if s["ql"] == 0 and s["n0"] == (5 if what in ("slice", "sliceplt") else 4)]
    else:
        scs = [s for s in scs if s["ql"] == 0]
    cap = 80 if chk.tier == "quick" else 600
    chosen = util.select(scs, cap, chk.rng)
    for sc in chosen:
        cfgseed = chk.rng.randrange(1 << 30)
        global LAST_KLASS
        LAST_KLASS = None
        v = run_one(chk, sc, cfgseed, what)
        sigs = util.sig_str(["refine"] + sc["sig"], what)
        chk.executed(sigs, len(sc["ratios"]) > 0, sample={"ratios": sc["ratios"], "lim": sc["lim"], "ql": sc["ql"], "what": what})
        chk.traces += 1
        if v:
            chk.violation(sigs, v, {"phase_module": "refine", "what": what, "sc": sc, "cfgseed": cfgseed, "sigs": sigs}, klass=LAST_KLASS)


def replay(chk, s):
    v = run_one(chk, s["sc"], s["cfgseed"], s["what"])
    chk.executed("replay")
    if v:
        chk.violation(s["sigs"], v, s)
