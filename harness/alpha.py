"""
alpha -- abstraction: a directory on disk -> the vocabulary of spec/Plotfile.tla.
An independent reader written from the AMReX plotfile format; it does NOT import amr_kitchen.
Contains no property logic: it reports what is there (or where parsing stopped).
"""
import os
import re
import numpy as np

FAB_RE = re.compile(rb"^FAB \(\(8, \(64 11 52 0 1 12 0 1023\)\),\(8, \(8 7 6 5 4 3 2 1\)\)\)"
                    rb"\(\(([-0-9,]+)\) \(([-0-9,]+)\) \(([-0-9,]+)\)\) (\d+)\n$")


class Unparsable(Exception):
    def __init__(self, where, why):
        Exception.__init__(self, "%s: %s" % (where, why))
        self.where = where
        self.why = why


def _ints(s):
    return [int(v) for v in s.split(",")]


def parse_header(path):
    """Global Header -> dict.  Raises Unparsable."""
    hp = os.path.join(path, "Header")
    try:
        lines = open(hp, encoding="utf-8").read().split("\n")
    except OSError as e:
        raise Unparsable("Header", str(e))
    it = iter(lines)

    def nxt():
        try:
            return next(it)
        except StopIteration:
            raise Unparsable("Header", "unexpected end of file")
    try:
        H = {}
        H["version"] = nxt()
        nf = int(nxt())
        H["fields"] = [nxt() for _ in range(nf)]
        H["ndims"] = int(nxt())
        H["time"] = float(nxt())
        H["finest"] = int(nxt())
        H["geo_lo"] = [float(v) for v in nxt().split()]
        H["geo_hi"] = [float(v) for v in nxt().split()]
        H["ratios_raw"] = nxt()
        H["ratios"] = [int(v) for v in H["ratios_raw"].split()]
        doms = re.findall(r"\(\(([-0-9,]+)\) \(([-0-9,]+)\) \(([-0-9,]+)\)\)", nxt())
        H["domains"] = [[_ints(a), _ints(b)] for a, b, _ in doms]
        H["steps"] = [int(v) for v in nxt().split()]
        dxl = [nxt() for _ in range(H["finest"] + 1)]
        H["dx"] = [[float(v) for v in l.split()] for l in dxl]
        # most significant digits any cell size is stated with: a header written with few digits states numbers that agree
        # with each other only to that precision
        H["dx_digits"] = max([len(re.sub(r"[eE].*$", "", v).replace(".", "").replace("-", "").lstrip("0")) for l in dxl for v in l.split()] or [17])
        H["coord"] = nxt()
        H["zero"] = nxt()
        H["levels"] = []
        for lv in range(H["finest"] + 1):
            a, n, t = nxt().split()
            L = {"level": int(a), "nboxes": int(n), "time": float(t), "step": nxt()}
            L["bounds"] = []
            for _ in range(L["nboxes"]):
                L["bounds"].append([[float(v) for v in nxt().split()] for _ in range(H["ndims"])])
            L["path"] = nxt()
            H["levels"].append(L)
        return H
    except Unparsable:
        raise
    except Exception as e:
        raise Unparsable("Header", repr(e))


def parse_cell_h(path, leveldir, want_mm=True):
    cp = os.path.join(path, leveldir, "Cell_H")
    try:
        lines = open(cp).read().split("\n")
    except OSError as e:
        raise Unparsable(leveldir + "/Cell_H", str(e))
    it = iter(lines)

    def nxt():
        try:
            return next(it)
        except StopIteration:
            raise Unparsable(leveldir + "/Cell_H", "unexpected end of file")
    try:
        C = {}
        C["v1"], C["v2"] = nxt(), nxt()
        C["nfields"] = int(nxt())
        C["ngrow"] = nxt()
        first = nxt()
        m = re.match(r"^\((\d+) (\d+)$", first)
        if not m:
            raise Unparsable(leveldir + "/Cell_H", "bad box count line %r" % first)
        nb = int(m.group(1))
        C["idx"] = []
        for _ in range(nb):
            l = nxt()
            m = re.match(r"^\(\(([-0-9,]+)\) \(([-0-9,]+)\) \(([-0-9,]+)\)\)$", l.strip())
            if not m:
                raise Unparsable(leveldir + "/Cell_H", "bad box line %r" % l)
            C["idx"].append([_ints(m.group(1)), _ints(m.group(2))])
        if nxt().strip() != ")":
            raise Unparsable(leveldir + "/Cell_H", "missing closing paren")
        n2 = int(nxt())
        if n2 != nb:
            raise Unparsable(leveldir + "/Cell_H", "FabOnDisk count %d != %d" % (n2, nb))
        C["fod"] = []
        for _ in range(nb):
            l = nxt()
            parts = l.split()
            if len(parts) != 3 or parts[0] != "FabOnDisk:":
                raise Unparsable(leveldir + "/Cell_H", "bad FabOnDisk line %r" % l)
            C["fod"].append([parts[1], int(parts[2])])
        C["mins"], C["maxs"], C["mins_txt"], C["maxs_txt"] = None, None, None, None
        if want_mm:
            try:
                nxt()
                a, b = nxt().split(",")
                rows = [nxt() for _ in range(int(a))]
                C["mins_txt"] = [r.split(",")[:-1] for r in rows]
                C["mins"] = [[float(v) for v in r] for r in C["mins_txt"]]
                nxt()
                a, b = nxt().split(",")
                rows = [nxt() for _ in range(int(a))]
                C["maxs_txt"] = [r.split(",")[:-1] for r in rows]
                C["maxs"] = [[float(v) for v in r] for r in C["maxs_txt"]]
                C["mm_ncols"] = int(b)
            except Unparsable:
                raise
            except Exception as e:
                raise Unparsable(leveldir + "/Cell_H", "min/max tables: %r" % e)
        return C
    except Unparsable:
        raise
    except Exception as e:
        raise Unparsable(leveldir + "/Cell_H", repr(e))


def walk_binary(fpath, reg=None, ndims=None):
    """
    Sequential walk over a binary file: list of segments
      {"k":"fab","off":o,"idx":[lo,hi],"nc":n,"comps":[tok..],"full":bool,"end":o2}
      {"k":"junk","off":o,"n":bytes}
    """
    data = open(fpath, "rb").read()
    segs = []
    p = 0
    n = len(data)
    while p < n:
        e = data.find(b"\n", p, min(n, p + 400))
        m = FAB_RE.match(data[p:e + 1]) if e >= 0 else None
        if not m:
            # junk up to the next thing that looks like a FAB header
            q = data.find(b"FAB ((8,", p + 1)
            if q < 0:
                q = n
            segs.append({"k": "junk", "off": p, "n": q - p})
            p = q
            continue
        lo, hi, nc = _ints(m.group(1).decode()), _ints(m.group(2).decode()), int(m.group(4))
        shape = [b - a + 1 for a, b in zip(lo, hi)]
        ncells = int(np.prod(shape))
        start = e + 1
        need = ncells * nc * 8
        have = min(need, n - start)
        # a following FAB header inside the payload region means the payload is short
        comps = []
        for c in range(nc):
            a, b = start + c * ncells * 8, start + (c + 1) * ncells * 8
            if b <= n:
                arr = np.frombuffer(data, dtype=np.float64, count=ncells, offset=a)
                comps.append(reg.token_of(arr) if reg is not None else None)
            else:
                comps.append(["truncated"])
        segs.append({"k": "fab", "off": p, "hdr_len": start - p, "idx": [lo, hi], "nc": nc,
                     "comps": comps, "full": have == need, "end": start + have})
        p = start + have
    return segs, n


def read_fab_at(fpath, off, reg=None):
    """What a reader following the level header finds at byte `off` of `fpath`."""
    try:
        with open(fpath, "rb") as f:
            f.seek(off)
            line = f.readline()
            m = FAB_RE.match(line)
            if not m:
                return {"k": "nofab"}
            lo, hi, nc = _ints(m.group(1).decode()), _ints(m.group(2).decode()), int(m.group(4))
            ncells = int(np.prod([b - a + 1 for a, b in zip(lo, hi)]))
            comps, arrays = [], []
            for c in range(nc):
                raw = f.read(ncells * 8)
                if len(raw) < ncells * 8:
                    comps.append(["truncated"])
                    arrays.append(None)
                else:
                    arr = np.frombuffer(raw, dtype=np.float64)
                    arrays.append(arr)
                    comps.append(reg.token_of(arr) if reg is not None else None)
            return {"k": "fab", "idx": [lo, hi], "nc": nc, "comps": comps, "arrays": arrays}
    except OSError:
        return {"k": "nofile"}


def abstract(path, reg=None, want_mm=True):
    """
    Full abstraction of a plotfile directory.
    Returns {"ok":True, "hdr":..., "lev":[{cellh..., "files":{name:segs}, "sizes":{name:n}}]}
    or {"ok":False, "where":..., "why":...}.
    """
    try:
        H = parse_header(path)
        out = {"ok": True, "hdr": H, "lev": []}
        for lv in range(H["finest"] + 1):
            ldir = H["levels"][lv]["path"].split("/")[0]
            C = parse_cell_h(path, ldir, want_mm)
            files, sizes = {}, {}
            lpath = os.path.join(path, ldir)
            for fn in sorted(os.listdir(lpath)):
                if fn == "Cell_H":
                    continue
                files[fn], sizes[fn] = walk_binary(os.path.join(lpath, fn), reg)
            C["files"], C["sizes"], C["dir"] = files, sizes, ldir
            out["lev"].append(C)
        return out
    except Unparsable as e:
        return {"ok": False, "where": e.where, "why": e.why}


def wellformed(A):
    """List of reasons why the abstraction is not a well-formed plotfile ([] = well-formed)."""
    if not A.get("ok"):
        return ["unparsable %s: %s" % (A.get("where"), A.get("why"))]
    why = []
    H = A["hdr"]
    nf = len(H["fields"])
    nd = H["ndims"]
    if len(H["levels"]) != H["finest"] + 1 or len(H["dx"]) != H["finest"] + 1:
        why.append("level count")
    if len(H["domains"]) < H["finest"] + 1:
        why.append("domain boxes")
    if len(H["geo_lo"]) != nd or len(H["geo_hi"]) != nd:
        why.append("geometry dims")
    for lv, C in enumerate(A["lev"]):
        HL = H["levels"][lv]
        if C["nfields"] != nf:
            why.append("L%d Cell_H nfields %d != %d" % (lv, C["nfields"], nf))
        if len(C["idx"]) != HL["nboxes"]:
            why.append("L%d box count" % lv)
        used = {}
        for b, (idx, (fn, off)) in enumerate(zip(C["idx"], C["fod"])):
            segs = C["files"].get(fn)
            if segs is None:
                why.append("L%d box %d: file %s missing" % (lv, b, fn))
                continue
            seg = [s for s in segs if s["off"] == off and s["k"] == "fab"]
            if not seg:
                why.append("L%d box %d: no FAB at %s:%d" % (lv, b, fn, off))
                continue
            seg = seg[0]
            if seg["idx"] != idx:
                why.append("L%d box %d: FAB idx %r != %r" % (lv, b, seg["idx"], idx))
            if seg["nc"] != nf:
                why.append("L%d box %d: FAB nc %d != %d" % (lv, b, seg["nc"], nf))
            if not seg["full"]:
                why.append("L%d box %d: truncated" % (lv, b))
            if (fn, off) in used:
                why.append("L%d box %d shares FAB with box %d" % (lv, b, used[(fn, off)]))
            used[(fn, off)] = b
            # bounds
            if lv < len(H["dx"]) and b < len(HL["bounds"]):
                for d in range(nd):
                    dx = H["dx"][lv][d]
                    i0 = H["domains"][lv][0][d] if lv < len(H["domains"]) else 0     # first index of the level's domain
                    elo = H["geo_lo"][d] + dx * (idx[0][d] - i0)
                    ehi = H["geo_lo"][d] + dx * (idx[1][d] + 1 - i0)
                    blo, bhi = HL["bounds"][b][d]
                    # numbers stated with six or seven digits: consistent to that precision only (still far below a cell)
                    slack = 0.0 if H.get("dx_digits", 17) > 7 else 2e-5 * max(abs(H["geo_lo"][d]), abs(H["geo_hi"][d]), abs(H["geo_hi"][d] - H["geo_lo"][d]))
                    if abs(elo - blo) > 1e-9 * max(1.0, abs(elo)) + 1e-6 * abs(dx) + slack or \
                       abs(ehi - bhi) > 1e-9 * max(1.0, abs(ehi)) + 1e-6 * abs(dx) + slack:
                        why.append("L%d box %d dim %d bounds (%r,%r) vs idx (%r,%r)"
                                   % (lv, b, d, blo, bhi, elo, ehi))
        referenced = {fn for fn, _ in C["fod"]}
        for fn, segs in C["files"].items():
            if fn not in referenced:
                # a file that no box of the level header refers to (left behind by an earlier, larger plotfile written to the
                # same directory): not part of the plotfile
                continue
            for s in segs:
                if s["k"] == "junk":
                    why.append("L%d %s: %d junk bytes at %d" % (lv, fn, s["n"], s["off"]))
                elif (fn, s["off"]) not in used:
                    why.append("L%d %s: orphan FAB at %d" % (lv, fn, s["off"]))
        if C["mins"] is not None:
            if len(C["mins"]) != len(C["idx"]) or len(C["maxs"]) != len(C["idx"]):
                why.append("L%d min/max row count" % lv)
            for r in C["mins"] + C["maxs"]:
                if len(r) != nf:
                    why.append("L%d min/max column count" % lv)
                    break
    return why


def content(A):
    """
    Layout-independent meaning (Plotfile.tla!Content): fields, finest, time, geometry, and per
    level a list (header order) of {"idx", "bounds", "comps", "mins", "maxs"}.
    Only meaningful for a well-formed abstraction.
    """
    H = A["hdr"]
    out = {"fields": H["fields"], "ndims": H["ndims"], "finest": H["finest"], "time": H["time"],
           "geo": [H["geo_lo"], H["geo_hi"]], "dx": H["dx"],
           "domains": H["domains"][:H["finest"] + 1], "lev": []}
    for lv, C in enumerate(A["lev"]):
        boxes = []
        for b, (idx, (fn, off)) in enumerate(zip(C["idx"], C["fod"])):
            seg = [s for s in C["files"].get(fn, []) if s["off"] == off and s["k"] == "fab"]
            comps = seg[0]["comps"] if seg else None
            boxes.append({"idx": idx, "bounds": H["levels"][lv]["bounds"][b], "comps": comps,
                          "mins": C["mins"][b] if C["mins"] else None,
                          "maxs": C["maxs"][b] if C["maxs"] else None,
                          "mins_txt": C["mins_txt"][b] if C["mins_txt"] else None,
                          "maxs_txt": C["maxs_txt"][b] if C["maxs_txt"] else None})
        out["lev"].append(boxes)
    return out


def tree_digest(path):
    """Raw byte digest of every file below path: {relpath: sha1}."""
    import hashlib
    out = {}
    for root, dirs, files in os.walk(path):
        dirs.sort()
        for fn in sorted(files):
            p = os.path.join(root, fn)
            out[os.path.relpath(p, path)] = hashlib.sha1(open(p, "rb").read()).hexdigest()
    return out
