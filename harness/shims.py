"""
Shims that let the harness control / observe the environment of the real amr_kitchen code
from outside the repository:

  SchedPool   in-process replacement of multiprocessing.Pool / pathos ProcessingPool that runs
              the tasks of every pool call in a *prescribed completion order* (the Finish order of
              a behaviour of spec/Pool.tla) and delivers results per call kind.
  GatedPool   a real multiprocessing.Pool whose start and completion order is forced from the
              parent (semaphore bank created before the fork).
  FsAudit     sys.addaudithook recorder of mutating file-system events + fault injection on the
              k-th open-for-write / write().
  Poison      numpy.empty returns sentinel-filled arrays.

No property logic here.
"""
import builtins
import contextlib
import io
import os
import pickle
import sys
import multiprocessing
import threading

import numpy as np

_REAL_POOL = multiprocessing.Pool

# ----------------------------------------------------------------------------- scheduler


class Scheduler(object):
    """
    Decides, for the c-th pool call of a run (c = 1,2,..) with n tasks, the order in which the
    tasks complete.  `plan` maps call number -> permutation of 1..n (1-based) or a named
    strategy; default strategy applies to calls not in the plan.
    Records a trace of pool events.
    """

    def __init__(self, plan=None, default="fifo", rng=None, copy=True, workers=None):
        self.plan = plan or {}
        self.default = default
        self.rng = rng
        self.calls = 0
        self.trace = []
        self.copy = copy
        self.workers = workers
        self.listener = None

    def order(self, n):
        self.calls += 1
        c = self.calls
        p = self.plan.get(c, self.plan.get(str(c), self.default))
        if isinstance(p, (list, tuple)):
            p = [int(k) for k in p]
            if sorted(p) != list(range(1, n + 1)):
                # plan made for another task count: fall back to a deterministic rotation
                p = [((k + len(p)) % n) + 1 for k in range(n)]
            return c, p
        if p == "fifo":
            return c, list(range(1, n + 1))
        if p == "lifo":
            return c, list(range(n, 0, -1))
        if p == "rotate":
            return c, [((k + 1) % n) + 1 for k in range(n)] if n else []
        if p == "random":
            q = list(range(1, n + 1))
            self.rng.shuffle(q)
            return c, q
        raise ValueError(p)

    def ev(self, **kw):
        self.trace.append(kw)
        if self.listener is not None:
            self.listener(kw)


_SCHED = None


def current_scheduler():
    return _SCHED


try:
    import dill as _dill
except Exception:  # pragma: no cover
    _dill = None


def _roundtrip(x):
    """What crossing a process boundary does to a value (pathos pools pickle with dill)."""
    try:
        return pickle.loads(pickle.dumps(x))
    except Exception:
        if _dill is None:
            raise
        return _dill.loads(_dill.dumps(x))


class SchedPool(object):
    """In-process pool executing tasks in the scheduler's completion order."""

    def __init__(self, *a, **kw):
        self.sched = _SCHED
        nproc = a[0] if a else kw.get("processes", kw.get("nodes"))
        self.sched.ev(ev="PoolNew", w=nproc)
        # the size the real pool would have: decides how map() cuts its task list into chunks
        self.nproc = nproc or os.cpu_count() or 1
        # workers are forked NOW and keep the working directory of this moment (spec/PoolEnv.tla): tasks run with it
        try:
            self.fork_cwd = os.getcwd()
        except OSError:
            self.fork_cwd = None

    # context manager / lifecycle
    def __enter__(self):
        return self

    def __exit__(self, *a):
        return False

    def close(self):
        pass

    def join(self):
        pass

    def terminate(self):
        pass

    def clear(self):
        pass

    def _run(self, kind, fun, iterable, chunksize=None):
        tasks = list(iterable)
        n = len(tasks)
        c, order = self.sched.order(n)
        self.sched.ev(ev="Submit", call=c, kind=kind, n=n, fun=getattr(fun, "__name__", str(fun)))
        res = [None] * n
        exc = [None] * n
        if self.sched.copy and n:
            # the arguments cross the process boundary CHUNK by chunk, as in multiprocessing.Pool: map() cuts the task list
            # into about four chunks per worker (imap: one task per chunk unless told otherwise) and pickles each chunk as one
            # object, so what the tasks of a chunk share (one array handed to every task) is still shared on the other
            # side, while nothing is shared across chunks or with the parent
            if chunksize is None:
                if kind == "map":
                    chunksize, extra = divmod(n, self.nproc * 4)
                    chunksize += 1 if extra else 0
                else:
                    chunksize = 1
            chunksize = max(1, int(chunksize))
            moved = []
            for i in range(0, n, chunksize):
                moved += list(_roundtrip(tuple(tasks[i:i + chunksize])))
            tasks = moved
        for k in order:
            arg = tasks[k - 1]
            self.sched.ev(ev="Start", call=c, k=k)
            here = None
            try:
                if self.fork_cwd is not None and os.getcwd() != self.fork_cwd:
                    here = os.getcwd()
                    os.chdir(self.fork_cwd)       # the worker's directory, not the caller's
            except OSError:
                # the directory the workers were started in has been REMOVED since: a worker still sits in it, and every relative
                # name it opens fails -- the task runs in a directory that is removed under its feet
                try:
                    import tempfile
                    here = os.getcwd()
                    ghost = tempfile.mkdtemp(prefix="gone_")
                    os.chdir(ghost)
                    os.rmdir(ghost)
                except OSError:
                    here = None
            try:
                r = fun(arg)
                res[k - 1] = _roundtrip(r) if self.sched.copy else r
            except Exception as e:  # transported to the parent like a real pool does
                exc[k - 1] = e
            finally:
                if here is not None:
                    os.chdir(here)
            self.sched.ev(ev="Finish", call=c, k=k, ok=exc[k - 1] is None)
        return c, order, res, exc

    def map(self, fun, iterable, chunksize=None):
        c, order, res, exc = self._run("map", fun, iterable, chunksize)
        for k, e in enumerate(exc, 1):
            if e is not None:
                self.sched.ev(ev="Raise", call=c, k=k)
                raise e
        for k in range(1, len(res) + 1):
            self.sched.ev(ev="Deliver", call=c, k=k)
        return res

    def imap(self, fun, iterable, chunksize=None):
        c, order, res, exc = self._run("imap", fun, iterable, chunksize or 1)

        def gen():
            for k in range(1, len(res) + 1):
                if exc[k - 1] is not None:
                    self.sched.ev(ev="Raise", call=c, k=k)
                    raise exc[k - 1]
                self.sched.ev(ev="Deliver", call=c, k=k)
                yield res[k - 1]
        return _Iter(gen())

    def imap_unordered(self, fun, iterable, chunksize=None):
        c, order, res, exc = self._run("imap_unordered", fun, iterable, chunksize or 1)

        def gen():
            for k in order:
                if exc[k - 1] is not None:
                    self.sched.ev(ev="Raise", call=c, k=k)
                    raise exc[k - 1]
                self.sched.ev(ev="Deliver", call=c, k=k)
                yield res[k - 1]
        return _Iter(gen())

    # ---- the rest of the multiprocessing.Pool interface (a tool is free to use any of it)
    def starmap(self, fun, iterable, chunksize=None):
        return self.map(_Star(fun), [tuple(t) for t in iterable], chunksize)

    def apply(self, fun, args=(), kwds=None):
        return self.apply_async(fun, args, kwds).get()

    def apply_async(self, fun, args=(), kwds=None, callback=None, error_callback=None):
        """One task; like the real pool the exception of the task is kept in the result object and only raised by get():
        wait() and ready() never raise."""
        c, order, res, exc = self._run("apply", _Apply(fun, kwds or {}), [tuple(args)])
        return _Async(self, c, res, exc, single=True, callback=callback, error_callback=error_callback)

    def map_async(self, fun, iterable, chunksize=None, callback=None, error_callback=None):
        c, order, res, exc = self._run("map", fun, iterable, chunksize)
        return _Async(self, c, res, exc, single=False, callback=callback, error_callback=error_callback)

    def starmap_async(self, fun, iterable, chunksize=None, callback=None, error_callback=None):
        return self.map_async(_Star(fun), [tuple(t) for t in iterable], chunksize, callback, error_callback)

    # pathos spelling
    uimap = imap_unordered
    amap = map_async
    apipe = apply_async
    pipe = apply


class _Star(object):
    def __init__(self, fun):
        self.fun = fun
        self.__name__ = getattr(fun, "__name__", "fun")

    def __call__(self, args):
        return self.fun(*args)


class _Apply(object):
    def __init__(self, fun, kwds):
        self.fun, self.kwds = fun, kwds
        self.__name__ = getattr(fun, "__name__", "fun")

    def __call__(self, args):
        return self.fun(*args, **self.kwds)


class _Async(object):
    """multiprocessing.pool.AsyncResult of the in-process pool (the work is already done when it is handed out)."""

    def __init__(self, pool, call, res, exc, single, callback=None, error_callback=None):
        self.pool, self.call, self.res, self.exc, self.single = pool, call, res, exc, single
        self.delivered = False
        bad = [e for e in exc if e is not None]
        if bad and error_callback:
            error_callback(bad[0])
        elif not bad and callback:
            callback(res[0] if single else res)

    def ready(self):
        return True

    def successful(self):
        return all(e is None for e in self.exc)

    def wait(self, timeout=None):
        return None

    def get(self, timeout=None):
        for k, e in enumerate(self.exc, 1):
            if e is not None:
                self.pool.sched.ev(ev="Raise", call=self.call, k=k)
                raise e
        if not self.delivered:
            for k in range(1, len(self.res) + 1):
                self.pool.sched.ev(ev="Deliver", call=self.call, k=k)
            self.delivered = True
        return self.res[0] if self.single else self.res


class _Iter(object):
    """Iterator with the .__next__ / next interface IMapIterator offers."""

    def __init__(self, g):
        self._g = g

    def __iter__(self):
        return self

    def __next__(self):
        return next(self._g)

    next = __next__


# ----------------------------------------------------------------------------- gated real pool

class _Gate(object):
    """Semaphore bank created before the workers fork."""

    def __init__(self, n):
        ctx = multiprocessing.get_context("fork")
        self.sems = [ctx.Semaphore(0) for _ in range(n)]
        self.started = [ctx.Semaphore(0) for _ in range(n)]


def _gated_call(payload):
    blob, slot = payload
    gate = _GATE
    gate.started[slot].release()
    try:
        fun, arg = (_dill or pickle).loads(blob)
        r = fun(arg)
        ok = True
    except Exception as e:
        r, ok = e, False
    gate.sems[slot].acquire()
    try:
        return (_dill or pickle).dumps((ok, r))
    except Exception as e:
        return pickle.dumps((False, RuntimeError("unpicklable result: %r" % e)))


_GATE = None


class GatedPool(object):
    """
    Real worker processes; task k is handed to the pool at the behaviour's Start(k) and may
    return only at the behaviour's Finish(k).  Start order = completion order here (each task is
    released before the next is started when W == 1, otherwise up to W run concurrently).
    """
    MAXT = 64

    def __init__(self, *a, **kw):
        global _GATE
        self.sched = _SCHED
        self.W = self.sched.workers or 2
        _GATE = _Gate(self.MAXT)
        self.pool = _REAL_POOL(processes=self.W)
        self.sched.ev(ev="PoolNew", w=self.W)

    def __enter__(self):
        return self

    def __exit__(self, *a):
        self.terminate()
        return False

    def close(self):
        self.pool.close()

    def join(self):
        self.pool.join()

    def terminate(self):
        self.pool.terminate()

    def clear(self):
        self.terminate()

    def __getattr__(self, name):
        # the rest of the Pool interface (apply_async, starmap, map_async ...) goes to the real pool as it is
        if name.startswith("__"):
            raise AttributeError(name)
        return getattr(self.pool, name)

    def _run(self, kind, fun, iterable, chunksize=None):
        # every task is sent on its own (apply_async): nothing is shared between tasks here
        tasks = list(iterable)
        n = len(tasks)
        if n > self.MAXT:
            raise RuntimeError("MACHINERY: GatedPool task bank too small")
        c, order = self.sched.order(n)
        self.sched.ev(ev="Submit", call=c, kind=kind, n=n, fun=getattr(fun, "__name__", str(fun)))
        res = [None] * n
        exc = [None] * n
        handles = {}
        W = self.W
        # start the first W tasks of the order, then finish/start alternately
        started = 0
        for i, k in enumerate(order):
            while started < min(n, i + W):
                ks = order[started]
                blob = (_dill or pickle).dumps((fun, tasks[ks - 1]))
                handles[ks] = self.pool.apply_async(_gated_call, ((blob, ks - 1),))
                if not _GATE.started[ks - 1].acquire(timeout=120):
                    raise RuntimeError("MACHINERY: gated task %d did not start" % ks)
                self.sched.ev(ev="Start", call=c, k=ks)
                started += 1
            _GATE.sems[k - 1].release()
            ok, r = (_dill or pickle).loads(handles[k].get(timeout=600))
            if ok:
                res[k - 1] = r
            else:
                exc[k - 1] = r
            self.sched.ev(ev="Finish", call=c, k=k, ok=ok)
        return c, order, res, exc

    map = SchedPool.map
    imap = SchedPool.imap
    imap_unordered = SchedPool.imap_unordered
    uimap = imap_unordered


# ----------------------------------------------------------------------------- install

class pool_shim(object):
    """Context manager installing a pool flavour under a Scheduler for the real code."""

    def __init__(self, sched, flavour="sched"):
        self.sched = sched
        self.cls = SchedPool if flavour == "sched" else GatedPool
        self.saved = []

    def __enter__(self):
        global _SCHED
        self.prev = _SCHED
        _SCHED = self.sched
        targets = [(multiprocessing, "Pool")]
        for modname in ("amr_kitchen.chef.chef", "amr_kitchen.chk2plt.chk2plt"):
            mod = sys.modules.get(modname)
            if mod is None:
                try:
                    mod = __import__(modname, fromlist=["x"])
                except Exception:
                    mod = None
            if mod is not None and hasattr(mod, "Pool"):
                targets.append((mod, "Pool"))
        for obj, name in targets:
            self.saved.append((obj, name, getattr(obj, name)))
            setattr(obj, name, self.cls)
        return self.sched

    def __exit__(self, *a):
        global _SCHED
        for obj, name, val in self.saved:
            setattr(obj, name, val)
        _SCHED = self.prev
        return False


# ----------------------------------------------------------------------------- FS audit + faults

MUTATING_OS = {"os.mkdir": 0, "os.remove": 0, "os.rmdir": 0, "os.rename": (0, 1), "os.truncate": 0,
               "os.chmod": 0, "os.chown": 0, "os.utime": 0, "os.link": (0, 1), "os.symlink": (1,),
               "os.replace": (0, 1), "shutil.rmtree": 0, "shutil.copyfile": (1,), "shutil.move": (0, 1),
               "shutil.copytree": (1,), "os.unlink": 0}


class FaultInjected(OSError):
    pass


class _Audit(object):
    def __init__(self):
        self.active = False
        self.events = []
        self.installed = False
        self.fault_at = None     # ordinal of the write point that fails (1-based)
        self.points = 0          # write points seen so far
        self.faulted = False
        self.point_log = []

    def hook(self, event, args):
        if not self.active:
            return
        try:
            if event == "open":
                path, mode, flags = args
                if isinstance(path, int):
                    return
                w = False
                if isinstance(mode, str):
                    w = any(c in mode for c in "wax+")
                elif flags is not None:
                    w = bool(flags & (os.O_WRONLY | os.O_RDWR | os.O_CREAT | os.O_TRUNC | os.O_APPEND))
                if w and not getattr(self, "in_wrapper", False):
                    self.events.append({"ev": "OpenW", "path": os.path.abspath(os.fsdecode(path))})
            elif event in MUTATING_OS:
                idxs = MUTATING_OS[event]
                if isinstance(idxs, int):
                    idxs = (idxs,)
                # shutil.rmtree walks with directory descriptors: its os.unlink / os.rmdir / os.mkdir calls name their target
                # RELATIVE to a dir_fd (the last audit argument) -- resolved through /proc, not against the working directory
                base = None
                if event in ("os.remove", "os.unlink", "os.rmdir", "os.mkdir") and isinstance(args[-1], int) and args[-1] >= 0 and len(args) > 1:
                    try:
                        base = os.readlink("/proc/self/fd/%d" % args[-1])
                    except OSError:
                        base = None
                for i in idxs:
                    if i < len(args) and args[i] is not None and not isinstance(args[i], int):
                        pth = os.fsdecode(args[i])
                        if base is not None and not os.path.isabs(pth):
                            pth = os.path.join(base, pth)
                        self.events.append({"ev": event.split(".")[1].capitalize(),
                                            "path": os.path.abspath(pth)})
        except Exception:
            pass


AUDIT = _Audit()
_REAL_OPEN = builtins.open


class _WFile(object):
    """Proxy around a file opened for writing: every write() is a fault point."""

    BUFFER = 8192      # io.DEFAULT_BUFFER_SIZE: what a buffered stream holds before it has to go to the device

    def __init__(self, f, path, raw=False):
        self._f = f
        self._p = path
        self._raw = raw        # opened with buffering=0: write() is the system call and reports a SHORT COUNT instead of raising
        self._late = None      # bytes lost so far in the buffer of a LATE fault (spec/BufWriter.tla)

    def _surface(self, where):
        """The device error of bytes that an earlier write() left in the buffer is raised by the call that empties it."""
        if self._late is not None:
            self._late = None
            AUDIT.dead.add(os.path.abspath(self._p))
            raise FaultInjected(28, "No space left on device (injected at write, raised by %s)" % where, self._p)

    def write(self, data):
        AUDIT.points += 1
        AUDIT.point_log.append(("write", self._p))
        if self._late is not None:
            # the buffer already holds bytes the device will refuse: they surface when it overflows
            AUDIT.events.append({"ev": "WP", "what": "write", "path": os.path.abspath(self._p), "faulted": True})
            self._late += len(data)
            if self._late > self.BUFFER:
                self._surface("a later write")
            return len(data)
        hit = (AUDIT.fault_at is not None and AUDIT.points == AUDIT.fault_at) or \
            os.path.abspath(self._p) in AUDIT.dead
        AUDIT.events.append({"ev": "WP", "what": "write", "path": os.path.abspath(self._p), "faulted": hit})
        if hit and self._raw and os.path.abspath(self._p) not in AUDIT.dead and len(data) > 1:
            # unbuffered file on a device that fills up: part of the bytes are taken and the count is returned; the NEXT write
            # (the retry of the remainder by a caller that looked at the count) fails outright
            AUDIT.faulted = True
            AUDIT.dead.add(os.path.abspath(self._p))
            n = len(data) // 2
            self._f.write(bytes(data)[:n])
            return n
        if hit:
            AUDIT.faulted = True
            if AUDIT.late and len(data) <= self.BUFFER:
                # LATE fault: write() only fills the buffer and returns; the bytes never reach the device
                self._late = len(data)
                return len(data)
            AUDIT.dead.add(os.path.abspath(self._p))
            raise FaultInjected(28, "No space left on device (injected at write)", self._p)
        return self._f.write(data)

    def flush(self):
        self._surface("flush")
        return self._f.flush()

    def close(self):
        try:
            self._surface("close")
        finally:
            self._f.close()

    def __getattr__(self, name):
        return getattr(self._f, name)

    def __enter__(self):
        self._f.__enter__()
        return self

    def __exit__(self, *a):
        try:
            if a[0] is None:
                self._surface("close")
        finally:
            r = self._f.__exit__(*a)
        return r

    def __iter__(self):
        return iter(self._f)


def _open_wrapper(file, mode="r", *a, **kw):
    if AUDIT.active and isinstance(mode, str) and any(c in mode for c in "wax+") \
            and not isinstance(file, int):
        AUDIT.points += 1
        AUDIT.point_log.append(("open", os.fsdecode(file)))
        hit = (AUDIT.fault_at is not None and AUDIT.points == AUDIT.fault_at) or \
            os.path.abspath(os.fsdecode(file)) in AUDIT.dead
        AUDIT.events.append({"ev": "WP", "what": "open", "path": os.path.abspath(os.fsdecode(file)), "faulted": hit})
        if hit:
            AUDIT.dead.add(os.path.abspath(os.fsdecode(file)))
            AUDIT.faulted = True
            raise FaultInjected(28, "No space left on device (injected at open)", os.fsdecode(file))
        AUDIT.in_wrapper = True
        try:
            f = _REAL_OPEN(file, mode, *a, **kw)
        finally:
            AUDIT.in_wrapper = False
        if AUDIT.fault_at is not None or AUDIT.count_writes:
            buffering = kw.get("buffering", a[0] if a else -1)
            return _WFile(f, os.fsdecode(file), raw=(buffering == 0))
        return f
    return _REAL_OPEN(file, mode, *a, **kw)


AUDIT.count_writes = False
AUDIT.dead = set()
AUDIT.late = False


class fs_audit(object):
    """
    Context manager: records mutating FS events; optionally counts write points or injects a
    fault at write point number `fault_at`.
    """

    def __init__(self, fault_at=None, count=False, late=False):
        self.fault_at = fault_at
        self.count = count
        self.late = late      # the fault is a LATE one: raised by the call that empties the buffer (spec/BufWriter.tla)

    def __enter__(self):
        if not AUDIT.installed:
            sys.addaudithook(AUDIT.hook)
            AUDIT.installed = True
        AUDIT.events = []
        AUDIT.points = 0
        AUDIT.point_log = []
        AUDIT.faulted = False
        AUDIT.dead = set()
        AUDIT.fault_at = self.fault_at
        AUDIT.late = self.late
        AUDIT.count_writes = self.count
        if self.fault_at is not None or self.count:
            builtins.open = _open_wrapper
            io.open = _open_wrapper
        AUDIT.active = True
        return AUDIT

    def __exit__(self, *a):
        AUDIT.active = False
        builtins.open = _REAL_OPEN
        io.open = _REAL_OPEN
        return False


# ----------------------------------------------------------------------------- poison

_REAL_EMPTY = np.empty
_REAL_EMPTY_LIKE = np.empty_like


class poison(object):
    """numpy.empty / empty_like return arrays filled with `sentinel`."""

    def __init__(self, sentinel):
        self.sentinel = sentinel

    def __enter__(self):
        s = self.sentinel

        def empty(shape, dtype=float, order="C", **kw):
            a = _REAL_EMPTY(shape, dtype=dtype, order=order)
            try:
                if a.dtype.kind in "fc":
                    a[...] = s
                elif a.dtype.kind in "iu":
                    a[...] = -777777 if a.dtype.kind == "i" else 777777
            except Exception:
                pass
            return a

        def empty_like(p, dtype=None, order="K", subok=True, shape=None):
            a = _REAL_EMPTY_LIKE(p, dtype=dtype, order=order, subok=subok, shape=shape)
            try:
                if a.dtype.kind in "fc":
                    a[...] = s
                elif a.dtype.kind in "iu":
                    a[...] = -777777 if a.dtype.kind == "i" else 777777
            except Exception:
                pass
            return a
        np.empty = empty
        np.empty_like = empty_like
        return self

    def __exit__(self, *a):
        np.empty = _REAL_EMPTY
        np.empty_like = _REAL_EMPTY_LIKE
        return False


# ------------------------------------------------------------------ a process that may hold few descriptors

@contextlib.contextmanager
def low_fd_limit(margin=24):
    """Run the body with the soft RLIMIT_NOFILE lowered to `margin` descriptors above the highest one in use: a tool that keeps a
    descriptor PER BOX (or per task) instead of per file runs out as soon as a file holds more boxes than that -- which is where a
    cluster's limit of 1024 sits for the plotfiles of a production run.  The limit is restored on exit."""
    import resource
    soft, hard = resource.getrlimit(resource.RLIMIT_NOFILE)
    try:
        top = max(int(x) for x in os.listdir("/proc/self/fd") if x.isdigit())
    except OSError:
        top = 64
    new = min(soft if soft != resource.RLIM_INFINITY else 1 << 20, top + 1 + margin)
    resource.setrlimit(resource.RLIMIT_NOFILE, (new, hard))
    try:
        yield new
    finally:
        resource.setrlimit(resource.RLIMIT_NOFILE, (soft, hard))
