def recipe(field_indexes, box_array):
    """new1"""
    k = list(field_indexes)
    return box_array[..., field_indexes[k[0]]] * 2.0 + box_array[..., field_indexes[k[1]]]
