import numpy as np


def recipe(field_indexes, box_array):
    """new1 new2"""
    k = list(field_indexes)
    x0 = box_array[..., field_indexes[k[0]]]
    x1 = box_array[..., field_indexes[k[1]]]
    return np.stack([x0 - x1, x0 * 0.5 + 3.0], axis=-1)
