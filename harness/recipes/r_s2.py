import numpy as np


def recipe(field_indexes, box_array, sol_array):
    """new1 new2"""
    return np.stack([sol_array.density_mass, sol_array.cp_mass], axis=-1)
