def recipe(field_indexes, box_array, sol_array):
    """new1"""
    return sol_array.density_mass
