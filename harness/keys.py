"""
Field keys of headers with repeated names (spec/FieldKeys.tla, spec/mc/MC_Keys.tla).

TLC checks that the constructor's numbering loop (ImplKeys) satisfies the requirement KeysOk for
every name list over an alphabet that contains generated-looking names ("a_2", "a_3") and emits
each list.  The lists are replayed against the real code:
  what = "read"  (C01)  every key selects, for every level and box, exactly the component it stands for
  what = "taste" (C03)  the validator accepts the plotfile under several option sets
`keys_ok` is KeysOk in python (used by C02 as well): a relation on the OBSERVED keys, not a
comparison with the model's own numbering.
"""
import os
import random
import re

import numpy as np

from harness import alpha, core, gamma, shims, tlc, util

# (names are whole header lines: a blank or a tab at either end is part of the name)
BASES = [("phi", "rho"), ("Y(H2)", "temp"), ("mag vort", "T-1"), ("u_1", "u"), ("temp ", "temp"), (" x", "rho\t"),
         ("temp\u00e9rature", "\u0394p")]


def concrete_names(names, seed):
    a, b = BASES[seed % len(BASES)]
    m = {"a": a, "b": b, "a_2": a + "_2", "a_3": a + "_3", "c": b + "x"}
    return [m[n] for n in names]


def keys_ok(names, keys):
    """None, or the clause of KeysOk (FieldKeys.tla) that the observed keys break."""
    names, keys = list(names), list(keys)
    if len(keys) != len(names):
        return "exposes %d field keys %r for the %d fields %r of the header" % (len(keys), keys, len(names), names)
    if len(set(keys)) != len(keys):
        return "field keys are not unique: %r" % keys
    for i, (n, k) in enumerate(zip(names, keys)):
        if k != n and not re.fullmatch(re.escape(n) + r"_[0-9]+", k):
            return "field %d (%r) exposed as %r: neither the name nor the name numbered" % (i, n, k)
        if all(keys[j] != n for j in range(i)) and k != n:
            return "field %d exposed as %r although no earlier field holds the key %r" % (i, k, n)
    return None


def models(tier):
    mf = 3 if tier == "quick" else 4
    return {"INIT": "Init", "NEXT": "Next", "INVARIANTS": ["KeysRefine", "Emit"],
            "CONSTANTS": {"Alphabet": '{"a","b","a_2","a_3"}', "MaxFields": mf, "Numbering": '"first-free"'}}


def run_one(chk, sc, cfgseed, what):
    from amr_kitchen import PlotfileCooker
    rng = random.Random(cfgseed)
    ndims = 2 if cfgseed % 3 == 0 else 3
    names = concrete_names(sc["names"], cfgseed)
    classes = [[rng.choice([1, 2]) for _ in range(rng.randint(1, 3))] for _ in range(rng.randint(1, 2))]
    layouts = []
    for cl in classes:
        file = [rng.randint(1, 2) for _ in cl]
        used = sorted(set(file))
        file = [used.index(f) + 1 for f in file]
        disk = {}
        for b, f in enumerate(file, 1):
            disk.setdefault(str(f), []).append(b)
        for f in disk:
            rng.shuffle(disk[f])
        layouts.append({"file": file, "disk": disk})
    ap = gamma.make_ap("A", names, classes, layouts, ndims=ndims)
    cfg = gamma.Config.draw(rng, ndims=ndims, payload=rng.choice(["tame", "wild"]))
    d = os.path.join(chk.tmp_reuse(), "p")
    os.makedirs(os.path.dirname(d))
    reg = gamma.write_plotfile(d, ap, cfg)
    before = alpha.tree_digest(d)
    if what == "taste":
        from amr_kitchen.taste import Taster
        for opts in ({}, {"boxes_coordinates": True}, {"binary_headers": False}, {"binary_shape": False},
                     {"limit_level": 0}):
            for nofail in (False, True):
                try:
                    with shims.pool_shim(shims.Scheduler(default="random", rng=rng)), core.quiet():
                        good = bool(Taster(d, nofail=nofail, verbose=0, **opts))
                except Exception as e:
                    return "well-formed plotfile with fields %r rejected (%s, nofail=%s): %s: %s" % (
                        names, opts or "default options", nofail, type(e).__name__, str(e)[:150])
                if not good:
                    return "well-formed plotfile with fields %r reported bad (%s, nofail=%s)" % (names, opts or "default options", nofail)
        return None if alpha.tree_digest(d) == before else "the validator modified the plotfile"
    try:
        with core.quiet():
            pck = PlotfileCooker(d, maxmins=bool(cfgseed % 2))
    except Exception as e:
        return "opening a well-formed plotfile with fields %r raised %s: %s" % (names, type(e).__name__, str(e)[:150])
    keys = list(pck.fields.keys())
    v = keys_ok(names, keys)
    if v:
        return v
    for i, k in enumerate(keys):
        if pck.fields[k] != i:
            return "key %r stands for component %r, it is field %d of the header" % (k, pck.fields[k], i)
    sels = [(k, [i]) for i, k in enumerate(keys)]
    if len(keys) >= 2:
        sels.append(([keys[0], keys[-1]], [0, len(keys) - 1]))
        sels.append((list(keys), list(range(len(keys)))))
    for sel, comps in sels:
        for lv, L in enumerate(ap["levels"]):
            for b, box in enumerate(L["boxes"]):
                try:
                    with shims.pool_shim(shims.Scheduler(default="random", rng=rng)), core.quiet():
                        arr = pck[sel][lv][b]
                except Exception as e:
                    return "pck[%r][%d][%d] on fields %r raised %s: %s" % (sel, lv, b, names, type(e).__name__, str(e)[:150])
                shape = tuple(gamma.box_shape(box))
                want = [reg.array_of(("A", lv, b + 1, c + 1)).reshape(shape, order="F") for c in comps]
                want = want[0] if not isinstance(sel, list) else np.stack(want, axis=-1)
                ok = isinstance(arr, np.ndarray) and arr.dtype == np.float64 and arr.shape == want.shape and \
                    np.array_equal(np.ascontiguousarray(arr).view(np.uint64), np.ascontiguousarray(want).view(np.uint64))
                if not ok:
                    tok = reg.token_of(np.asfortranarray(arr).ravel(order="F")) if isinstance(arr, np.ndarray) and arr.ndim == len(shape) else None
                    return "pck[%r][%d][%d] on fields %r does not return component(s) %r of that box (returned: %s)" % (
                        sel, lv, b, names, comps, "the array of %r" % (tok,) if tok else "shape %r" % (getattr(arr, "shape", None),))
    return None if alpha.tree_digest(d) == before else "the reader modified the plotfile"


def phase(chk, what):
    r = chk.add_tlc(tlc.run("MC_Keys", models(chk.tier), timeout=600), "field keys (MC_Keys)")
    if r.violated:
        chk.note_drift("TLC: %s violated in MC_Keys" % r.violated)
    if not r.emitted:
        raise core.MachineryError("MC_Keys emitted no scenarios")
    cap = 150 if chk.tier == "quick" else 1000
    chosen = util.select(r.emitted, cap, chk.rng)
    for sc in chosen:
        cfgseed = chk.rng.randrange(1 << 30)
        v = run_one(chk, sc, cfgseed, what)
        sigs = util.sig_str(["keys"] + sc["sig"], what)
        chk.executed(sigs, sc["sig"][1] == "repeats", sample={"names": sc["names"], "what": what})
        chk.traces += 1
        if v:
            chk.violation(sigs, v, {"keys": True, "what": what, "sc": sc, "cfgseed": cfgseed, "sigs": sigs})


def replay(chk, s):
    v = run_one(chk, s["sc"], s["cfgseed"], s["what"])
    chk.executed("replay")
    if v:
        chk.violation(s["sigs"], v, s)
