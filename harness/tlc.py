"""
TLC runner: runs a model instance from /verif/spec/mc, collects TLC's own summary numbers,
the JSON scenario lines emitted with PrintT(ToJson(..)), invariant violations and coverage.
"""
import json
import os
import re
import shutil
import subprocess
import tempfile
import time

VERIF = os.path.dirname(os.path.dirname(os.path.abspath(__file__)))
SPEC = os.path.join(VERIF, "spec")


class TLCResult(object):
    def __init__(self):
        self.ok = False
        self.states = 0
        self.distinct = 0
        self.depth = 0
        self.violated = None       # name of violated invariant / property
        self.error = None          # machinery error text
        self.emitted = []          # decoded JSON values
        self.coverage = {}         # action -> (taken, distinct)
        self.wall = 0.0
        self.stdout = ""
        self.cmd = ""
        self.cex = []              # counterexample state texts

    def summary(self):
        return {"states": self.states, "distinct": self.distinct, "depth": self.depth,
                "violated": self.violated, "wall_s": round(self.wall, 2), "cmd": self.cmd}


def _write_cfg(path, cfg):
    """cfg: dict with keys SPECIFICATION|INIT/NEXT, CONSTANTS{}, INVARIANTS[], PROPERTIES[], ..."""
    out = []
    if "SPECIFICATION" in cfg:
        out.append("SPECIFICATION %s" % cfg["SPECIFICATION"])
    else:
        out.append("INIT %s" % cfg.get("INIT", "Init"))
        out.append("NEXT %s" % cfg.get("NEXT", "Next"))
    consts = cfg.get("CONSTANTS", {})
    if consts:
        out.append("CONSTANTS")
        for k, v in consts.items():
            out.append("  %s = %s" % (k, v))
    subst = cfg.get("SUBST", {})
    if subst:
        out.append("CONSTANTS")
        for k, v in subst.items():
            out.append("  %s <- %s" % (k, v))
    for inv in cfg.get("INVARIANTS", []):
        out.append("INVARIANT %s" % inv)
    for p in cfg.get("PROPERTIES", []):
        out.append("PROPERTY %s" % p)
    for c in cfg.get("CONSTRAINTS", []):
        out.append("CONSTRAINT %s" % c)
    for c in cfg.get("ACTION_CONSTRAINTS", []):
        out.append("ACTION_CONSTRAINT %s" % c)
    if "VIEW" in cfg:
        out.append("VIEW %s" % cfg["VIEW"])
    if "POSTCONDITION" in cfg:
        out.append("POSTCONDITION %s" % cfg["POSTCONDITION"])
    out.append("CHECK_DEADLOCK %s" % ("TRUE" if cfg.get("DEADLOCK") else "FALSE"))
    with open(path, "w") as f:
        f.write("\n".join(out) + "\n")


def tla_value(v):
    """python value -> TLA+ constant expression text (for cfg files)."""
    if isinstance(v, bool):
        return "TRUE" if v else "FALSE"
    if isinstance(v, int):
        return str(v)
    if isinstance(v, str):
        return '"%s"' % v
    if isinstance(v, (list, tuple)):
        return "<<" + ", ".join(tla_value(x) for x in v) + ">>"
    if isinstance(v, (set, frozenset)):
        return "{" + ", ".join(tla_value(x) for x in sorted(v, key=repr)) + "}"
    if isinstance(v, dict):
        return "[" + ", ".join("%s |-> %s" % (k, tla_value(x)) for k, x in v.items()) + "]"
    raise TypeError(v)


def run(module, cfg, workers=16, timeout=600, simulate=None, depth=None, seed=None,
        coverage=False, env=None, extra_modules=(), keep=None, dfs=False):
    """
    module: name of a module under spec/mc or spec/trace (without .tla), or absolute path.
    cfg: dict (see _write_cfg) or path to an existing .cfg.
    simulate: None or number of behaviours for -simulate.
    Returns TLCResult.
    """
    res = TLCResult()
    work = tempfile.mkdtemp(prefix="tlc_")
    try:
        # copy all spec modules flat into the work dir (TLC resolves EXTENDS in the same dir)
        for root, dirs, files in os.walk(SPEC):
            for fn in files:
                if fn.endswith(".tla"):
                    shutil.copy(os.path.join(root, fn), os.path.join(work, fn))
        for p in extra_modules:
            shutil.copy(p, os.path.join(work, os.path.basename(p)))
        if os.path.isabs(module):
            shutil.copy(module, work)
            module = os.path.splitext(os.path.basename(module))[0]
        if isinstance(cfg, dict) and cfg.get("DEFS"):
            # constants that a cfg file cannot express (tuples, records): wrapper module
            cfg = dict(cfg)
            defs = cfg.pop("DEFS")
            wrap = module + "_run"
            with open(os.path.join(work, wrap + ".tla"), "w") as f:
                f.write("---- MODULE %s ----\nEXTENDS %s\n" % (wrap, module))
                for k, v in defs.items():
                    f.write("def_%s == %s\n" % (k, v))
                f.write("====\n")
            sub = dict(cfg.get("SUBST", {}))
            for k in defs:
                sub[k] = "def_%s" % k
            cfg["SUBST"] = sub
            module = wrap
        cfgpath = os.path.join(work, module + ".cfg")
        if isinstance(cfg, dict):
            _write_cfg(cfgpath, cfg)
        else:
            shutil.copy(cfg, cfgpath)
        cmd = ["tlc", "-workers", str(workers), "-metadir", os.path.join(work, "meta"),
               "-noGenerateSpecTE", "-config", cfgpath]
        if coverage:
            cmd += ["-coverage", "1"]
        if simulate is not None:
            cmd += ["-simulate", "num=%d" % simulate]
            if depth:
                cmd += ["-depth", str(depth)]
        if seed is not None:
            cmd += ["-seed", str(seed)]
        cmd.append(os.path.join(work, module + ".tla"))
        res.cmd = " ".join(cmd[:1] + [c for c in cmd[1:] if not c.startswith(work)] + [module])
        e = dict(os.environ)
        if env:
            e.update(env)
        if dfs:
            e["JAVA_TOOL_OPTIONS"] = (e.get("JAVA_TOOL_OPTIONS", "") +
                                      " -Dtlc2.tool.queue.IStateQueue=StateDeque").strip()
        t0 = time.time()
        try:
            p = subprocess.run(["timeout", str(int(timeout))] + cmd, cwd=work, env=e,
                               stdout=subprocess.PIPE, stderr=subprocess.STDOUT, text=True)
        except Exception as ex:
            res.error = "cannot run tlc: %r" % ex
            return res
        res.wall = time.time() - t0
        out = p.stdout
        res.stdout = out
        if keep:
            with open(keep, "w") as f:
                f.write(out)
        if p.returncode == 124:
            res.error = "tlc timeout after %ds" % timeout
        _parse(out, res)
        if res.error is None and res.violated is None and p.returncode not in (0,):
            # TLC exit codes: 0 ok, 12 invariant violated, 13 property, 10 assumption...
            if "Error:" in out:
                m = re.search(r"Error: (.*)", out)
                res.error = "tlc exit %d: %s" % (p.returncode, m.group(1) if m else "?")
            else:
                res.error = "tlc exit %d" % p.returncode
        res.ok = res.error is None and res.violated is None
        return res
    finally:
        shutil.rmtree(work, ignore_errors=True)


def _parse(out, res):
    for line in out.split("\n"):
        if line.startswith('"{') or line.startswith('"['):
            try:
                res.emitted.append(json.loads(json.loads(line)))
            except Exception:
                pass
    m = re.search(r"(\d+) states generated, (\d+) distinct states found", out)
    if m:
        res.states, res.distinct = int(m.group(1)), int(m.group(2))
    m = re.search(r"depth of the complete state graph search is (\d+)", out)
    if m:
        res.depth = int(m.group(1))
    m = re.search(r"Invariant (\S+) is violated", out) or re.search(r"The invariant of (\S+) is equal to FALSE", out)
    if m:
        res.violated = m.group(1)
    m = re.search(r"Action property (\S+) is violated", out) or \
        re.search(r"Temporal properties were violated", out)
    if m and res.violated is None:
        res.violated = m.group(1) if m.groups() else "temporal"
    if "Deadlock reached" in out and res.violated is None:
        res.violated = "Deadlock"
    m = re.search(r"The postcondition\s+(.*?)\s+is (violated|false)", out, re.S)
    if "ostcondition" in out and ("violated" in out or "false" in out.lower()) and res.violated is None:
        if re.search(r"[Pp]ostcondition.*(violated|was false|evaluated to FALSE)", out):
            res.violated = "Postcondition"
    # counterexample states
    res.cex = re.findall(r"State \d+: <[^\n]*>\n((?:/\\ [^\n]*\n(?:  [^\n]*\n)*)+)", out)
    # coverage lines:  <Action line ...>: taken:distinct
    for m in re.finditer(r"^<(\w+) line \d+, col \d+ to line \d+, col \d+ of module (\w+)>: (\d+):(\d+)",
                         out, re.M):
        res.coverage[m.group(1)] = (int(m.group(4)), int(m.group(3)))
    if "Parsing or semantic analysis failed" in out or "Semantic errors" in out or \
       "*** Errors:" in out or "Parse Error" in out:
        res.error = "spec does not parse:\n" + out[-2000:]
    elif re.search(r"Error: (?!Invariant|Action property|Temporal|Deadlock)", out) and res.violated is None \
            and "is violated" not in out:
        m = re.search(r"Error: ([^\n]*(?:\n[^\n]*){0,6})", out)
        res.error = "tlc error: " + (m.group(1) if m else "?")


def liveness_cfg(cfg, prop="Terminates", spec="Spec"):
    """Turn a safety configuration into `SPECIFICATION Spec` + one temporal property (no emission)."""
    c = {k: v for k, v in cfg.items() if k in ("CONSTANTS", "DEFS", "SUBST")}
    c["SPECIFICATION"] = spec
    c["PROPERTIES"] = [prop]
    c["INVARIANTS"] = []
    return c
