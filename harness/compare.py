"""
Comparison of spec-level expectations (token vocabulary of Plotfile.tla) with alpha's
abstraction of what the real code produced.  Pure comparison, no property logic: the
*expected* value always comes from a requirement-layer operator evaluated by TLC.
"""
import math
import struct


def same_float(a, b):
    """bit-level equality of two python floats (NaN == NaN, -0.0 != 0.0)."""
    return struct.pack("<d", a) == struct.pack("<d", b)


def close_ext(got, want, tol):
    """|got - want| <= tol on the extended reals: an infinite expectation must be met exactly, an indeterminate one (nan: a
    zero weight on an infinite sample, inf - inf) accepts anything."""
    if want != want:
        return True
    if want in (float("inf"), float("-inf")):
        return got == want
    return abs(got - want) <= tol


def ap_from_scenario(src, fields, levels, ndims=3, time=0.5, classes_from_cells=True, cross=(3, 2)):
    """Scenario levels [{"cells":[..],"file":[..],"disk":[[..],..]}] -> abstract plotfile for gamma."""
    from . import gamma
    level_classes = [[c - 1 for c in L["cells"]] for L in levels]
    layouts = []
    for L in levels:
        disk = L["disk"]
        if isinstance(disk, dict):
            d = {str(k): list(v) for k, v in disk.items()}
        else:
            d = {str(i + 1): list(v) for i, v in enumerate(disk)}
        layouts.append({"file": list(L["file"]), "disk": d})
    return gamma.make_ap(src, fields, level_classes, layouts, ndims=ndims, time=time, cross=cross)


def compare_content(expect, obs, aps, in_contents, check_mm=True):
    """
    expect : TLA Content-like value {"fields":[..], "lev":[[{"idx":b,"comps":[tok..],"mm":[mmtok..]}..]..]}
    obs    : alpha.content(...) of the produced directory
    aps    : {src: abstract plotfile} (to translate box numbers to index ranges)
    in_contents : {src: alpha.content of that input}  (to translate mm tokens to numbers)
    Returns None if equal, else a description of the first difference.
    """
    if list(obs["fields"]) != list(expect["fields"]):
        return "fields: got %r expected %r" % (obs["fields"], expect["fields"])
    if len(obs["lev"]) != len(expect["lev"]):
        return "levels: got %d expected %d" % (len(obs["lev"]), len(expect["lev"]))
    any_ap = next(iter(aps.values()))
    for l, (eboxes, oboxes) in enumerate(zip(expect["lev"], obs["lev"])):
        if len(eboxes) != len(oboxes):
            return "level %d: got %d boxes expected %d" % (l, len(oboxes), len(eboxes))
        for k, (eb, ob) in enumerate(zip(eboxes, oboxes)):
            box = any_ap["levels"][l]["boxes"][eb["idx"] - 1]
            if ob["idx"] != [box["lo"], box["hi"]]:
                return "level %d box %d: index range %r expected %r" % (l, k + 1, ob["idx"], [box["lo"], box["hi"]])
            if ob["comps"] is None:
                return "level %d box %d: no FAB at the recorded file/offset" % (l, k + 1)
            ecomps = [list(t) for t in eb["comps"]]
            if [list(t) for t in ob["comps"]] != ecomps:
                return "level %d box %d: components %r expected %r" % (l, k + 1, ob["comps"], ecomps)
            if check_mm:
                for which, key in (("min", "mins"), ("max", "maxs")):
                    got = ob[key]
                    if got is None or len(got) != len(eb["mm"]):
                        return "level %d box %d: %s row has %s entries, expected %d" % (
                            l, k + 1, which, None if got is None else len(got), len(eb["mm"]))
                    for j, mt in enumerate(eb["mm"]):
                        _, src, ml, mb, mf = mt
                        want = in_contents[src]["lev"][ml][mb - 1][key][mf - 1]
                        if not same_float(got[j], want):
                            return "level %d box %d: %s[%d] = %r expected %r (row of %s L%d box %d field %d)" % (
                                l, k + 1, which, j, got[j], want, src, ml, mb, mf)
    return None


def compare_meta(obs, ref, nlev, fields_too=False):
    """time / geometry / cell sizes / domains / box bounds of levels 0..nlev-1 equal the reference's."""
    for key in ("ndims", "time", "geo"):
        if obs[key] != ref[key] and not (key == "time" and same_float(obs[key], ref[key])):
            return "%s: got %r expected %r" % (key, obs[key], ref[key])
    if obs["dx"] != ref["dx"][:nlev]:
        return "dx: got %r expected %r" % (obs["dx"], ref["dx"][:nlev])
    if obs["domains"] != ref["domains"][:nlev]:
        return "domains: got %r expected %r" % (obs["domains"], ref["domains"][:nlev])
    for l in range(nlev):
        ob = [b["bounds"] for b in obs["lev"][l]]
        rb = [b["bounds"] for b in ref["lev"][l]]
        if ob != rb:
            return "level %d box bounds: got %r expected %r" % (l, ob, rb)
    return None
