"""
Replay of spec/PoolEnv.tla: behaviours (change of working directory / multi-box selection / single-box selection) emitted by
TLC are run against the real reader under the scheduled pool, which gives its tasks the working directory of the moment the
pool was created, as forked workers have.  Every directory holds a plotfile under the SAME relative name with the same mesh and
other data; each selection must return the data of the plotfile that the relative name denoted when the selection was made.
how = "select" (C01: slices, lists, masks through the indexing interface) | "iter" (C15: .iter() and level iteration).
"""
import os
import random

import numpy as np

from harness import core, gamma, shims, tlc, util

FIELDS = ["u", "v", "w"]
NAME = "plt00010"


def models(tier):
    return {"SPECIFICATION": "Spec", "INVARIANTS": ["DataOfTheNamedPlotfile", "Emit"],
            "CONSTANTS": {"Dirs": '{"a","b"}' if tier == "quick" else '{"a","b","c"}', "PoolPolicy": '"per-call"',
                          "MaxSteps": 4 if tier == "quick" else 5}}


def run_one(chk, sc, cfgseed, how):
    from amr_kitchen import PlotfileCooker
    rng = random.Random(cfgseed)
    base = chk.tmp()
    classes = [[1, 2, 1, 2][:rng.randint(3, 4)], [2, 1]]
    layouts = []
    for cl in classes:
        file = [1 + (b % 2) for b in range(len(cl))]
        disk = {}
        for b, f in enumerate(file, 1):
            disk.setdefault(str(f), []).append(b)
        for f in disk:
            rng.shuffle(disk[f])
        layouts.append({"file": file, "disk": disk})
    dirs, regs, aps = {}, {}, {}
    for i, dn in enumerate(sorted({sc["start"]} | {o["asked"] for o in sc["ops"]})):
        dirs[dn] = os.path.join(base, "run_" + dn)
        os.makedirs(dirs[dn])
        aps[dn] = gamma.make_ap("A", FIELDS, classes, layouts, ndims=3)
        cfg = gamma.Config.draw(random.Random(cfgseed), ndims=3, payload="tame")
        cfg.seed = cfgseed + 1000 * (i + 1)           # same geometry and layout, other values
        regs[dn] = gamma.write_plotfile(os.path.join(dirs[dn], NAME), aps[dn], cfg)
    old = os.getcwd()
    v = None
    try:
        os.chdir(dirs[sc["start"]])
        from harness import alpha as _alpha
        names_ = list(dirs)
        untouched = {dn: _alpha.tree_digest(os.path.join(dirs[dn], NAME)) for dn in names_}
        with shims.pool_shim(shims.Scheduler(default="random", rng=rng)), core.quiet():
            for n, op in enumerate(sc["ops"]):
                if n and v is None:
                    # nothing an earlier step did may have touched the plotfile of ANY directory (inputs are never written)
                    for dn_ in names_:
                        if _alpha.tree_digest(os.path.join(dirs[dn_], NAME)) != untouched[dn_]:
                            v = "after step %d of a history over several working directories the plotfile run_%s/%s is no longer what it was" % (n, dn_, NAME)
                    if v:
                        break
                if op["op"] == "cd":
                    os.chdir(dirs[op["asked"]])
                    continue
                dn = op["asked"]
                lv = n % 2
                nb = len(classes[lv])
                fsel, comps = [("v", [1]), (["u", "w"], [0, 2]), (slice(1, 3), [1, 2]), (2, [2])][(cfgseed + n) % 4]
                try:
                    pck = PlotfileCooker(NAME)
                    if op["op"] == "select-one":
                        boxes = [nb - 1]
                        got = [pck[fsel][lv][nb - 1]]
                        what = "pck[%r][%d][%d]" % (fsel, lv, nb - 1)
                    elif how == "iter":
                        if (cfgseed + n) % 2:
                            boxes = list(range(nb))
                            got = list(pck[fsel][lv])
                            what = "iteration over pck[%r][%d]" % (fsel, lv)
                        else:
                            boxes = list(range(nb))[::-1]
                            got = list(pck[fsel][lv].iter(slice(None, None, -1)))
                            what = "pck[%r][%d].iter(slice(None, None, -1))" % (fsel, lv)
                    else:
                        kind = (cfgseed // 4 + n) % 3
                        if kind == 0:
                            bsel, boxes = slice(None), list(range(nb))
                        elif kind == 1:
                            boxes = [nb - 1, 0]
                            bsel = list(boxes)
                        else:
                            mask = [b % 2 == 0 for b in range(nb)]
                            bsel, boxes = np.array(mask), [b for b in range(nb) if mask[b]]
                        got = pck[fsel][lv][bsel]
                        what = "pck[%r][%d][%r]" % (fsel, lv, bsel)
                except Exception as e:
                    v = "step %d (%s in directory run_%s) raised %s: %s" % (n + 1, op["op"], dn, type(e).__name__, str(e)[:150])
                    break
                if not isinstance(got, (list, tuple)) or len(got) != len(boxes):
                    v = "step %d: %s returned %r for %d boxes" % (n + 1, what, type(got).__name__ if not isinstance(got, (list, tuple)) else len(got), len(boxes))
                    break
                if what.startswith("iteration over"):
                    # level iteration yields the boxes file by file: matched as a multiset (every box has its own values)
                    def key(a):
                        return (a.shape, np.ascontiguousarray(a).tobytes()) if isinstance(a, np.ndarray) else None
                    pool_ = {}
                    for b in boxes:
                        shp = tuple(gamma.box_shape(aps[dn]["levels"][lv]["boxes"][b]))
                        w = [regs[dn].array_of(("A", lv, b + 1, c + 1)).reshape(shp, order="F") for c in comps]
                        w = w[0] if not isinstance(fsel, (list, slice)) else np.stack(w, axis=-1)
                        pool_[key(w)] = b
                    order = [pool_.get(key(a)) for a in got]
                    if None in order or sorted(order) != sorted(boxes):
                        v = "step %d: %s made in directory run_%s (after %r) does not yield exactly the boxes of ./%s there" % (
                            n + 1, what, dn, [o["op"] + ":" + o["asked"] for o in sc["ops"][:n]], NAME)
                        break
                    boxes = order
                for arr, b in zip(got, boxes):
                    shape = tuple(gamma.box_shape(aps[dn]["levels"][lv]["boxes"][b]))

                    def want_of(d2):
                        w = [regs[d2].array_of(("A", lv, b + 1, c + 1)).reshape(shape, order="F") for c in comps]
                        return w[0] if not isinstance(fsel, (list, slice)) else np.stack(w, axis=-1)
                    want = want_of(dn)
                    ok = isinstance(arr, np.ndarray) and arr.shape == want.shape and \
                        np.array_equal(np.ascontiguousarray(arr).view(np.uint64), np.ascontiguousarray(want).view(np.uint64))
                    if not ok:
                        other = [d2 for d2 in dirs if d2 != dn and isinstance(arr, np.ndarray) and arr.shape == want.shape
                                 and np.array_equal(np.ascontiguousarray(arr), np.ascontiguousarray(want_of(d2)))]
                        v = "step %d: %s made in directory run_%s (after %r) does not return the data of ./%s there%s" % (
                            n + 1, what, dn, [o["op"] + ":" + o["asked"] for o in sc["ops"][:n]], NAME,
                            " -- it returns the data of run_%s/%s" % (other[0], NAME) if other else "")
                        break
                if v:
                    break
    finally:
        os.chdir(old)
    return v


def phase(chk, how):
    r = chk.add_tlc(tlc.run("PoolEnv", models(chk.tier), timeout=600), "worker environment (PoolEnv)")
    if r.violated:
        chk.note_drift("TLC: %s violated in PoolEnv" % r.violated)
    if not r.emitted:
        raise core.MachineryError("PoolEnv emitted no behaviours")
    chosen = util.select(r.emitted, 40 if chk.tier == "quick" else 400, chk.rng)
    for sc in chosen:
        cfgseed = chk.rng.randrange(1 << 30)
        v = run_one(chk, sc, cfgseed, how)
        sigs = util.sig_str(["poolenv"] + sc["sig"], how)
        chk.executed(sigs, sc["sig"][0] > 0, sample={"ops": [o["op"] + ":" + o["asked"] for o in sc["ops"]], "how": how})
        chk.traces += 1
        if v:
            chk.violation(sigs, v, {"poolenv": True, "how": how, "sc": sc, "cfgseed": cfgseed, "sigs": sigs})


def replay(chk, s):
    if s.get("tool"):
        v = run_tool_history(chk, s["sc"], s["cfgseed"], s["tool"])
    else:
        v = run_one(chk, s["sc"], s["cfgseed"], s["how"])
    chk.executed("replay")
    if v:
        chk.violation(s["sigs"], v, s)


# ----------------------------------------------------------------------------- whole tools (differential)

def _digest(a):
    import hashlib
    try:
        a = np.ascontiguousarray(np.asarray(a, dtype=np.float64))
    except (TypeError, ValueError):
        return repr(a)
    return "%s:%s" % (a.shape, hashlib.sha1(a.tobytes()).hexdigest()[:16])


def _run_tool(tool, path, out, pooled=True):
    """One run of `tool` on the plotfile typed as `path`; returns something comparable."""
    from harness import alpha
    if tool == "mandoline-return":
        from amr_kitchen.mandoline import Mandoline
        r = Mandoline(path, fields=["u", "w"], serial=not pooled, verbose=0).slice(normal=0, fformat="return")
        return {k: _digest(v) for k, v in r.items()}
    if tool == "mandoline2d":
        from amr_kitchen.mandoline import Mandoline
        r = Mandoline(path, fields=["u", "w", "grid_level"], serial=not pooled, verbose=0).slice(fformat="return")
        return {k: _digest(v) for k, v in r.items()}
    if tool == "mandoline-plotfile":
        from amr_kitchen.mandoline import Mandoline
        Mandoline(path, fields=["all"], serial=not pooled, verbose=0).slice(normal=0, outfile=out, fformat="plotfile")
        return alpha.tree_digest(out)
    if tool == "taste":
        from amr_kitchen.taste import Taster
        return bool(Taster(path, nofail=True, verbose=0))
    if tool == "taste-read":
        # C20: whatever the validator accepts, the reader reads
        from amr_kitchen import PlotfileCooker
        from amr_kitchen.taste import Taster
        good = bool(Taster(path, nofail=True, verbose=0))
        readable = True
        try:
            pck = PlotfileCooker(path)
            for lv in range(len(pck.cells)):
                for b in range(len(pck.cells[lv]["indexes"])):
                    idx = pck.cells[lv]["indexes"][b]
                    a = pck[:][lv][b]
                    if tuple(a.shape[:-1]) != tuple(int(h) - int(l) + 1 for l, h in zip(idx[0], idx[1])):
                        readable = False
        except Exception:
            readable = False
        if good and not readable:
            raise AssertionError("accepted by taste but not readable")
        return [good, readable]
    if tool == "colander":
        from amr_kitchen.colander import Colander
        Colander(plotfile=path, output=out, variables=["v"]).strain()
        return alpha.tree_digest(out)
    if tool == "whip":
        import sys
        from amr_kitchen.whip import cli
        old = sys.argv
        sys.argv = ["whip", "-v", "w", "-o", out, "-y", path]
        try:
            cli.main()
        finally:
            sys.argv = old
        return _digest(np.load(out + ".npy"))
    if tool == "chef":
        from amr_kitchen.chef import Chef
        rec = os.path.join(core.VERIF, "harness", "recipes", "r_u1.py")
        Chef(path, recipe=rec, outfile=out, serial=not pooled, kept_fields="v").cook()
        return alpha.tree_digest(out)
    if tool == "combine":
        # the plotfile combined with ITSELF under two field selections (both typed the same way)
        from amr_kitchen import PlotfileCooker
        from amr_kitchen.combine import combine
        combine(PlotfileCooker(path), PlotfileCooker(path), vars1=["u"], vars2=["w"], pltout=out)
        # ... and with its sibling "<name>_b": the same boxes in the same binary files, stored in another order inside them
        # (combine then matches the boxes by their offsets and hands the file names to its workers as typed)
        if os.path.isdir(path.rstrip(os.sep) + "_b"):
            combine(PlotfileCooker(path), PlotfileCooker(path.rstrip(os.sep) + "_b"), vars1=["v"], vars2=["w"], pltout=out + "_b")
            return [alpha.tree_digest(out), alpha.tree_digest(out + "_b")]
        return alpha.tree_digest(out)
    if tool == "chk2plt":
        from amr_kitchen.chk2plt import chk2plt
        chk2plt(path, species=["H2", "O2"], gradp=True, species_reactions=True, pltdir=out)
        return alpha.tree_digest(out)
    if tool == "pestle":
        from amr_kitchen import PlotfileCooker
        from amr_kitchen.pestle import volume_integral
        return repr(float(volume_integral(PlotfileCooker(path, ghost=True), "u")))
    raise core.MachineryError(tool)


def run_tool_history(chk, sc, cfgseed, tool):
    rng = random.Random(cfgseed)
    base = chk.tmp()
    classes = [[1, 2, 1], [2]]
    names = sorted({sc["start"]} | {o["asked"] for o in sc["ops"]})
    dirs, refs = {}, {}
    for i, dn in enumerate(names):
        dirs[dn] = os.path.join(base, "run_" + dn)
        os.makedirs(dirs[dn])
        nd = 2 if tool == "mandoline2d" else 3
        ap = gamma.make_ap("A", FIELDS, classes, None, ndims=nd, cross=(3, 3))
        cfg = gamma.Config.draw(random.Random(cfgseed), ndims=nd, payload="tame", dyadic=True)
        cfg.seed = cfgseed + 1000 * (i + 1)
        if tool == "chk2plt":
            # the same relative name holds a CHECKPOINT on one mesh with other data in every directory
            from harness import gamma_chk
            mesh = gamma_chk.nested_mesh([[1, 2], [1]])
            lays = [{"state": {"file": [1, 2], "disk": {"1": [1], "2": [2]}}, "gradp": {"file": [1, 1], "disk": {"1": [2, 1]}},
                     "ir": {"file": [1, 1], "disk": {"1": [1, 2]}}},
                    {"state": {"file": [1], "disk": {"1": [1]}}, "gradp": {"file": [1], "disk": {"1": [1]}},
                     "ir": {"file": [1], "disk": {"1": [1]}}}]
            gamma_chk.write_checkpoint(os.path.join(dirs[dn], NAME), mesh, lays, cfg, ns=2, nghost=1)
            continue
        gamma.write_plotfile(os.path.join(dirs[dn], NAME), ap, cfg)
        if tool == "combine":
            import copy
            ap_b = copy.deepcopy(ap)
            ap_b["src"] = "B"
            for L in ap_b["levels"]:
                L["disk"] = {f: list(reversed(v)) for f, v in L["disk"].items()}
            cfg_b = copy.copy(cfg)
            cfg_b.seed = cfg.seed + 7
            gamma.write_plotfile(os.path.join(dirs[dn], NAME + "_b"), ap_b, cfg_b)
        if tool in ("taste", "taste-read") and i % 2 == 1:
            # every second directory holds a DAMAGED plotfile (a binary file 8 bytes short)
            l0 = os.path.join(dirs[dn], NAME, "Level_0")
            p = os.path.join(l0, sorted(f for f in os.listdir(l0) if f.startswith("Cell_D"))[0])
            with open(p, "r+b") as f:
                f.truncate(os.path.getsize(p) - 8)
    old = os.getcwd()
    v = None
    try:
        # references: the plotfile of every directory under its ABSOLUTE name (which no working directory can change)
        with shims.pool_shim(shims.Scheduler()), core.quiet():
            for dn in names:
                try:
                    refs[dn] = _run_tool(tool, os.path.join(dirs[dn], NAME), os.path.join(base, "ref_" + dn))
                except Exception as e:
                    # a plain run of the tool on a well-formed plotfile under its absolute name: it has to succeed
                    return "%s on the well-formed plotfile %s (absolute name, first run of the process) raised %s: %s" % (
                        tool, os.path.join("run_" + dn, NAME), type(e).__name__, str(e)[:150])
        if tool in ("taste", "taste-read"):
            # the reference verdicts are known: the undamaged directories (every even one) hold well-formed plotfiles
            for i, dn in enumerate(names):
                good = refs[dn] if tool == "taste" else refs[dn][0]
                if i % 2 == 0 and not good:
                    return "taste on the well-formed plotfile %s (absolute name, first run of the process) reports it bad" % os.path.join("run_" + dn, NAME)
        if tool not in ("taste", "taste-read") and len({core.jdump(r) for r in refs.values()}) < len(refs):
            # (a validator's result is a verdict: with three directories two of them share one -- the known verdicts above serve)
            raise core.MachineryError("the directories' plotfiles do not give distinct results for %s" % tool)
        os.chdir(dirs[sc["start"]])
        from harness import alpha as _alpha
        untouched = {dn: _alpha.tree_digest(os.path.join(dirs[dn], NAME)) for dn in names}
        with shims.pool_shim(shims.Scheduler(default="random", rng=rng)), core.quiet():
            for n, op in enumerate(sc["ops"]):
                if n and v is None:
                    # nothing an earlier step did may have touched the plotfile of ANY directory (inputs are never written)
                    for dn_ in names:
                        if _alpha.tree_digest(os.path.join(dirs[dn_], NAME)) != untouched[dn_]:
                            v = "after step %d (%s in a history over several working directories) the input run_%s/%s is no longer what it was" % (n, tool, dn_, NAME)
                    if v:
                        break
                if op["op"] == "cd":
                    os.chdir(dirs[op["asked"]])
                    continue
                dn = op["asked"]
                try:
                    got = _run_tool(tool, NAME, os.path.join(base, "out_%d" % n), pooled=op["op"] == "select")
                except Exception as e:
                    v = "step %d (%s on ./%s in directory run_%s) raised %s: %s" % (n + 1, tool, NAME, dn, type(e).__name__, str(e)[:150])
                    break
                if core.jdump(got) != core.jdump(refs[dn]):
                    other = [d2 for d2 in names if d2 != dn and core.jdump(got) == core.jdump(refs[d2])]
                    v = "step %d: %s on ./%s in directory run_%s (after %r) does not give the result of that plotfile under its absolute name%s" % (
                        n + 1, tool, NAME, dn, [o["op"] + ":" + o["asked"] for o in sc["ops"][:n]],
                        " -- it gives the result of run_%s/%s" % (other[0], NAME) if other else "")
                    break
    finally:
        os.chdir(old)
    return v


def tool_phase(chk, tool, cap=(16, 160)):
    r = chk.add_tlc(tlc.run("PoolEnv", models(chk.tier), timeout=600), "worker environment (PoolEnv), %s" % tool)
    if r.violated:
        chk.note_drift("TLC: %s violated in PoolEnv" % r.violated)
    if not r.emitted:
        raise core.MachineryError("PoolEnv emitted no behaviours")
    # behaviours with at least one pooled run after a change of directory
    em = [s for s in r.emitted if s["sig"][0] > 0 and s["sig"][1] > 0]
    chosen = util.select(em, cap[0] if chk.tier == "quick" else cap[1], chk.rng)
    for sc in chosen:
        cfgseed = chk.rng.randrange(1 << 30)
        v = run_tool_history(chk, sc, cfgseed, tool)
        sigs = util.sig_str(["poolenv", tool] + sc["sig"])
        chk.executed(sigs, True, sample={"ops": [o["op"] + ":" + o["asked"] for o in sc["ops"]], "tool": tool})
        chk.traces += 1
        if v:
            chk.violation(sigs, v, {"poolenv": True, "tool": tool, "how": "tool", "sc": sc, "cfgseed": cfgseed, "sigs": sigs})
