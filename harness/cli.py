"""
Replay of spec/Cli.tla: for one tool, every subset of its command-line options (enumerated by TLC) is typed to the real
main() with the tool's API replaced by a recorder; the keywords that reach the API must be the ones Cli!Meant says the
options stand for.  No property logic here: argv construction, interception, comparison.
"""
import importlib
import sys

from . import core, tlc

# (tool, flag) -> (tokens typed after the flag, value the API must receive for "V:<flag>")
VALUES = {
    ("colander", "-v"): (["a", "b"], ["a", "b"]), ("colander", "-l"): (["1"], 1), ("colander", "-o"): (["res/o"], "res/o"),
    ("taste", "-l"): (["1"], 1), ("taste", "-v"): (["2"], 2),
    ("combine", "-v1"): (["a b"], "a b"), ("combine", "-v2"): (["c,d"], "c,d"), ("combine", "-o"): (["res/c"], "res/c"),
    ("chef", "-o"): (["res/k"], "res/k"), ("chef", "-r"): (["HRR"], "HRR"), ("chef", "-s"): (["H2", "O2"], ["H2", "O2"]),
    ("chef", "-R"): (["1", "3"], [1, 3]), ("chef", "-m"): (["mech.yaml"], "mech.yaml"), ("chef", "-p"): (["2.5"], 2.5),
    ("chef", "-k"): (["a b"], "a b"),
    ("mandoline", "-n"): (["2"], 2), ("mandoline", "-p"): (["0.25"], 0.25), ("mandoline", "-v"): (["a", "b"], ["a", "b"]),
    ("mandoline", "-L"): (["1"], 1), ("mandoline", "-f"): (["array"], "array"), ("mandoline", "-o"): (["res/s"], "res/s"),
    ("mandoline", "-c"): (["jet"], "jet"), ("mandoline", "-m"): (["0.5"], 0.5), ("mandoline", "-M"): (["9.5"], 9.5),
    ("mandoline", "-V"): (["0"], 0),
    ("pestle", "-v"): (["temp"], "temp"), ("pestle", "-l"): (["1"], 1),
    ("menu", "-hv"): (["a, b"], ["a", "b"]),
    ("chk2plt", "-p"): (["ref_plt"], "ref_plt"), ("chk2plt", "-s"): (["H2", "O2"], ["H2", "O2"]), ("chk2plt", "-o"): (["res/p"], "res/p"),
}
# the same options typed with the value ZERO (a legal level limit, normal, position ...): what a truthiness test would drop
ZEROS = {k: ((["0"], 0) if isinstance(v[1], int) and not isinstance(v[1], bool) else (["0.0"], 0.0))
         for k, v in VALUES.items() if isinstance(v[1], (int, float)) and not isinstance(v[1], bool)}
# how the input is named on each command line, and the names of the API's positional parameters in order
INPUT = {"colander": ["in_plt"], "taste": ["in_plt"], "combine": ["-p1", "in_plt", "-p2", "in_plt2"], "chef": ["in_plt"],
         "mandoline": ["in_plt"], "pestle": ["in_plt"], "menu": ["in_plt"], "chk2plt": ["-c", "in_chk"]}
MODULE = {"colander": "amr_kitchen.colander.cli", "taste": "amr_kitchen.taste.cli", "combine": "amr_kitchen.combine.cli",
          "chef": "amr_kitchen.chef.cli", "mandoline": "amr_kitchen.mandoline.cli", "pestle": "amr_kitchen.pestle.cli",
          "menu": "amr_kitchen.menu.cli", "chk2plt": "amr_kitchen.chk2plt.cli"}
POSITIONAL = {"colander": [], "taste": ["plt_file"], "combine": ["pck1", "pck2"], "chef": ["plotfile"], "mandoline": ["plotfile"],
              "pestle": [], "menu": [], "chk2plt": []}


class Recorder(object):
    """Stands in for the tool's API inside its cli module; remembers the keywords of every call made on it."""

    def __init__(self, log, name, positional, ret=None):
        self.log, self.name, self.positional, self.ret = log, name, positional, ret

    def __call__(self, *a, **kw):
        rec = dict(kw)
        for n, v in zip(self.positional, a):
            rec[n] = v
        self.log.append((self.name, rec))
        return self if self.ret is None else self.ret

    def __getattr__(self, attr):
        if attr.startswith("__"):
            raise AttributeError(attr)
        return Recorder(self.log, self.name + "." + attr, [])

    def __bool__(self):
        return True


def run_cli(tool, flags, values=None):
    """Returns ("call", merged keywords) | ("refused", text)."""
    values = values or VALUES
    mod = importlib.import_module(MODULE[tool])
    log = []
    names = {"colander": ["Colander"], "taste": ["Taster"], "combine": ["combine", "PlotfileCooker"], "chef": ["Chef"],
             "mandoline": ["Mandoline"], "pestle": ["volume_integral", "PlotfileCooker"], "menu": ["Menu"], "chk2plt": ["chk2plt"]}[tool]
    saved = {n: getattr(mod, n) for n in names}
    # the input first: an option taking several values (nargs='+') typed right before it would swallow it
    argv = [tool] + INPUT[tool]
    for f in sorted(flags):
        argv.append(f)
        argv += values.get((tool, f), ([], None))[0]
    old = sys.argv
    try:
        for n in names:
            setattr(mod, n, Recorder(log, n, POSITIONAL[tool] if n in ("Taster", "combine", "Chef", "Mandoline") else
                                     (["path"] if n == "PlotfileCooker" else []), ret=1.5 if n == "volume_integral" else None))
        sys.argv = argv
        try:
            with core.quiet():
                mod.main()
        except SystemExit as e:
            if e.code not in (None, 0):
                return ("refused", "exit status %r" % (e.code,)), argv
        except Exception as e:
            return ("refused", "%s: %s" % (type(e).__name__, str(e)[:120])), argv
    finally:
        sys.argv = old
        for n, v in saved.items():
            setattr(mod, n, v)
    kw = {}
    for name, rec in log:
        if name == "PlotfileCooker":
            continue
        for k, v in rec.items():
            kw[k] = v
    return ("call", kw), argv


def concrete(tool, sym, values=None):
    values = values or VALUES
    if sym == "None":
        return None
    if sym == "True":
        return True
    if sym == "False":
        return False
    if isinstance(sym, str) and sym.startswith("V:"):
        return values[(tool, sym[2:])][1]
    return sym


def phase(chk, tool):
    """TLC over MC_Cli for this tool, then every emitted option set on the real command line."""
    r = chk.add_tlc(tlc.run("MC_Cli", {"INIT": "MCInit", "NEXT": "Next", "CONSTANTS": {"SpeciesType": '"str"', "OnlyTool": '"%s"' % tool},
                                       "INVARIANTS": ["MCRefines", "Emit"]}, workers=4, timeout=900), "command line of %s: every option subset" % tool)
    if r.violated:
        chk.note_drift("TLC: %s violated in Cli.tla for %s (the argparse / wiring tables no longer refine the meaning of the options)" % (r.violated, tool))
    scs = [e for e in r.emitted if isinstance(e, dict) and e.get("prop") == "Cli"]
    if not scs:
        raise core.MachineryError("TLC emitted no command-line scenario for %s" % tool)
    # the inputs named on the command lines exist (a main() may look at its input before it calls the tool)
    import os
    import random
    from . import gamma
    work = chk.tmp()
    os.makedirs(work)
    rng = random.Random(5)
    cfg_ = gamma.Config.draw(rng, ndims=3, payload="tame")
    for name, fields in (("in_plt", ["a", "b", "temp"]), ("in_plt2", ["c", "d"])):
        gamma.write_plotfile(os.path.join(work, name), gamma.make_ap(name, fields, [[1, 2], [1]], None, ndims=3, time=cfg_.time), cfg_)
    old_cwd = os.getcwd()
    os.chdir(work)
    try:
        return _phase(chk, tool, scs)
    finally:
        os.chdir(old_cwd)


def _phase(chk, tool, scs):
    cap = 300 if chk.tier == "quick" else 5000
    if len(scs) > cap:
        scs.sort(key=core.jdump)
        chk.rng.shuffle(scs)
        # always the single options, the empty and the full set; a sample of the rest
        nflags = max(len(s["flags"]) for s in scs)
        keep = [s for s in scs if len(s["flags"]) in (0, 1, nflags)]
        scs = keep + [s for s in scs if s not in keep][:cap - len(keep)]
    nv = 0
    zero_tab = dict(VALUES)
    zero_tab.update(ZEROS)
    for sc in scs:
        flags = list(sc["flags"])
        variants = [("", VALUES)]
        if any((tool, f) in ZEROS for f in flags):
            variants.append(("/zero-values", zero_tab))
        for vname, values in variants:
            (kind, got), argv = run_cli(tool, flags, values)
            sig = "cli/%s/%d-options%s%s" % (tool, len(flags), "/refusal" if sc["refuses"] else "", vname)
            chk.executed(sig + "/" + ",".join(sorted(flags)), True)
            chk.traces += 1
            v = None
            if sc["refuses"]:
                if kind != "refused":
                    v = "the command line %r went on although it lacks an option it documents as required" % (argv,)
            elif kind == "refused":
                v = "the command line %r is refused (%s); the options given stand for a call of the tool" % (argv, got)
            else:
                for p, sym in sorted(sc["expect"].items()):
                    want = concrete(tool, sym, values)
                    have = got.get(p, "<not passed>")
                    if have == "<not passed>" and want is None:
                        continue
                    if have != want or type(have) is not type(want):
                        v = "with %r the tool receives %s=%r; the options given stand for %s=%r" % (argv, p, have, p, want)
                        break
            if v:
                nv += 1
                chk.violation(sig, v, {"cli": True, "tool": tool, "flags": flags, "zero": bool(vname)}, klass="cli/%s/%s%s" % (tool, ",".join(sorted(flags)), vname))
    chk.extra.setdefault("cli", []).append({"tool": tool, "option_sets": len(scs), "violations": nv})
    return nv


def replay(chk, scenario):
    tool, flags = scenario["tool"], scenario["flags"]
    r = tlc.run("MC_Cli", {"INIT": "MCInit", "NEXT": "Next", "CONSTANTS": {"SpeciesType": '"str"', "OnlyTool": '"%s"' % tool},
                           "INVARIANTS": ["MCRefines", "Emit"]}, workers=4, timeout=900)
    for sc in r.emitted:
        if isinstance(sc, dict) and sc.get("prop") == "Cli" and sorted(sc["flags"]) == sorted(flags):
            values = dict(VALUES)
            if scenario.get("zero"):
                values.update(ZEROS)
            (kind, got), argv = run_cli(tool, flags, values)
            chk.executed("cli/replay")
            bad = (sc["refuses"] and kind != "refused") or (not sc["refuses"] and (kind == "refused" or any(
                got.get(p, None if concrete(tool, s, values) is None else "<not passed>") != concrete(tool, s, values) for p, s in sc["expect"].items())))
            if bad:
                chk.violation("cli/%s" % tool, "command line %r: %s %r, expected %r" % (argv, kind, got, sc["expect"]), scenario)
