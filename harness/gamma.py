"""
gamma -- concretisation: abstract plotfile (the vocabulary of spec/Plotfile.tla) -> real AMReX
plotfile directory.  Contains no property logic.

Abstract plotfile `AP` (python dict; 1-based box/file numbers as in the TLA+ spec):
  {"src": "A", "ndims": 3, "fields": ["a","b"], "time": 0.5,
   "dom": [nx,ny,nz]            level-0 domain size in cells
   "levels": [ {"boxes": [ {"lo":[..], "hi":[..]}, ... ]        header order (box 1, 2, ...)
                "file":  [f_1, f_2, ...]                        file label (1-based) of each box
                "disk":  {"1":[b,...], "2":[...]} } ]           on-disk order inside each file
  }
Every (src, level, box, field) names one component array ("token").  gamma fills it with a
reproducible pseudo random float64 array, so that alpha can map any array found on disk back to
its token by digest.
"""
import os
import hashlib
import struct
import numpy as np

FAB_CONST = b"FAB ((8, (64 11 52 0 1 12 0 1023)),(8, (8 7 6 5 4 3 2 1)))"


class Config(object):
    """A concretisation choice: where the lattice sits in space, header style, payload class."""

    def __init__(self, seed=0, origin=(0.0, 0.0, 0.0), dx0=(0.125, 0.25, 0.5),
                 payload="tame", trailing_blank=True, long_ratio=False,
                 file_gaps=False, time=None, numfmt="repr", final_newline=True, ratios=None, file_base=0):
        self.seed = seed
        self.origin = tuple(origin)
        self.dx0 = tuple(dx0)
        self.payload = payload
        self.trailing_blank = trailing_blank
        self.long_ratio = long_ratio
        self.file_gaps = file_gaps
        self.time = time
        # text of the decimal numbers of the global header: "repr" = shortest round-trip text (17 significant digits at most);
        # "g6" = six significant digits, as written by codes that do not raise the stream precision.  The geometry helpers
        # below (level_dx, geo, box_bounds) return the values THE HEADER STATES, so oracles follow the text
        self.numfmt = numfmt
        # FALSE: the level headers and the global header end with their last character, not with a line end (legal: nothing
        # follows the last row)
        self.final_newline = final_newline
        # number of the first binary file: AMReX pads file numbers to five digits AT LEAST, so a writer with more than 100000
        # ranks produces Cell_D_99999 next to Cell_D_100000 -- names of different lengths, whose string order is not their number's
        self.file_base = file_base
        # refinement ratio between consecutive levels (spec/Refine.tla): None = 2 everywhere; otherwise a tuple over {2, 4}, one
        # entry per level jump.  A level's cells are rfac(cfg, lv) = ratios[0] * .. * ratios[lv-1] times finer than level 0
        self.ratios = tuple(ratios) if ratios else None

    def fmt(self, x):
        if self.numfmt == "e16":
            return "%.16e" % float(x)         # exponent notation with an explicit sign (1.5000000000000000e+20): exact round trip
        return repr(float(x)) if self.numfmt == "repr" else "%.6g" % float(x)

    def q(self, x):
        return float(self.fmt(x))

    def as_dict(self):
        return dict(self.__dict__)

    @staticmethod
    def draw(rng, ndims=3, payload="tame", dyadic=False, numfmt="repr"):
        """Draw a configuration from a python `random.Random`."""
        if dyadic:
            cand_dx = [0.125, 0.25, 0.5, 1.0, 0.0625]
            cand_or = [0.0, 1.0, -2.0, 0.5, -0.75]
        elif numfmt == "e16":
            # lengths of astrophysical size (cgs units): every number of the header carries an exponent with a + sign
            cand_dx = [1.5e+19, 2.5e+20, 3.0e+18, 7.0e+19, 1.25e+21, 4.0e+20]
            cand_or = [0.0, -3.0e+20, 1.0e+21, -7.5e+19, 2.0e+18]
        elif numfmt == "g6":
            # cell sizes whose decimal expansion does not end: every level's text is a ROUNDED number, ratios between the
            # stated cell sizes of two levels are not exactly powers of two and extent / cell size is not exactly the cell count
            cand_dx = [1.0 / 48, 0.1 / 3, 1.0 / 7, 0.3 / 11, 2.0 / 9, 1.7 / 13]
            cand_or = [0.0, 1.0 / 3, -1.1 / 7, 2.0, -0.05]
        else:
            cand_dx = [0.1, 0.125, 0.3, 0.07, 0.25, 1.7]
            cand_or = [0.0, 0.3, -1.1, 2.0, -0.05]
        dx0 = rng.sample(cand_dx, 3)
        origin = [rng.choice(cand_or) for _ in range(3)]
        # domains straddling the origin with a cell face on (or within rounding of) the coordinate plane 0
        for d in range(3):
            if rng.random() < 0.3:
                origin[d] = -dx0[d] * rng.choice([1, 2, 3])
        return Config(seed=rng.randrange(1 << 30), origin=origin, dx0=dx0, payload=payload,
                      trailing_blank=rng.random() < 0.7, long_ratio=rng.random() < 0.3,
                      file_gaps=rng.random() < 0.3,
                      time=rng.choice([0.0, 1.3924182125972017e-08, -2.5, 1e+22, 0.1]), numfmt=numfmt,
                      final_newline=random_final_newline(origin, dx0),
                      file_base=[0, 0, 0, 99998, 99999, 100000][int(abs(hash((tuple(dx0), tuple(origin), 7)))) % 6])


def random_final_newline(origin, dx0):
    """One configuration in five has no final line end (derived from the drawn numbers: the random stream is left as it was)."""
    return int(abs(hash((tuple(origin), tuple(dx0))))) % 5 != 0


# ---------------------------------------------------------------- token payloads

def _tok_seed(cfgseed, tok):
    h = hashlib.sha256(repr((cfgseed,) + tuple(tok)).encode()).digest()
    return int.from_bytes(h[:8], "little")


WILD_BITS = [0x7FF8000000000000,  # quiet NaN
             0x7FF8000000000001,  # NaN with payload
             0xFFF8000000000123,
             0x7FF0000000000000,  # +inf
             0xFFF0000000000000,  # -inf
             0x0000000000000001,  # smallest denormal
             0x800FFFFFFFFFFFFF,  # largest negative denormal
             0x8000000000000000,  # -0.0
             0x0000000000000000]


def token_array(cfgseed, tok, ncells, payload="tame"):
    """The float64 values (flat, Fortran order) of the component array named by `tok`."""
    rng = np.random.default_rng(_tok_seed(cfgseed, tok))
    if payload == "tame":
        arr = rng.uniform(-1000.0, 1000.0, ncells)
    elif payload == "positive":
        arr = rng.uniform(0.5, 1000.0, ncells)
    elif payload == "wild":
        arr = rng.uniform(-1e3, 1e3, ncells) * 10.0 ** rng.integers(-300, 300, ncells)
        k = max(1, ncells // 4)
        pos = rng.choice(ncells, k, replace=False)
        bits = np.array([WILD_BITS[i] for i in rng.integers(0, len(WILD_BITS), k)], dtype=np.uint64)
        arr[pos] = bits.view(np.float64)
    else:
        raise ValueError(payload)
    return np.ascontiguousarray(arr, dtype=np.float64)


def digest(arr):
    return hashlib.sha1(np.ascontiguousarray(arr, dtype=np.float64).tobytes()).hexdigest()[:16]


class Registry(object):
    """digest -> token, token -> array.  Shared between several generated plotfiles."""

    def __init__(self):
        self.d2t = {}
        self.t2a = {}

    def add(self, tok, arr, strict=True):
        tok = tuple(tok)
        d = digest(arr)
        if d in self.d2t and self.d2t[d] != tok:
            if strict:
                raise RuntimeError("MACHINERY: digest collision between %r and %r" % (self.d2t[d], tok))
            self.t2a[tok] = arr      # prescribed data may repeat: keep the first owner of the digest
            return
        self.d2t[d] = tok
        self.t2a[tok] = arr

    def token_of(self, arr):
        d = digest(arr)
        t = self.d2t.get(d)
        if t is None:
            return ["unknown", d]
        return list(t)

    def array_of(self, tok):
        return self.t2a[tuple(tok)]


# ---------------------------------------------------------------- formatting helpers

def fab_header(lo, hi, nc):
    nd = len(lo)
    s = ("((" + ",".join(str(int(v)) for v in lo) + ") (" + ",".join(str(int(v)) for v in hi)
         + ") (" + ",".join("0" for _ in range(nd)) + ")) %d\n" % nc)
    return FAB_CONST + s.encode("ascii")


def box_cells(box):
    n = 1
    for a, b in zip(box["lo"], box["hi"]):
        n *= (b - a + 1)
    return n


def box_shape(box):
    return tuple(b - a + 1 for a, b in zip(box["lo"], box["hi"]))


def file_name(f, cfg):
    n = (f - 1) * 2 + 1 if cfg.file_gaps else (f - 1)
    return "Cell_D_%05d" % (n + getattr(cfg, "file_base", 0))


def rfac(ratios, lv):
    """Cells of level lv per level-0 cell along one axis; `ratios` is a Config, an abstract plotfile, a tuple or None."""
    if isinstance(ratios, Config):
        ratios = ratios.ratios
    elif isinstance(ratios, dict):
        ratios = ratios.get("ratios")
    if not ratios:
        return 2 ** lv
    p = 1
    for k in range(lv):
        p *= ratios[k]
    return p


def level_dx(cfg, ndims, lv):
    return [cfg.q(cfg.dx0[d] / rfac(cfg, lv)) for d in range(ndims)]


def apply_ratios(AP, cfg, ratios):
    """Turn a ratio-2 abstract plotfile into one with the given ratios: the boxes of level lv keep their place in space and are
    rfac / 2**lv times finer along every axis.  Records the ratios in AP and cfg (write_plotfile insists that they agree)."""
    ratios = tuple(ratios)
    for lv, L in enumerate(AP["levels"]):
        k = rfac(ratios, lv) // 2 ** lv
        for box in L["boxes"]:
            box["lo"] = [v * k for v in box["lo"]]
            box["hi"] = [(v + 1) * k - 1 for v in box["hi"]]
    AP["ratios"] = list(ratios)
    cfg.ratios = ratios
    return AP


def geo(AP, cfg):
    nd = AP["ndims"]
    lo = [cfg.q(cfg.origin[d]) for d in range(nd)]
    hi = [cfg.q(cfg.origin[d] + cfg.dx0[d] * AP["dom"][d]) for d in range(nd)]
    return lo, hi


def ishift(AP, lv):
    """Index of the first cell of the level-lv domain along each axis (0 unless shift_indices was applied)."""
    return [s * rfac(AP, lv) for s in AP.get("ishift", [0] * AP["ndims"])]


def shift_indices(AP, shift):
    """Move the index space: the level-0 domain starts at index shift[d] (level lv: shift[d] * 2**lv); every box follows.
    Physical coordinates are unchanged."""
    nd = AP["ndims"]
    old = AP.get("ishift", [0] * nd)
    for lv, L in enumerate(AP["levels"]):
        for box in L["boxes"]:
            for d in range(nd):
                k = (shift[d] - old[d]) * rfac(AP, lv)
                box["lo"][d] += k
                box["hi"][d] += k
    AP["ishift"] = list(shift[:nd])
    return AP


def box_bounds(AP, cfg, lv, box):
    nd = AP["ndims"]
    dx = level_dx(cfg, nd, lv)
    s = ishift(AP, lv)
    return [[cfg.q(cfg.origin[d] + dx[d] * (box["lo"][d] - s[d])), cfg.q(cfg.origin[d] + dx[d] * (box["hi"][d] + 1 - s[d]))]
            for d in range(nd)]


def fmt(x):
    return repr(float(x))


def fmt_mm(x):
    return "%.16e" % x


# ---------------------------------------------------------------- the writer

def component(AP, cfg, reg, lv, b, fi, values=None):
    """Array (flat) of field number fi (1-based) of box b (1-based) at level lv; registers it."""
    tok = (AP["src"], lv, b, fi)
    box = AP["levels"][lv]["boxes"][b - 1]
    if tok in reg.t2a:
        return reg.t2a[tok]
    if values is not None:
        arr = np.ascontiguousarray(values(lv, b, fi, box), dtype=np.float64).ravel(order="F")
    else:
        arr = token_array(cfg.seed, tok, box_cells(box), cfg.payload)
    reg.add(tok, arr, strict=values is None)
    return arr


def write_plotfile(path, AP, cfg, reg=None, values=None, mm_override=None):
    """
    Write AP under `path`.  `values(lv,b,fi,box)` may supply explicit data (shape of the box,
    any order; flattened in Fortran order) instead of pseudo-random token payloads.
    Returns the registry.
    """
    if reg is None:
        reg = Registry()
    nd = AP["ndims"]
    nf = len(AP["fields"])
    nlev = len(AP["levels"])
    if tuple(AP.get("ratios") or ()) != tuple(cfg.ratios or ()):
        raise RuntimeError("MACHINERY: refinement ratios of the abstract plotfile %r and of the configuration %r differ" % (AP.get("ratios"), cfg.ratios))
    os.makedirs(path, exist_ok=False)
    time = AP.get("time", cfg.time if cfg.time is not None else 0.0)
    lo, hi = geo(AP, cfg)
    tb = " " if cfg.trailing_blank else ""
    with open(os.path.join(path, "Header"), "w", encoding="utf-8") as h:
        h.write("HyperCLaw-V1.1\n")
        h.write("%d\n" % nf)
        for f in AP["fields"]:
            h.write(f + "\n")
        h.write("%d\n" % nd)
        fmt = cfg.fmt
        h.write(repr(float(time)) + "\n")
        h.write("%d\n" % (nlev - 1))
        h.write(" ".join(fmt(v) for v in lo) + tb + "\n")
        h.write(" ".join(fmt(v) for v in hi) + tb + "\n")
        nrat = nlev - 1 + (1 if cfg.long_ratio else 0)
        rat = list(cfg.ratios[:nlev - 1]) if cfg.ratios else [2] * (nlev - 1)
        rat += [2] * (nrat - len(rat))
        h.write(" ".join(str(r) for r in rat) + tb + "\n")
        doms = []
        for lv in range(nlev):
            sh = ishift(AP, lv)
            sz = [AP["dom"][d] * rfac(cfg, lv) - 1 + sh[d] for d in range(nd)]
            z = ",".join("0" for _ in range(nd))
            doms.append("((%s) (%s) (%s))" % (",".join(str(s) for s in sh), ",".join(str(s) for s in sz), z))
        h.write(" ".join(doms) + tb + "\n")
        h.write(" ".join(str(20 + lv) for lv in range(nlev)) + tb + "\n")
        for lv in range(nlev):
            h.write(" ".join(fmt(v) for v in level_dx(cfg, nd, lv)) + tb + "\n")
        h.write("0\n")
        h.write("0\n")
        for lv in range(nlev):
            L = AP["levels"][lv]
            h.write("%d %d %s\n" % (lv, len(L["boxes"]), repr(float(time))))
            h.write("%d\n" % (20 + lv))
            for box in L["boxes"]:
                for d in range(nd):
                    a, b = box_bounds(AP, cfg, lv, box)[d]
                    h.write("%s %s\n" % (fmt(a), fmt(b)))
            h.write("Level_%d/Cell\n" % lv)
    for lv in range(nlev):
        L = AP["levels"][lv]
        ldir = os.path.join(path, "Level_%d" % lv)
        os.makedirs(ldir)
        nb = len(L["boxes"])
        offs = {}
        mins = {}
        maxs = {}
        for f, order in sorted(L["disk"].items(), key=lambda kv: int(kv[0])):
            f = int(f)
            with open(os.path.join(ldir, file_name(f, cfg)), "wb") as bf:
                for b in order:
                    box = L["boxes"][b - 1]
                    offs[b] = bf.tell()
                    bf.write(fab_header(box["lo"], box["hi"], nf))
                    if box.get("sparse"):
                        # a box of zeros written as a HOLE of the file (no token, no memory): gigabytes of payload for nothing
                        bf.seek(box_cells(box) * nf * 8, 1)
                        bf.truncate(bf.tell())
                        mins[b], maxs[b] = [0.0] * nf, [0.0] * nf
                        continue
                    mn, mx = [], []
                    for fi in range(1, nf + 1):
                        arr = component(AP, cfg, reg, lv, b, fi, values)
                        bf.write(arr.tobytes())
                        with np.errstate(all="ignore"):
                            mn.append(float(np.min(arr)))
                            mx.append(float(np.max(arr)))
                    mins[b], maxs[b] = mn, mx
        if mm_override is not None:
            mins, maxs = mm_override(lv, mins, maxs)
        with open(os.path.join(ldir, "Cell_H"), "w") as c:
            c.write("1\n1\n%d\n0\n" % nf)
            c.write("(%d 0\n" % nb)
            z = ",".join("0" for _ in range(nd))
            for box in L["boxes"]:
                c.write("((%s) (%s) (%s))\n" % (",".join(str(v) for v in box["lo"]),
                                                ",".join(str(v) for v in box["hi"]), z))
            c.write(")\n")
            c.write("%d\n" % nb)
            for b in range(1, nb + 1):
                c.write("FabOnDisk: %s %d\n" % (file_name(L["file"][b - 1], cfg), offs[b]))
            c.write("\n")
            c.write("%d,%d\n" % (nb, nf))
            for b in range(1, nb + 1):
                c.write(",".join(fmt_mm(v) for v in mins[b]) + ",\n")
            c.write("\n")
            c.write("%d,%d\n" % (nb, nf))
            for b in range(1, nb + 1):
                c.write(",".join(fmt_mm(v) for v in maxs[b]) + ",\n")
            c.write("\n")
        if not getattr(cfg, "final_newline", True):
            p = os.path.join(ldir, "Cell_H")
            txt = open(p).read().rstrip("\n")
            open(p, "w").write(txt)
    if not getattr(cfg, "final_newline", True):
        p = os.path.join(path, "Header")
        txt = open(p, encoding="utf-8").read().rstrip("\n")
        open(p, "w", encoding="utf-8").write(txt)
    return reg


# ---------------------------------------------------------------- meshes for layout-only properties

def mesh_from_classes(level_classes, ndims=3, cross=(3, 2)):
    """
    Build box index ranges for properties where only the *number* of boxes per level and their
    shape class matter.  level_classes[lv] = list of shape classes (1,2,..) in header order.
    Boxes of one level are laid side by side along x.  Level 0: class c is (c+1) cells wide and
    spans the whole 3 x 2 cross-section.  Finer levels: class c is 2(c+1) cells wide, y in 2..5,
    z in 0..1 (a partially refined strip).  Same class <=> same shape (within a level); no box
    is cubic.
    """
    ny0, nz0 = cross                 # cells of the level-0 cross-section; (3, 1): boxes one cell thick along the last axis
    width0 = max(sum(c + 1 for c in cl) for cl in level_classes)
    dom = [width0, ny0, nz0][:ndims]
    levels = []
    for lv, cl in enumerate(level_classes):
        boxes = []
        x = 0
        for c in cl:
            if lv == 0:
                w = c + 1
                lo, hi = [x, 0, 0], [x + w - 1, ny0 - 1, nz0 - 1]
            else:
                w = 2 * (c + 1)
                lo, hi = [x, 2 if ny0 >= 3 else 0, 0], [x + w - 1, 5 if ny0 >= 3 else 2 * ny0 - 1, 2 * nz0 - 1 if nz0 < 2 else 1]
            boxes.append({"lo": lo[:ndims], "hi": hi[:ndims]})
            x += w
        levels.append(boxes)
    return dom, levels


def layout_identity(nb, nfiles=1):
    """All boxes in header order, dealt round-robin over nfiles files."""
    file = [(b - 1) % nfiles + 1 for b in range(1, nb + 1)]
    disk = {}
    for b, f in enumerate(file, 1):
        disk.setdefault(str(f), []).append(b)
    return file, disk


def make_ap(src, fields, level_classes, layouts=None, ndims=3, time=0.5, cross=(3, 2)):
    """Convenience: abstract plotfile from shape classes and (optional) per-level layouts."""
    dom, lv_boxes = mesh_from_classes(level_classes, ndims, cross)
    levels = []
    for lv, boxes in enumerate(lv_boxes):
        if layouts is not None and layouts[lv] is not None:
            file, disk = layouts[lv]["file"], {str(k): list(v) for k, v in layouts[lv]["disk"].items()}
        else:
            file, disk = layout_identity(len(boxes))
        levels.append({"boxes": boxes, "file": list(file), "disk": disk})
    return {"src": src, "ndims": ndims, "fields": list(fields), "time": time, "dom": dom,
            "levels": levels}


def twin_ap(src, fields, ndims, nlev, layouts=None, time=0.5):
    """A hierarchy whose boxes all have the SAME number of cells (per level) but not the same shape -- 4x2(x4) next to 2x4(x4),
    8x4x4 next to 4x4x8 -- with one-digit indices throughout, so that their FAB headers are equally long and their FABs
    equally large: nothing but the index range tells such boxes apart."""
    if ndims == 3:
        lv0 = [([0, 0, 0], [3, 1, 3]), ([4, 0, 0], [5, 3, 3]), ([0, 2, 0], [3, 3, 3])]
        lv1 = [([0, 0, 0], [7, 3, 3]), ([0, 4, 0], [3, 7, 7])]
        dom = [6, 4, 4]
    else:
        lv0 = [([0, 0], [3, 1]), ([4, 0], [5, 3]), ([0, 2], [3, 3])]
        lv1 = [([0, 0], [7, 1]), ([0, 2], [3, 5])]
        dom = [6, 4]
    levels = []
    for lv, bx in enumerate([lv0, lv1][:nlev]):
        boxes = [{"lo": list(a), "hi": list(b)} for a, b in bx]
        if layouts is not None and layouts[lv] is not None:
            file, disk = list(layouts[lv]["file"]), {str(k): list(v) for k, v in layouts[lv]["disk"].items()}
        else:
            file, disk = layout_identity(len(boxes))
        levels.append({"boxes": boxes, "file": file, "disk": disk})
    return {"src": src, "ndims": ndims, "fields": list(fields), "time": time, "dom": dom, "levels": levels}


# ---------------------------------------------------------------- concrete field names

# Abstract field names of the model instances ("a", "b", ... and the unknown name "zz") are concretised through one of these
# pools: plain letters; names of which one is a PREFIX of another, with parentheses and dots; names with a blank, a digit suffix,
# a hyphen.  The unknown name becomes a proper prefix of a known one (a lookup by prefix or substring would accept it).
NAME_POOLS = [
    (["a", "b", "c", "d", "e", "f", "g", "h"], "zz"),
    (["temp", "temperature", "Y(H2)", "Y(H2O)", "rho.E", "x_velocity", "Y(H)", "tempe"], "Y(H2"),
    (["mag vort", "mag", "density", "density2", "I_R(CH4)", "T-1", "mag vort z", "2T"], "densit"),
    # characters that mean something to a pattern matcher (glob / regular expression) but are plain characters of a name
    (["u[1]", "u1", "T*", "Tmax", "p?", "pq", "a.b", "axb"], "u[2]"),
    # names that differ only by the CASE of their letters (PeleC's Temp next to PeleLMeX's temp): distinct fields; the unknown
    # name is a known one in another case
    (["Temp", "temp", "TEMP", "p", "P", "rho", "Rho", "y(h2)"], "Y(H2)"),
    # letters outside ASCII (the header is UTF-8 text): the name a tool writes, reads back or looks up is the name, letter for letter
    (["temp\u00e9rature", "\u0394p", "\u03bc_t", "temp", "\u0394T", "\u03c1", "Y(H\u2082)", "\u00e9"], "temp\u00e9"),
]


def names_map(seed, abstract, blanks=True):
    """{abstract name -> concrete name} for the abstract names given (order of first appearance) plus 'zz'."""
    pools = NAME_POOLS if blanks else [q for q in NAME_POOLS if not any(" " in n for n in q[0])]
    pool, unknown = pools[seed % len(pools)]
    out, k = {}, 0
    for n in abstract:
        if n == "zz" or n in out:
            continue
        out[n] = pool[k]
        k += 1
    out["zz"] = unknown
    return out


# ---------------------------------------------------------------- what an earlier, larger plotfile leaves behind

def add_stale_files(path, AP, cfg, seed):
    """A directory that was written TWICE (the second, smaller plotfile is the one its headers describe) still holds files of the
    first: in every level directory a Cell_D file that no box of the level header refers to (a well-formed FAB of another region
    with other values), and a level directory beyond the finest level with a level header of its own.  None of it is part of the
    plotfile; a tool that LISTS directories instead of following the headers picks it up."""
    rng = np.random.default_rng(seed)
    nd = AP["ndims"]
    nf = len(AP["fields"])
    nlev = len(AP["levels"])
    for lv in range(nlev):
        ldir = os.path.join(path, "Level_%d" % lv)
        used = [fn for fn in os.listdir(ldir) if fn.startswith("Cell_D_")]
        n = max(int(fn.split("_")[-1]) for fn in used) + 1 + int(seed % 2)
        box = AP["levels"][lv]["boxes"][0]
        with open(os.path.join(ldir, "Cell_D_%05d" % n), "wb") as f:
            f.write(fab_header(box["lo"], box["hi"], nf))
            f.write(rng.uniform(-9e5, 9e5, box_cells(box) * nf).tobytes())
    ldir = os.path.join(path, "Level_%d" % nlev)
    os.makedirs(ldir, exist_ok=True)
    box = AP["levels"][-1]["boxes"][0]
    lo = [2 * v for v in box["lo"]]
    hi = [2 * v + 1 for v in box["hi"]]
    with open(os.path.join(ldir, "Cell_D_00000"), "wb") as f:
        f.write(fab_header(lo, hi, nf))
        ncell = int(np.prod([h - l + 1 for l, h in zip(lo, hi)]))
        f.write(rng.uniform(-9e5, 9e5, ncell * nf).tobytes())
    z = ",".join("0" for _ in range(nd))
    with open(os.path.join(ldir, "Cell_H"), "w") as c:
        c.write("1\n1\n%d\n0\n(1 0\n((%s) (%s) (%s))\n)\n1\nFabOnDisk: Cell_D_00000 0\n\n" % (
            nf, ",".join(map(str, lo)), ",".join(map(str, hi)), z))
