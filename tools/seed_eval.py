#!/venv/bin/python
"""
Evaluate a seeded change produced by an independent sub-agent.

  tools/seed_eval.py <worktree dir with mutation.patch, demo.py, NOTES.md> <property id> [--checks C05,C12] [--tier quick]

1. confirms, in a fresh scratch worktree of /repo, that the patch applies, that the repository's
   test-suite still gives the baseline result (40 passed, the one known failure) and that demo.py
   fails with the patch and passes without it;
2. applies the patch to /repo, runs the listed checks (default: the property's own), records
   whether each reports a VIOLATION, and ALWAYS restores /repo (git checkout -- .);
3. stores patch.diff, the demonstration and meta.json under /verif/seeded/<name>/.
"""
import argparse
import json
import os
import re
import shutil
import subprocess
import sys
import time

VERIF = os.path.dirname(os.path.dirname(os.path.abspath(__file__)))
REPO = "/repo"
PY = "/venv/bin/python"


def sh(cmd, cwd=None, timeout=3600, env=None):
    e = dict(os.environ)
    e.pop("AMR_KITCHEN_VERIF", None)
    if env:
        e.update(env)
    p = subprocess.run(cmd, shell=True, cwd=cwd, stdout=subprocess.PIPE, stderr=subprocess.STDOUT, text=True, timeout=timeout, env=e)
    return p.returncode, p.stdout


def main():
    ap = argparse.ArgumentParser()
    ap.add_argument("src")
    ap.add_argument("prop")
    ap.add_argument("--name", default=None)
    ap.add_argument("--checks", default=None)
    ap.add_argument("--tier", default="quick")
    ap.add_argument("--skip-confirm", action="store_true")
    a = ap.parse_args()
    name = a.name or os.path.basename(os.path.normpath(a.src))
    patch = os.path.join(a.src, "mutation.patch")
    if not os.path.exists(patch):
        patch = os.path.join(a.src, "patch.diff")          # re-evaluation from /verif/seeded/<name>
    demo = os.path.join(a.src, "demo.py")
    if not os.path.exists(patch) or not os.path.exists(demo):
        print("missing mutation.patch / demo.py in", a.src)
        return 2
    meta = {"name": name, "property": a.prop, "evaluated_at": time.strftime("%Y-%m-%d %H:%M:%S"),
            "repo_head": sh("git -C %s rev-parse --short HEAD" % REPO)[1].strip()}
    notes = open(os.path.join(a.src, "NOTES.md")).read() if os.path.exists(os.path.join(a.src, "NOTES.md")) else ""
    meta["notes"] = notes[:3000]
    # ---- 1. confirmation in a fresh worktree
    if not a.skip_confirm:
        wt = "/tmp/wt/v_%s" % name
        sh("git -C %s worktree remove --force %s" % (REPO, wt))
        rc, out = sh("git -C %s worktree add --detach %s HEAD -q" % (REPO, wt))
        try:
            rc, out = sh("git apply %s" % patch, cwd=wt)
            meta["patch_applies"] = rc == 0
            if rc != 0:
                print("patch does not apply:", out[-500:])
                meta["confirmed"] = False
            else:
                # demonstrations are written to be run as `_seed/demo.py` from the worktree top (some locate the package relative to
                # their own directory): same place, and the worktree first on the module path
                os.makedirs(os.path.join(wt, "_seed"), exist_ok=True)
                shutil.copy(demo, os.path.join(wt, "_seed", "demo.py"))
                for extra in os.listdir(a.src):
                    if extra.startswith("demo_") or extra.endswith("_helper.py"):
                        shutil.copy(os.path.join(a.src, extra), os.path.join(wt, "_seed"))
                rc, out = sh("%s -m pytest -q -p no:cacheprovider --timeout=900 test/ 2>&1 | tail -3" % PY, cwd=wt)
                m = re.search(r"(\d+) failed, (\d+) passed", out) or re.search(r"(\d+) passed", out)
                meta["suite_with_patch"] = out.strip().split("\n")[-1]
                suite_ok = bool(re.search(r"1 failed, 40 passed", out))
                rc_mut, out_mut = sh("%s _seed/demo.py" % PY, cwd=wt, timeout=1200, env={"PYTHONPATH": wt})
                sh("git apply -R %s" % patch, cwd=wt)
                rc_clean, out_clean = sh("%s _seed/demo.py" % PY, cwd=wt, timeout=1200, env={"PYTHONPATH": wt})
                meta["demo_rc_with_patch"] = rc_mut
                meta["demo_rc_without_patch"] = rc_clean
                meta["demo_output_with_patch"] = out_mut[-600:]
                meta["confirmed"] = suite_ok and rc_mut != 0 and rc_clean == 0
                print("suite:", meta["suite_with_patch"], "| demo with patch rc=%d, without rc=%d" % (rc_mut, rc_clean))
        finally:
            sh("git -C %s worktree remove --force %s" % (REPO, wt))
    # ---- 2. our checks against a patched copy of the repository
    # (a scratch worktree of /repo's HEAD selected with VERIF_REPO, so that concurrent runs that use /repo
    #  itself are not disturbed; equivalent to `git -C /repo apply` + `git -C /repo checkout -- .`)
    checks = (a.checks.split(",") if a.checks else [a.prop])
    results = {}
    wt2 = "/tmp/wt/m_%s" % name
    sh("git -C %s worktree remove --force %s" % (REPO, wt2))
    sh("git -C %s worktree add --detach %s HEAD -q" % (REPO, wt2))
    rc, out = sh("git apply %s" % patch, cwd=wt2)
    if rc != 0:
        print("patch does not apply:", out[-300:])
        sh("git -C %s worktree remove --force %s" % (REPO, wt2))
        return 2
    try:
        for c in checks:
            t0 = time.time()
            rc, out = sh("./check %s --tier %s" % (c, a.tier), cwd=VERIF, timeout=7200, env={"VERIF_SEED": "0", "VERIF_EVIDENCE_DIR": "/tmp/wt/evidence_scratch", "VERIF_REPO": wt2})
            viol = [l for l in out.split("\n") if l.startswith("VIOLATION")]
            first = ""
            if viol:
                i = out.split("\n").index(viol[0])
                first = "\n".join(out.split("\n")[i:i + 2])[:700]
            results[c] = {"exit": rc, "detected": rc == 1 and bool(viol), "violations": len(viol), "first": first,
                          "tier": a.tier, "wall_s": round(time.time() - t0, 1), "tail": out.strip().split("\n")[-1][:300]}
            print("%s %s: exit=%d detected=%s (%d VIOLATION lines, %.0fs)" % (c, a.tier, rc, results[c]["detected"], len(viol), time.time() - t0))
            if first:
                print("   ", first.replace("\n", "\n    ")[:500])
            if rc == 2:
                print(out[-800:])
    finally:
        sh("git -C %s worktree remove --force %s" % (REPO, wt2))
    meta["checks"] = results
    # restore evidence files written against the mutated tree
    sh("git checkout -- evidence", cwd=VERIF)
    # ---- 3. store
    dst = os.path.join(VERIF, "seeded", name)
    os.makedirs(dst, exist_ok=True)
    if os.path.abspath(patch) != os.path.abspath(os.path.join(dst, "patch.diff")):
        shutil.copy(patch, os.path.join(dst, "patch.diff"))
    if os.path.abspath(demo) != os.path.abspath(os.path.join(dst, "demo.py")):
        shutil.copy(demo, os.path.join(dst, "demo.py"))
    if notes:
        open(os.path.join(dst, "NOTES.md"), "w").write(notes)
    old = {}
    mp = os.path.join(dst, "meta.json")
    if os.path.exists(mp):
        old = json.load(open(mp))
        prev = old.get("checks", {})
        for k, v in prev.items():
            if k not in results:
                results[k] = v
        for k in ("confirmed", "suite_with_patch", "demo_rc_with_patch", "demo_rc_without_patch", "patch_applies", "demo_output_with_patch"):
            if k not in meta and k in old:
                meta[k] = old[k]
        meta["history"] = old.get("history", []) + [{"at": old.get("evaluated_at"), "checks": prev}]
    json.dump(meta, open(mp, "w"), indent=1)
    print("stored", dst, "confirmed =", meta.get("confirmed"))
    return 0


if __name__ == "__main__":
    sys.exit(main())
