#!/venv/bin/python
"""
Detection self-test on realistic defects: every `fix:` commit of /repo is reverted, one at a time, in a
scratch worktree (VERIF_REPO), and the quick check of the property it repaired must report a VIOLATION.
Writes /verif/seeded/revert_sweep.json.   tools/revert_sweep.py [commit ...]
"""
import json, os, subprocess, sys, time
VERIF = os.path.dirname(os.path.dirname(os.path.abspath(__file__)))

def sh(cmd, cwd=None, env=None, timeout=7200):
    e = dict(os.environ); e.update(env or {})
    p = subprocess.run(cmd, shell=True, cwd=cwd, stdout=subprocess.PIPE, stderr=subprocess.STDOUT, text=True, env=e, timeout=timeout)
    return p.returncode, p.stdout

def main():
    known = json.load(open(os.path.join(VERIF, "known_findings.json")))
    fixed = {}
    for k in known:
        if k["status"].startswith("fixed:"):
            fixed.setdefault(k["status"].split(":")[1], []).append(k["property"])
    want = sys.argv[1:] or sorted(fixed)
    outp = os.path.join(VERIF, "seeded", "revert_sweep.json")
    res = json.load(open(outp)) if os.path.exists(outp) else {}
    for c in want:
        wt = "/tmp/wt/r_%s" % c
        sh("git -C /repo worktree remove --force %s" % wt)
        sh("git -C /repo worktree add --detach %s HEAD -q" % wt)
        rc, out = sh("git revert --no-commit %s" % c, cwd=wt)
        if rc != 0:
            res[c] = {"properties": fixed.get(c), "reverted": False, "why": out[-200:]}
            sh("git -C /repo worktree remove --force %s" % wt)
            print(c, "cannot be reverted cleanly (later commits touch the same lines)")
            continue
        # C13's fixes also show under their own property; run the property listed
        for prop in sorted(set(fixed.get(c, []))):
            t0 = time.time()
            rc, out = sh("./check %s --tier quick" % prop, cwd=VERIF, env={"VERIF_REPO": wt, "VERIF_SEED": "0", "VERIF_EVIDENCE_DIR": "/tmp/wt/evidence_scratch"})
            nv = sum(1 for l in out.split("\n") if l.startswith("VIOLATION"))
            res.setdefault(c, {"properties": fixed.get(c), "reverted": True, "checks": {}})
            res[c]["checks"][prop] = {"exit": rc, "violations": nv, "detected": rc == 1 and nv > 0, "wall_s": round(time.time() - t0, 1)}
            print(c, prop, "exit", rc, "VIOLATION lines", nv, "-> detected" if rc == 1 and nv else "-> MISSED", flush=True)
        sh("git -C /repo worktree remove --force %s" % wt)
        json.dump(res, open(outp, "w"), indent=1)
    sh("git checkout -- evidence", cwd=VERIF)

if __name__ == "__main__":
    main()
