#!/venv/bin/python
"""
tools/seed_sweep.py [-j N] [names...]   -- regression sweep: every seeded change under /verif/seeded (or the ones named) is applied to
a scratch worktree of /repo's HEAD and its property's quick check is run against it (VERIF_REPO); reports the ones NOT detected.
Writes seeded/sweep.json.  Nothing in /repo or in the evidence directory is touched.
"""
import argparse
import json
import os
import subprocess
import sys
import time
from concurrent.futures import ThreadPoolExecutor

VERIF = os.path.dirname(os.path.dirname(os.path.abspath(__file__)))


def sh(cmd, cwd=None, env=None, timeout=3600):
    e = dict(os.environ)
    if env:
        e.update(env)
    p = subprocess.run(cmd, shell=True, cwd=cwd, stdout=subprocess.PIPE, stderr=subprocess.STDOUT, text=True, env=e, timeout=timeout)
    return p.returncode, p.stdout


def one(name):
    d = os.path.join(VERIF, "seeded", name)
    meta = json.load(open(os.path.join(d, "meta.json")))
    prop = meta["property"]
    wt = "/tmp/wt/sw_%s" % name
    sh("git -C /repo worktree remove --force %s" % wt)
    sh("git -C /repo worktree add --detach %s HEAD -q" % wt)
    try:
        rc, out = sh("git apply %s" % os.path.join(d, "patch.diff"), cwd=wt)
        if rc != 0:
            return name, prop, "patch-does-not-apply", 0.0
        t0 = time.time()
        checks = sorted(set([prop] + [c for c, r in meta.get("checks", {}).items() if r.get("detected")]))
        det = []
        for c in checks:
            rc, out = sh("./check %s --tier quick" % c, cwd=VERIF, env={"VERIF_SEED": "0", "VERIF_REPO": wt,
                                                                      "VERIF_EVIDENCE_DIR": "/tmp/wt/evidence_sweep_%s" % name})
            if rc == 1 and "VIOLATION" in out:
                det.append(c)
            elif rc == 2:
                det.append(c + ":machinery-error")
        return name, prop, ",".join(det) if det else "MISSED", time.time() - t0
    finally:
        sh("git -C /repo worktree remove --force %s" % wt)
        sh("rm -rf /tmp/wt/evidence_sweep_%s" % name)


def main():
    ap = argparse.ArgumentParser()
    ap.add_argument("-j", type=int, default=4)
    ap.add_argument("names", nargs="*")
    a = ap.parse_args()
    names = a.names or sorted(n for n in os.listdir(os.path.join(VERIF, "seeded")) if os.path.isdir(os.path.join(VERIF, "seeded", n)))
    res = {}
    with ThreadPoolExecutor(max_workers=a.j) as ex:
        for name, prop, verdict, dt in ex.map(one, names):
            res[name] = {"property": prop, "verdict": verdict, "seconds": round(dt, 1)}
            print("%-8s %-4s %-30s %5.0fs" % (name, prop, verdict, dt), flush=True)
    json.dump(res, open(os.path.join(VERIF, "seeded", "sweep.json"), "w"), indent=1, sort_keys=True)
    bad = [n for n, r in res.items() if r["verdict"] == "MISSED" or "machinery" in r["verdict"] or "apply" in r["verdict"]]
    print("sweep: %d changes, %d not detected: %s" % (len(res), len(bad), bad))
    return 1 if bad else 0


if __name__ == "__main__":
    sys.exit(main())
