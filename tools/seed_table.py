#!/venv/bin/python
"""tools/seed_table.py <suffix>  -- markdown rows (name | property | change | first | now) for seeded/*-<suffix>/meta.json"""
import glob
import json
import os
import re
import sys

VERIF = os.path.dirname(os.path.dirname(os.path.abspath(__file__)))
suf = sys.argv[1] if len(sys.argv) > 1 else "b"
for d in sorted(glob.glob(os.path.join(VERIF, "seeded", "*-%s" % suf))):
    m = json.load(open(os.path.join(d, "meta.json")))
    prop = m["property"]
    now = m["checks"].get(prop, {}).get("detected")
    hist = [h["checks"].get(prop, {}).get("detected") for h in m.get("history", []) if h.get("checks")]
    first = hist[0] if hist else now
    notes = m.get("notes", "")
    what = ""
    for ln in notes.split("\n"):
        ln = ln.strip().lstrip("-*0123456789. ")
        if ln and not ln.startswith("#"):
            what = ln
            break
    what = re.sub(r"\*\*", "", what)
    what = re.sub(r"^(What|Change|Changed)\s*:?\s*", "", what)[:260].replace("|", "/")
    print("| %s | %s | %s | %s | %s |" % (m["name"], prop, what, "caught" if first else "MISSED", "caught" if now else "MISSED"))
